"""Abstract interpreter over MIR facts: evaluates a function along its acyclic paths into
symbolic *terms* (origins), a region algebra for byte buffers, and an ordered event list.

This is a dataflow / value-numbering engine, not an executor: values are uninterpreted terms,
calls into dependencies stay opaque, no path feasibility is decided and no solver is used.
Workspace-local helpers are inlined by parameter substitution (bounded depth).
"""
import re
from facts import short, qshort

MAX_DEPTH = 6
MAX_PATHS = 400

class Unsupported(Exception):
    pass

# ---------------------------------------------------------------- tables (callee path -> semantics)
# view calls: return a pointer/view of argument 0 (same location, same bytes)
VIEWS = {
    "core::str::<impl str>::as_bytes",
    "alloc::string::String::as_bytes",
    "core::convert::AsRef::as_ref",
    "core::convert::AsMut::as_mut",
    "core::borrow::Borrow::borrow",
    "core::ops::deref::Deref::deref",
    "core::ops::deref::DerefMut::deref_mut",
    "core::slice::<impl [T]>::as_ptr",
    "core::slice::<impl [T]>::as_mut_ptr",
    "core::array::<impl [T; N]>::as_slice",
    "core::array::<impl [T; N]>::as_mut_slice",
    "generic_array::GenericArray::<T, N>::from_slice",
    "generic_array::GenericArray::<T, N>::from_mut_slice",
    "generic_array::GenericArray::<T, N>::as_slice",
    "generic_array::GenericArray::<T, N>::as_mut_slice",
    "alloc::vec::Vec::<T, A>::as_slice",
    "alloc::vec::Vec::<T, A>::as_mut_slice",
    "zerocopy::IntoBytes::as_bytes",
    "curve25519_dalek::montgomery::MontgomeryPoint::as_bytes",
    "sec1::point::EncodedPoint::<Size>::as_bytes",
    "ed25519_dalek::verifying::VerifyingKey::as_bytes",
    "libsodium_rs::crypto_box::PublicKey::as_bytes",
    "libsodium_rs::crypto_box::SecretKey::as_bytes",
    "libsodium_rs::crypto_sign::PublicKey::as_bytes",
    "libsodium_rs::crypto_sign::SecretKey::as_bytes",
    "elliptic_curve::ecdh::SharedSecret::<C>::raw_secret_bytes",
    "der::document::SecretDocument::as_bytes",
    "core::ptr::mut_ptr::<impl *mut T>::cast",
    "core::ptr::const_ptr::<impl *const T>::cast",
    "core::hint::must_use",
}
# value->value identity conversions (by value: result has the same bytes as argument 0)
IDENT = {
    "alloc::vec::Vec::<T, A>::into_boxed_slice",
    "alloc::slice::<impl [T]>::into_vec",
    "der::document::Document::into_vec",
    "digest::mac::CtOutput::<T>::into_bytes",
    "core::convert::Into::into",
    "core::convert::From::from",
}
_VB = r"(?:alloc::vec::Vec<u8>|alloc::boxed::Box<\[u8\]>)"
OWNED_BYTES_CONV = re.compile(r"^<%s as core::convert::(?:Into|From)<%s>>::(?:into|from)$" % (_VB, _VB))
# copying views: fresh owned buffer with the same bytes as the pointee of argument 0
COPIES = {
    "alloc::slice::<impl [T]>::to_vec",
    "alloc::borrow::ToOwned::to_owned",
    "der::document::SecretDocument::to_bytes",
}
SPLITTERS = {
    "core::slice::<impl [T]>::split_first_chunk": ("first", "opt"),
    "core::slice::<impl [T]>::split_first_chunk_mut": ("first", "opt"),
    "core::slice::<impl [T]>::split_last_chunk": ("last", "opt"),
    "core::slice::<impl [T]>::split_last_chunk_mut": ("last", "opt"),
    "core::slice::<impl [T]>::first_chunk": ("first1", "opt"),
    "core::slice::<impl [T]>::last_chunk": ("last1", "opt"),
    "core::slice::<impl [T]>::split_at": ("at", "plain"),
    "core::slice::<impl [T]>::split_at_mut": ("at", "plain"),
    "core::slice::<impl [T]>::split_at_checked": ("at", "opt"),
    "core::slice::<impl [T]>::split_at_mut_checked": ("at", "opt"),
    "zerocopy::FromBytes::mut_from_prefix": ("zfirst", "res"),
    "zerocopy::FromBytes::ref_from_prefix": ("zfirst", "res"),
    "zerocopy::FromBytes::mut_from_suffix": ("zlast", "res"),
    "zerocopy::FromBytes::ref_from_suffix": ("zlast", "res"),
    "zerocopy::FromBytes::mut_from_bytes": ("zexact", "res"),
    "zerocopy::FromBytes::ref_from_bytes": ("zexact", "res"),
}
# calls that completely overwrite the buffer behind argument `idx`
OVERWRITERS = {
    "getrandom::fill": 0,
    "aws_lc_rs::rand::SecureRandom::fill": 1,
    "libsodium_rs::random::fill_bytes": 0,
    "aws_lc_rs::hkdf::Okm::<'_, L>::fill": 1,
    "argon2::Argon2::<'key>::hash_password_into": 3,
    "aws_lc_rs::pbkdf2::derive": 4,
    "hkdf::Hkdf::<H, I>::expand": 2,
    "hkdf::Hkdf::<H, I>::expand_multi_info": 2,
}
RNG = {
    "getrandom::fill", "aws_lc_rs::rand::SecureRandom::fill", "libsodium_rs::random::fill_bytes",
    "libsodium_rs::random::bytes", "libsodium_rs::crypto_box::KeyPair::generate",
}
PANICKERS = {"core::panicking::panic", "core::panicking::panic_fmt", "core::panicking::assert_failed",
             "core::panicking::panic_bounds_check", "core::panicking::unreachable_display",
             "core::panicking::panic_explicit", "core::option::unwrap_failed", "core::result::unwrap_failed",
             "core::option::expect_failed"}

def is_ptr(t):
    return isinstance(t, tuple) and t and t[0] == "ptr"

def bound_add(b, n):
    return (b[0] + n, b[1])

class Path:
    """State of one path through a (possibly inlined) function tree."""
    def __init__(self):
        self.store = {}
        self.events = []
        self.guards = []
        self.assume = {}     # fallible root term -> 'ok' | 'err'
        self.minlen = {}     # base loc -> minimum length implied by successful splits
        self.notes = []
        self.err_cause = None

    def fork(self):
        p = Path()
        p.store = dict(self.store)
        p.events = list(self.events)
        p.guards = list(self.guards)
        p.assume = dict(self.assume)
        p.minlen = dict(self.minlen)
        p.notes = list(self.notes)
        p.err_cause = self.err_cause
        return p

class Result_:
    def __init__(self, kind, ret, path, exit_site=None):
        self.kind = kind      # 'return' | 'diverge' | 'unreachable' | 'loop' | 'limit'
        self.ret = ret
        self.path = path
        self.exit_site = exit_site

    @property
    def okness(self):
        return okness(self.ret, self.path)

def peel(t):
    """Strip wrappers that do not change Ok/Err-ness, return the root fallible term."""
    while isinstance(t, tuple) and t:
        if t[0] == "branch":
            t = t[1]
        elif t[0] == "call" and t[1] in ("Option::ok_or", "Result::map_err", "Result::map", "Option::map",
                                          "Option::ok_or_else") and t[2]:
            t = t[2][0]
        else:
            break
    return t

def okness(t, path=None):
    """True (Ok/Some/Continue), False (Err/None/Break) or None (unknown) for a Result/Option-like term."""
    r = peel(t)
    if isinstance(r, tuple) and r:
        if r[0] == "agg" and r[1].startswith("adt:"):
            v = r[1].rsplit("::", 1)[-1]
            if v in ("Ok", "Some", "Continue"):
                return True
            if v in ("Err", "None", "Break"):
                return False
        if r[0] == "from_residual":
            return False
        if r[0] == "call" and r[1] == "Result::and_then":
            a = okness(r[2][0], path)
            if a is False:
                return False
    if path is not None and r in path.assume:
        return path.assume[r] == "ok"
    return None

class World:
    def __init__(self, crates):
        self.crates = crates
        self.fn_index = {}
        for c in crates.values():
            for k, f in c.fns.items():
                self.fn_index[(c.name, f["path"])] = f if f["key"] == f["path"] else self.fn_index.get((c.name, f["path"]), f)
                self.fn_index[(c.name, k)] = f
        self.site_counter = 0
        self.adts = {}
        for c in crates.values():
            for p, a in c.adts.items():
                self.adts[(c.name, p)] = a

    def find_fn(self, crate, path):
        return self.fn_index.get((crate, path))

    def adt_layout(self, crate_hint, path):
        for (c, p), a in self.adts.items():
            if p == path and (c == crate_hint or crate_hint is None):
                return a
        for (c, p), a in self.adts.items():
            if p == path:
                return a
        return None

class Interp:
    def __init__(self, world, inline=True, inline_filter=None, resolver=None):
        self.resolver = resolver
        self.two_variant_discr = set()
        self.field_bytes = {}
        self.term_widths = {}
        self.discr_kind = {}
        self.in_widths = {}
        self.w = world
        self.frame_counter = 0
        self.inline = inline
        self.inline_filter = inline_filter
        self.npaths = 0

    # ------------------------------------------------------------ entry
    def run(self, fn, args=None, path=None, depth=0, subst=None):
        """Enumerate acyclic paths of `fn`. Returns list[Result_]."""
        self.w.frame_counter = getattr(self.w, "frame_counter", 0) + 1
        frame = self.w.frame_counter
        path = path or Path()
        body = fn["body"]
        cr = fn["_crate"]
        nargs = body["argc"]
        if args is None:
            args = []
            for i in range(1, nargs + 1):
                l = body["locals"][i]
                ty = cr.ty(l["ty"])
                name = l.get("name", f"arg{i}")
                if ty.get("k") in ("ref", "ptr"):
                    args.append(("ptr", ("P", i, name)))
                else:
                    args.append(("param", i, name))
        for i, a in enumerate(args):
            path.store[("L", frame, i + 1)] = a
            # learn static widths of root inputs from the (more specific) parameter types of inlined callees
            if is_ptr(a) and a[1][0] == "P" and i + 1 < len(body["locals"]):
                w_ = self._static_width(cr, body["locals"][i + 1]["ty"])
                if w_ is not None:
                    self.in_widths[a[1][2]] = w_
        ctx = {"fn": fn, "cr": cr, "frame": frame, "depth": depth, "subst": subst or {}}
        out = []
        self._walk(ctx, 0, path, frozenset(), out)
        return out

    def _array_len(self, ctx, tid):
        if tid is None:
            return None
        try:
            ty = ctx["cr"].ty(tid)
            if ty.get("k") == "array" and ty.get("len") is not None and ctx["cr"].ty(ty["elem"])["s"] == "u8":
                return ty["len"]
        except Exception:
            pass
        return None

    def _static_width(self, cr, tid):
        ty = cr.ty(tid)
        if ty.get("k") in ("ref", "ptr"):
            ty = cr.ty(ty["inner"])
        if ty.get("k") == "array" and ty.get("len") is not None and cr.ty(ty["elem"])["s"] == "u8":
            return ty["len"]
        if ty.get("k") == "adt":
            lay = self.w.adt_layout(ty.get("crate"), ty["path"])
            if lay and "size" in lay and "IS_C" in lay.get("repr", "") and lay.get("offsets") is not None:
                return lay["size"]
        return None

    # ------------------------------------------------------------ helpers
    def tysub(self, ctx, s):
        sub = ctx["subst"]
        if not sub:
            return s
        for k, v in sub.items():
            s = re.sub(r"(?<![A-Za-z0-9_:])" + re.escape(k) + r"(?![A-Za-z0-9_])", v, s)
        return s

    def ty_s(self, ctx, tid):
        return self.tysub(ctx, short(ctx["cr"].ty_s(tid)))

    def place_loc(self, ctx, path, pl):
        """Location denoted by a MIR place."""
        loc = ("L", ctx["frame"], pl["l"])
        cur_ty = None
        try:
            cur_ty = ctx["fn"]["body"]["locals"][pl["l"]]["ty"] if pl["p"] else None
        except Exception:
            cur_ty = None
        for e in pl["p"]:
            parent_ty, cur_ty = cur_ty, self._proj_ty(ctx, cur_ty, e)
            if e == "*":
                v = self.read(path, loc)
                if is_ptr(v):
                    loc = v[1]
                elif isinstance(v, tuple) and v and v[0] == "vec":
                    loc = ("V", loc)
                else:
                    loc = ("DEREF", v)
            elif isinstance(e, dict) and "f" in e:
                loc = self.field_loc(ctx, loc, e["f"], e.get("ty"))
                if loc[0] == "F":
                    self._note_field_bytes(ctx, loc, parent_ty, e["f"])
            elif isinstance(e, dict) and "variant" in e:
                loc = ("D", loc, e["name"] or str(e["variant"]))
            elif isinstance(e, dict) and "idx" in e:
                iv = self.read(path, ("L", ctx["frame"], e["idx"]))
                loc = ("IDX", loc, iv)
            elif isinstance(e, dict) and "cidx" in e:
                loc = ("IDX", loc, ("int", -e["cidx"] if e["end"] else e["cidx"]))
            elif isinstance(e, dict) and "sub" in e:
                a, b = e["sub"]
                lo = (a, 0)
                hi = (-b, 1) if e["end"] else (b, 0)
                loc = self.region(loc, lo, hi)
            else:
                loc = ("PROJ", loc, str(e))
        return loc

    def _proj_ty(self, ctx, tid, e):
        """Type id after one projection element (None when not tracked)."""
        if isinstance(e, dict) and "f" in e:
            return e.get("ty")
        if tid is None:
            return None
        try:
            ty = ctx["cr"].ty(tid)
        except Exception:
            return None
        if e == "*":
            return ty.get("inner") if ty.get("k") in ("ref", "ptr") else None
        return None

    def _note_field_bytes(self, ctx, floc, parent_ty, idx):
        """Field idx of an alignment-1 struct (no padding anywhere) is the byte range [offset, next offset) of the struct's
        bytes: remembered so that a field read of an opaque struct value gives the same term as reading those bytes."""
        if parent_ty is None:
            return
        try:
            ty = ctx["cr"].ty(parent_ty)
        except Exception:
            return
        if ty.get("k") != "adt":
            return
        lay = self.w.adt_layout(ty.get("crate"), ty["path"])
        if not lay or lay.get("kind") != "Struct" or lay.get("align") != 1 or "IS_C" not in lay.get("repr", ""):
            return
        offs = lay.get("offsets") or []
        if idx >= len(offs):
            return
        start = offs[idx]
        ends = sorted(o for o in offs if o > start)
        end = ends[0] if ends else lay["size"]
        self.field_bytes[floc] = (start, end)

    def field_loc(self, ctx, loc, idx, tyid=None):
        # struct overlay on a byte region (zerocopy): translate to a sub-region using the layout
        if loc[0] == "R" and len(loc) > 4 and loc[4]:
            lay = loc[4]
            offs = lay.get("offsets")
            fields = lay["variants"][0]["fields"]
            if offs and idx < len(offs):
                start = offs[idx]
                ends = sorted(o for o in offs if o > start)
                end = ends[0] if ends else lay["size"]
                base, lo, hi = loc[1], loc[2], loc[3]
                sub_lay = None
                # nested struct?
                fty = ctx["cr"].ty(fields[idx]["ty"]) if idx < len(fields) else None
                r = ("R", base, bound_add(lo, start), bound_add(lo, end))
                if fty and fty.get("k") == "adt":
                    sl = self.w.adt_layout(fty.get("crate"), fty["path"])
                    if sl and "offsets" in sl:
                        r = r + (HashableLayout(sl),)
                return r
        return ("F", loc, idx)

    def region(self, base, lo, hi):
        """Sub-region [lo,hi) relative to `base` (itself possibly a region)."""
        if base[0] == "R":
            b0, blo, bhi = base[1], base[2], base[3]
            def absb(b):
                # b relative to base region: (k,0) from its start, (k,1) from its end
                if b[1] == 0:
                    return (blo[0] + b[0], blo[1])
                return (bhi[0] + b[0], bhi[1])
            return ("R", b0, absb(lo), absb(hi))
        return ("R", base, lo, hi)

    # ------------------------------------------------------------ memory
    def read(self, path, loc):
        st = path.store
        if loc in st and not self._has_subwrites(path, loc):
            return st[loc]
        k = loc[0]
        if k == "L":
            if self._has_subwrites(path, loc):
                return self.content(path, loc)
            return ("uninit", loc)
        return self.content(path, loc)

    def _has_subwrites(self, path, loc):
        for k in path.store:
            if k[0] in ("F", "R", "V", "D") and k[1] == loc:
                return True
        return False

    def content(self, path, loc):
        """Current content term of a location (bytes of a buffer, state of an object)."""
        st = path.store
        k = loc[0]
        if k == "C":
            return ("bytes", loc[1])
        if k == "T":
            return self._patched(path, loc, path.store.get(loc, loc[1]))
        if k == "R":
            return self.read_region(path, loc)
        if k == "V":
            base = loc[1]
            if loc in st:
                c = st[loc]
            else:
                v = st.get(base)
                if isinstance(v, tuple) and v and v[0] == "vec":
                    c = v[1]
                elif v is None:
                    c = ("init", loc)
                else:
                    c = ("bytes_of", v)
            return self._patched(path, loc, c)
        if k == "F":
            if loc in st:
                return st[loc]
            if loc[1][0] == "D":
                bc = self.content(path, loc[1][1])
                return self.variant_field(None, path, bc, loc[1][2], loc[2])
            bc = self.content(path, loc[1])
            fv = field_of(bc, loc[2])
            if isinstance(fv, tuple) and fv[0] == "field" and fv[1] is bc and loc in self.field_bytes:
                a, b = self.field_bytes[loc]
                return slice_of(bc, (a, 0), (b, 0))
            return fv
        if k == "D":
            bc = self.content(path, loc[1])
            return ("downcast", bc, loc[2])
        if k == "IDX":
            return ("index", self.content(path, loc[1]), loc[2])
        if k == "DEREF":
            return ("deref", loc[1])
        if k in ("P", "H"):
            c = st.get(loc, ("init", loc))
            c = self._patched(path, loc, c)
            return self._with_fields(path, loc, c)
        if k == "L":
            v = st.get(loc, ("uninit", loc))
            if ("V", loc) in st or any(x[0] == "R" and x[1] == ("V", loc) for x in st):
                return ("vec", self.content(path, ("V", loc)))
            v = self._patched(path, loc, v)
            return self._with_fields(path, loc, v)
        if k == "K" and loc in st:
            return st[loc]
        return ("unknown", "content", loc)

    def _with_fields(self, path, loc, c):
        fs = sorted((k[2], v) for k, v in path.store.items() if k[0] == "F" and k[1] == loc)
        if fs:
            if isinstance(c, tuple) and c[0] == "agg":
                ops = list(c[2])
                for i, v in fs:
                    if i < len(ops):
                        ops[i] = v
                return ("agg", c[1], tuple(ops))
            return ("with_fields", c, tuple(fs))
        return c

    def _patched(self, path, base, c):
        ws = [(k[2], k[3], v) for k, v in path.store.items() if k[0] == "R" and k[1] == base]
        if not ws:
            return c
        ws.sort(key=lambda w: (w[0][1], w[0][0]))
        return ("patched", c, tuple(ws))

    def read_region(self, path, loc):
        base, lo, hi = loc[1], loc[2], loc[3]
        key = ("R", base, lo, hi)
        st = path.store
        if key in st:
            return st[key]
        # containing / contained writes
        inner = []
        for k, v in st.items():
            if k[0] == "R" and k[1] == base:
                rel = self.rel(path, base, (lo, hi), (k[2], k[3]))
                if rel == "inside":       # we are inside a written region
                    return ("slice", v, self.bdiff(lo, k[2]), self.bdiff(hi, k[2]))
                if rel == "contains":
                    inner.append((k[2], k[3], v))
                elif rel == "overlap":
                    return ("unknown", "overlapping-region-write", key)
        if base[0] == "V":
            b = self.content_nopatch(path, base)
        elif base[0] == "T":
            b = st.get(base, base[1])
        elif base[0] == "F" and base not in st:
            # bytes of a field of a value that was never written field-wise: the field of the owner's current content
            b = self.content(path, base)
            if isinstance(b, tuple) and b and b[0] in ("unknown", "uninit"):
                b = ("init", base)
        else:
            b = st.get(base, ("init", base))
        if b == ("init", base):
            c = ("init", key)
        else:
            c = slice_of(b, lo, hi)
        if inner:
            inner.sort(key=lambda w: (w[0][1], w[0][0]))
            return ("patched", c, tuple(inner))
        return c

    def content_nopatch(self, path, loc):
        st = path.store
        if loc in st:
            return st[loc]
        if loc[0] == "V":
            v = st.get(loc[1])
            if isinstance(v, tuple) and v and v[0] == "vec":
                return v[1]
            if v is None:
                return ("init", loc)
            return ("bytes_of", v)
        return ("init", loc)

    def bdiff(self, a, b):
        if a[1] == b[1]:
            return (a[0] - b[0], 0)
        return ("sym", a, b)

    def cmp_bound(self, path, base, a, b):
        """-1 a<=b surely, 1 a>=b surely, 0 equal, None unknown."""
        if a[1] == b[1]:
            return 0 if a[0] == b[0] else (-1 if a[0] < b[0] else 1)
        ml = path.minlen.get(base, 0)
        # a = ka (+len), b = kb (+len)
        if a[1] == 0 and b[1] == 1:
            # ka <= len + kb  iff len >= ka - kb ; known if minlen >= ka-kb
            if ml >= a[0] - b[0]:
                return -1
            return None
        if a[1] == 1 and b[1] == 0:
            if ml >= b[0] - a[0]:
                return 1
            return None
        return None

    def rel(self, path, base, r1, r2):
        """Relation of region r1 to r2: 'same','inside','contains','disjoint','overlap'."""
        (lo1, hi1), (lo2, hi2) = r1, r2
        if lo1 == lo2 and hi1 == hi2:
            return "same"
        c = self.cmp_bound(path, base, hi1, lo2)
        if c is not None and c <= 0:
            return "disjoint"
        c = self.cmp_bound(path, base, hi2, lo1)
        if c is not None and c <= 0:
            return "disjoint"
        a = self.cmp_bound(path, base, lo2, lo1)
        b = self.cmp_bound(path, base, hi1, hi2)
        if a is not None and a <= 0 and b is not None and b <= 0:
            return "inside"
        a = self.cmp_bound(path, base, lo1, lo2)
        b = self.cmp_bound(path, base, hi2, hi1)
        if a is not None and a <= 0 and b is not None and b <= 0:
            return "contains"
        return "overlap"

    def write(self, path, loc, val):
        st = path.store
        k = loc[0]
        if k == "IDX":
            # element store: the base buffer is no longer its old content
            base = loc[1]
            old = self.content(path, base)
            self.write(path, base, ("mut", old, ("setbyte", loc[2], val)))
            return
        if k == "R":
            key = ("R", loc[1], loc[2], loc[3])
            # drop writes fully covered
            for kk in list(st):
                if kk[0] == "R" and kk[1] == loc[1] and kk != key:
                    r = self.rel(path, loc[1], (loc[2], loc[3]), (kk[2], kk[3]))
                    if r == "contains":
                        del st[kk]
                    elif r in ("inside", "overlap"):
                        path.notes.append(("imprecise-region-write", key, kk))
            st[key] = val
            return
        if k == "V":
            for kk in list(st):
                if kk[0] == "R" and kk[1] == loc:
                    del st[kk]
            st[loc] = val
            return
        if k in ("L", "P", "H"):
            for kk in list(st):
                if kk[0] in ("F", "R", "D") and kk[1] == loc:
                    del st[kk]
                if kk[0] == "V" and kk[1] == loc:
                    for k3 in list(st):
                        if k3[0] == "R" and k3[1] == kk:
                            del st[k3]
                    del st[kk]
            st[loc] = val
            return
        st[loc] = val

    # ------------------------------------------------------------ operands / rvalues
    def const_term(self, ctx, c):
        if "fndef" in c:
            return ("fn", c["fndef"])
        v = c.get("val")
        tinfo = ctx["cr"].ty(c["ty"])
        if v is None:
            if "uneval" in c:
                a = ",".join(self.ty_s(ctx, x["t"]) if "t" in x else str(x.get("c")) for x in c.get("uneval_args", []) if "r" not in x)
                if "promoted" in c:
                    return ("promoted", ctx["fn"]["key"], c["promoted"])
                return ("aconst", short(c["uneval"]), a)
            return ("unknown", "const")
        if "int" in v:
            return ("int", v["int"])
        if "bytes" in v:
            b = bytes(v["bytes"])
            if tinfo.get("k") == "ref":
                return ("ptr", ("C", b))
            return ("bytes", b)
        if "zst" in v:
            return ("unit",)
        if "static" in v:
            return ("static", v["static"])
        return ("unknown", "constval", str(v)[:40])

    def operand(self, ctx, path, o):
        if "copy" in o or "move" in o:
            pl = o.get("copy") or o.get("move")
            loc = self.place_loc(ctx, path, pl)
            return self.read(path, loc)
        if "const" in o:
            t = self.const_term(ctx, o["const"])
            if t[0] == "promoted":
                return self.eval_promoted(ctx, path, t[2])
            return t
        return ("unknown", "operand")

    def eval_promoted(self, ctx, path, idx):
        fn = ctx["fn"]
        pb = fn["promoted"][idx]
        fake = {"key": fn["key"] + f"::promoted[{idx}]", "path": fn["path"], "body": pb, "_crate": fn["_crate"],
                "promoted": fn["promoted"], "span": fn["span"], "crate": fn["crate"]}
        sub = Interp(self.w, inline=False)
        res = sub.run(fake, args=[], path=Path(), depth=ctx["depth"] + 1, subst=ctx["subst"])
        for r in res:
            if r.kind == "return":
                t = r.ret
                # promoted returns a reference to its local: materialise content as a constant location
                if is_ptr(t):
                    c = sub.content(r.path, t[1])
                    h = ("K", fn["key"], idx)
                    path.store[h] = c
                    return ("ptr", h)
                return t
        return ("unknown", "promoted")

    def rvalue(self, ctx, path, rv):
        k = rv["k"]
        if k == "use":
            return self.operand(ctx, path, rv["op"])
        if k in ("ref", "rawptr"):
            loc = self.place_loc(ctx, path, rv["place"])
            return ("ptr", loc)
        if k == "copyforderef":
            return self.read(path, self.place_loc(ctx, path, rv["place"]))
        if k == "cast":
            v = self.operand(ctx, path, rv["op"])
            ck = rv["ck"]
            if isinstance(v, tuple) and v and v[0] == "vecptr":
                return ("ptr", ("T", v[1][1]))
            if ck in ("Transmute", "PtrToPtr") and isinstance(v, tuple) and v and v[0] == "field" and v[2] == 0 \
                    and isinstance(v[1], tuple) and v[1][0] == "field" and v[1][2] == 0 and "[u8]" in self.ty_s(ctx, rv["to"]):
                # Box<[u8]> held as an opaque value: (box.0.0 as *const [u8])
                return ("ptr", ("T", ("bytes_of", v[1][1])))
            if ck.startswith("ptrcoerce") or ck in ("PtrToPtr", "Transmute") and is_ptr(v):
                if ck.startswith("ptrcoerce:ReifyFnPointer") or ck.startswith("ptrcoerce:ClosureFnPointer"):
                    return v
                return v
            to = self.ty_s(ctx, rv["to"])
            if ck == "IntToInt" and isinstance(v, tuple) and v and v[0] == "int":
                bits = {"u8": 8, "i8": 8, "u16": 16, "i16": 16, "u32": 32, "i32": 32, "u64": 64, "i64": 64, "usize": 64, "isize": 64}.get(to)
                if bits:
                    x = v[1] & ((1 << bits) - 1)
                    if to.startswith("i") and x >= (1 << (bits - 1)):
                        x -= (1 << bits)
                    return ("int", x)
            return ("cast", ck, v, to)
        if k == "binop":
            a = self.operand(ctx, path, rv["a"])
            b = self.operand(ctx, path, rv["b"])
            return fold_binop(rv["op"], a, b)
        if k == "unop":
            a = self.operand(ctx, path, rv["a"])
            if rv["op"] == "PtrMetadata":
                return ("len", self.deref_content(path, a))
            if rv["op"] == "Not" and isinstance(a, tuple) and a[0] == "unop" and a[1] == "Not":
                return a[2]
            if rv["op"] == "Neg" and isinstance(a, tuple) and a[0] == "int":
                return ("int", -a[1])
            return ("unop", rv["op"], a)
        if k == "discr":
            loc = self.place_loc(ctx, path, rv["place"])
            val = self.read(path, loc)
            try:
                pt = ctx["fn"]["_crate"].types[rv["place"]["ty"]]
                if pt["k"] == "adt" and pt["path"] in ("core::result::Result", "core::option::Option", "core::ops::control_flow::ControlFlow"):
                    self.two_variant_discr.add(val)
                    self.discr_kind[val] = "option" if pt["path"].endswith("Option") else "result"
            except Exception:
                pass
            return ("discr", val)
        if k == "agg":
            ak = rv["ak"]
            ops = tuple(self.operand(ctx, path, o) for o in rv["ops"])
            a = ak["a"]
            if a == "adt":
                return ("agg", f"adt:{short(ak['path'])}::{ak['vname']}", ops)
            if a == "closure":
                return ("agg", f"closure:{ak['path']}", ops)
            return ("agg", a, ops)
        if k == "repeat":
            v = self.operand(ctx, path, rv["op"])
            n = rv["n"]
            if v == ("int", 0) and n is not None:
                return ("zeros", n)
            return ("repeat", v, n if n is not None else self.tysub(ctx, short(rv["n_s"])))
        return ("unknown", "rvalue", k)

    def flatten_struct(self, ctx, ce, v):
        if not (isinstance(v, tuple) and v and v[0] == "agg" and v[1].startswith("adt:")):
            return None
        ga = ce.get("r_args") or ce.get("args") or []
        if not ga or "t" not in ga[0]:
            return None
        ti = ctx["cr"].ty(ga[0]["t"])
        if ti.get("k") != "adt":
            return None
        lay = self.w.adt_layout(ti.get("crate"), ti["path"])
        if not lay or lay.get("kind") != "Struct" or lay.get("align") != 1 or len(lay.get("offsets") or []) != len(v[2]):
            return None
        if short(ti["path"]).rsplit("::", 1)[-1] != v[1].rsplit("::", 1)[-1]:
            return None
        order = sorted(range(len(v[2])), key=lambda i: lay["offsets"][i])
        return ("concat", tuple(v[2][i] for i in order))

    def deref_content(self, path, v):
        if is_ptr(v):
            return self.content(path, v[1])
        return v

    # ------------------------------------------------------------ control flow
    def _walk(self, ctx, bi, path, visited, out):
        fn = ctx["fn"]
        blocks = fn["body"]["blocks"]
        while True:
            if self.npaths > MAX_PATHS:
                out.append(Result_("limit", None, path, (fn["key"], bi)))
                return
            if bi in visited:
                out.append(Result_("loop", None, path, (fn["key"], bi)))
                return
            visited = visited | {bi}
            blk = blocks[bi]
            for st in blk["stmts"]:
                if st["k"] == "assign":
                    val = self.rvalue(ctx, path, st["rv"])
                    loc = self.place_loc(ctx, path, st["place"])
                    self.write(path, loc, val)
                    if not st["place"]["p"] and isinstance(val, tuple) and val and val[0] in ("field", "param", "init", "okv", "call"):
                        # a value stored in a local of type [u8; N] is N bytes wide (whatever opaque term it is)
                        n_ = self._array_len(ctx, st["place"].get("ty"))
                        if n_ is not None:
                            self.term_widths.setdefault(val, n_)
                elif st["k"] == "setdiscr":
                    pass
            t = blk["term"]
            k = t["k"]
            if k == "goto":
                bi = t["t"]
                continue
            if k == "drop":
                bi = t["t"]
                continue
            if k == "assert":
                cond = self.operand(ctx, path, t["cond"])
                path.events.append({"kind": "assert", "msg": t["msg"], "cond": cond, "expected": t["expected"],
                                    "fn": fn["key"], "bb": bi, "sp": blk["sp"]})
                bi = t["t"]
                continue
            if k == "return":
                ret = self.read(path, ("L", ctx["frame"], 0))
                self.npaths += 1
                out.append(Result_("return", ret, path, (fn["key"], bi)))
                return
            if k in ("unreachable", "resume", "terminate"):
                self.npaths += 1
                out.append(Result_("unreachable", None, path, (fn["key"], bi)))
                return
            if k == "switch":
                d = self.operand(ctx, path, t["discr"])
                # `if r.is_err()` / `if r.is_ok()` is a branch on r's discriminant (Ok = 0, Err = 1), spelled as a bool
                remap = None
                if isinstance(d, tuple) and d and d[0] == "call" and len(d[2]) == 1 and re.search(r"(^|::)Result::<.*>::is_(err|ok)$", d[1]):
                    is_err_ = d[1].endswith("is_err")
                    recv_ = d[2][0]
                    self.discr_kind.setdefault(recv_, "result")
                    d = ("discr", recv_)
                    remap = (lambda b: b) if is_err_ else (lambda b: 1 - b)
                known = self.resolve_switch(path, d)
                if known is not None and remap is not None:
                    known = remap(known) if known in (0, 1) else None
                arms = [(v, tgt) for v, tgt in t["arms"]]
                if known is not None:
                    tgt = next((tg for v, tg in arms if v == known), t["otherwise"])
                    bi = tgt
                    continue
                # fork
                succs = arms + [("otherwise", t["otherwise"])]
                live = []
                for v, tgt in succs:
                    if blocks[tgt]["term"]["k"] == "unreachable" and not blocks[tgt]["stmts"]:
                        continue
                    live.append((v, tgt))
                dm = self._option_diamond(ctx, blocks, d, t, live, visited)
                if dm is not None:
                    j = self._merge_option_diamond(ctx, path, d, dm, blocks)
                    if j is not None:
                        bi = j
                        continue
                for v, tgt in live:
                    p2 = path.fork() if len(live) > 1 else path
                    v2 = v
                    if v == "otherwise" and len(arms) == 1 and arms[0][0] in (0, 1):
                        # two-valued discriminant (bool, Option/Result/ControlFlow): the otherwise arm is the other value
                        dpl = t["discr"].get("copy") or t["discr"].get("move")
                        dty = ctx["fn"]["_crate"].types[dpl["ty"]] if dpl else None
                        two = bool(dty and dty["k"] == "prim" and dty["s"] == "bool")
                        if not two and isinstance(d, tuple) and d and d[0] == "discr":
                            tt = d[1]
                            kind = "branch" if (isinstance(tt, tuple) and tt and tt[0] == "branch") else type_kind_of(tt)
                            two = kind in ("branch", "result", "option") or tt in self.two_variant_discr
                        if two:
                            v2 = 1 - arms[0][0]
                    if remap is not None:
                        if v2 == "otherwise" and len(arms) == 1 and arms[0][0] in (0, 1):
                            v2 = 1 - arms[0][0]
                        if v2 in (0, 1):
                            v2 = remap(v2)
                    self.assume_switch(p2, d, v2, [a for a, _ in arms] if remap is None else [0, 1], (fn["key"], bi), blk["sp"])
                    self._walk(ctx, tgt, p2, visited, out)
                return
            if k == "call":
                nxt = self.do_call(ctx, path, t, bi, blk, visited, out)
                if nxt is None:
                    return
                if getattr(path, "unrolled", False):
                    # an iterator over a literal array just yielded its next (statically known) element: this is a new,
                    # distinct iteration of a loop with a static trip count, not a revisit
                    path.unrolled = False
                    visited = frozenset()
                bi = nxt
                continue
            if k == "tailcall":
                out.append(Result_("unsupported", None, path, (fn["key"], bi)))
                return
            out.append(Result_("unsupported", None, path, (fn["key"], bi)))
            return

    # A `match opt { Some(x) => x, None => d }` written out by hand is Option::unwrap_or(opt, d): when both arms of a switch on an
    # Option's discriminant are call-free straight-line assignments that meet again in one block, the two arms are evaluated and
    # every location they leave different is the Some payload on one side, the walk continues from the join as ONE path with
    # Option::unwrap_or(opt, d) there (exactly what it does for a real unwrap_or call). Any other diamond is forked as usual.
    def _pure_chain(self, blocks, b):
        chain = [b]
        for _ in range(4):
            blk = blocks[b]
            if blk["term"]["k"] != "goto" or any(st["k"] != "assign" for st in blk["stmts"]):
                break
            if any(st["rv"]["k"] in ("agg",) and st["rv"]["ak"].get("a") == "closure" for st in blk["stmts"]):
                break
            b = blk["term"]["t"]
            chain.append(b)
        return chain

    def _option_diamond(self, ctx, blocks, d, t, live, visited):
        if not (isinstance(d, tuple) and d and d[0] == "discr") or len(live) != 2:
            return None
        T = d[1]
        kind = type_kind_of(T) or self.discr_kind.get(T)
        if kind != "option":
            return None
        some_v = 1
        vals = [v for v, _ in live]
        if sorted(map(str, vals)) == ["0", "1"]:
            tg = {v: x for v, x in live}
        elif "otherwise" in vals and len(t["arms"]) == 1 and t["arms"][0][0] in (0, 1):
            av = t["arms"][0][0]
            tg = {av: t["arms"][0][1], 1 - av: t["otherwise"]}
        else:
            return None
        ca, cb = self._pure_chain(blocks, tg[some_v]), self._pure_chain(blocks, tg[0])
        join = next((b for b in ca if b in cb), None)
        if join is None or join in visited:
            return None
        arm_some, arm_none = ca[:ca.index(join)], cb[:cb.index(join)]
        if not arm_some and not arm_none:
            return None
        return (T, arm_some, arm_none, join)

    def _merge_option_diamond(self, ctx, path, d, dm, blocks):
        T, arm_some, arm_none, join = dm
        outs = []
        for v, arm in ((1, arm_some), (0, arm_none)):
            p2 = path.fork()
            p2.assume[peel(T)] = "ok" if v == 1 else "err"
            for b in arm:
                for st in blocks[b]["stmts"]:
                    val = self.rvalue(ctx, p2, st["rv"])
                    loc = self.place_loc(ctx, p2, st["place"])
                    self.write(p2, loc, val)
            outs.append(p2)
        ps, pn = outs
        payload = self.okv(ctx, ps, T)
        merged = dict(path.store)
        for k in set(ps.store) | set(pn.store):
            a, b = ps.store.get(k), pn.store.get(k)
            if a == b:
                merged[k] = a
            elif a is None or b is None:
                merged[k] = a if b is None else b      # assigned on one arm only: dead after the join
            elif a == payload:
                merged[k] = ("call", "Option::unwrap_or", (T, b))
            else:
                return None       # not the unwrap_or shape: the caller forks as usual
        path.store = merged
        for k, n in list(ps.minlen.items()) + list(pn.minlen.items()):
            path.minlen[k] = max(path.minlen.get(k, 0), n)
        return join

    def resolve_switch(self, path, d):
        if isinstance(d, tuple):
            if d[0] == "int":
                return d[1]
            if d[0] == "discr":
                t = d[1]
                if isinstance(t, tuple) and t and t[0] == "from_residual":
                    # `?` early return value: always the failure variant (Err / None)
                    return 0 if self.discr_kind.get(t) == "option" else 1
                ok = okness(t, path)
                r = peel(t)
                if isinstance(r, tuple) and r and r[0] == "agg" and r[1].startswith("adt:"):
                    v = r[1].rsplit("::", 1)[-1]
                    m = {"Ok": 0, "Err": 1, "None": 0, "Some": 1, "Continue": 0, "Break": 1}
                    if isinstance(t, tuple) and t[0] == "branch":
                        # ControlFlow: Continue=0, Break=1
                        return 0 if ok else 1
                    if v in m and r is t:
                        return m[v]
                if ok is not None and isinstance(t, tuple):
                    if t[0] == "branch":
                        return 0 if ok else 1
                    kind = type_kind_of(t) or self.discr_kind.get(t)
                    if kind == "option":
                        return 1 if ok else 0
                    if kind == "result":
                        return 0 if ok else 1
        return None

    def assume_switch(self, path, d, v, armvals, site, sp):
        path.guards.append({"cond": d, "value": v, "arms": armvals, "site": site, "sp": sp, "nev": len(path.events)})
        if isinstance(d, tuple) and d[0] == "discr":
            t = d[1]
            r = peel(t)
            kind = "branch" if (isinstance(t, tuple) and t[0] == "branch") else (type_kind_of(t) or self.discr_kind.get(t))
            if kind == "branch" or kind == "result":
                path.assume[r] = "ok" if v == 0 else "err"
                if v != 0:
                    path.err_cause = r
            elif kind == "option":
                path.assume[r] = "ok" if v == 1 else "err"
                if v != 1:
                    path.err_cause = r
            else:
                path.assume[r] = ("variant", v)

    # ------------------------------------------------------------ calls
    def callee_name(self, ctx, ce):
        full = ce.get("r_full") if ce.get("r_path") and ce.get("r_kind") == "item" else ce.get("full")
        return self.tysub(ctx, qshort(full or "?"))

    def do_call(self, ctx, path, t, bi, blk, visited, out):
        fn = ctx["fn"]
        ce = t["callee"]
        args = [self.operand(ctx, path, a) for a in t["args"]]
        dest = self.place_loc(ctx, path, t["dest"])
        dest_ty = self.ty_s(ctx, t["dest"]["ty"])
        site = (fn["key"], bi)
        if "indirect" in ce:
            fv = self.operand(ctx, path, ce["indirect"])
            name = "indirect"
            # call through a fn pointer whose target is statically known (fn item or non-capturing closure)
            tgt = None
            targs = args
            if isinstance(fv, tuple) and fv and fv[0] == "fn":
                tgt = self._find_any(fv[1])
            elif isinstance(fv, tuple) and fv and fv[0] == "agg" and fv[1].startswith("closure:") and not fv[2]:
                tgt = self._find_any(fv[1][len("closure:"):])
                targs = [fv] + list(args)
            if tgt is not None and self.inline and ctx["depth"] < MAX_DEPTH:
                results = self.run(tgt, args=targs, path=path, depth=ctx["depth"] + 1, subst=ctx["subst"])
                conts = [r_ for r_ in results if r_.kind == "return"]
                for r_ in results:
                    if r_.kind != "return":
                        out.append(r_)
                if len(conts) == 1 and t["t"] is not None:
                    p2 = conts[0].path
                    if p2 is not path:
                        path.__dict__.update(p2.__dict__)
                    self.write(path, dest, conts[0].ret)
                    return t["t"]
                if not conts:
                    return None
            res = ("call", "indirect", (fv,) + tuple(self.argval(path, a) for a in args))
            self.event(path, "call", name, ce, args, site, blk, dest_ty, ctx)
            self.write(path, dest, res)
            return t["t"]
        p = ce["path"]
        rp = ce.get("r_path") or p
        name = self.callee_name(ctx, ce)
        if p in PANICKERS or rp in PANICKERS:
            self.event(path, "panic", name, ce, args, site, blk, dest_ty, ctx)
            self.npaths += 1
            out.append(Result_("diverge", None, path, site))
            return None

        if p in AND_THEN and t["t"] is not None and len(args) == 2 and self.inline and ctx["depth"] < MAX_DEPTH:
            # x.and_then(|v| ...) with a workspace closure that itself calls something: evaluated eagerly as the two continuations
            # it stands for (the closure's effects — writes, validations — would otherwise be hidden inside a lazy term)
            clo = args[1]
            cf = None
            if isinstance(clo, tuple) and clo and clo[0] == "agg" and clo[1].startswith("closure:"):
                cf = self.w.find_fn(ctx["fn"]["crate"], clo[1][len("closure:"):])
            if cf is not None and any(b["term"]["k"] == "call" for b in cf["body"]["blocks"]):
                recv = args[0]
                is_opt = p.startswith("core::option::")
                self.discr_kind.setdefault(recv, "option" if is_opt else "result")
                kn = okness(recv, path)
                branches = [True, False] if kn is None else [bool(kn)]
                for i, good in enumerate(branches):
                    p2 = path.fork() if i < len(branches) - 1 else path
                    dv = (1 if good else 0) if is_opt else (0 if good else 1)
                    self.assume_switch(p2, ("discr", recv), dv, [0, 1], site, blk["sp"])
                    if not good:
                        v = ("agg", "adt:Option::None", ()) if is_opt else ("agg", "adt:Result::Err", (self.errv(p2, recv),))
                        self.write(p2, dest, v)
                        self._walk(ctx, t["t"], p2, visited, out)
                        continue
                    x = self.okv(ctx, p2, recv)
                    self.event(p2, "enter", name, ce, args, site, blk, dest_ty, ctx)
                    results = self.run(cf, args=[clo, x], path=p2, depth=ctx["depth"] + 1, subst=dict(ctx["subst"]))
                    for r_ in results:
                        if r_.kind != "return":
                            out.append(r_)
                            continue
                        r_.path.events.append({"kind": "leave", "name": name, "fn": fn["key"], "bb": bi})
                        self.write(r_.path, dest, r_.ret)
                        self._walk(ctx, t["t"], r_.path, visited, out)
                return None
        if p == "core::iter::traits::iterator::Iterator::try_for_each" and t["t"] is not None and len(args) == 2 \
                and self.inline and ctx["depth"] < MAX_DEPTH and is_ptr(args[0]):
            # [a, b, c].into_iter().try_for_each(|x| ..) over a literal array with a workspace closure: the calls it stands for,
            # in order, stopping at the first failure
            cur = self.content(path, args[0][1])
            clo = args[1]
            cf = None
            if isinstance(clo, tuple) and clo and clo[0] == "agg" and clo[1].startswith("closure:"):
                cf = self.w.find_fn(ctx["fn"]["crate"], clo[1][len("closure:"):])
            if isinstance(cur, tuple) and cur and cur[0] == "citer" and cf is not None and "Result<" in ce.get("full", ""):
                _, elems, i0 = cur
                self.write(path, args[0][1], ("citer", elems, len(elems) + 1))
                env = clo
                try:
                    if ctx["cr"].ty(cf["body"]["locals"][1]["ty"]).get("k") in ("ref", "ptr"):
                        env = ("ptr", ("T", clo))
                except Exception:
                    pass
                self._try_for_each(ctx, path, list(elems[i0:]), env, cf, dest, t, visited, out, site, blk, name)
                return None
        if p == "core::iter::traits::iterator::Iterator::for_each" and t["t"] is not None and len(args) == 2 \
                and self.inline and ctx["depth"] < MAX_DEPTH and not is_ptr(args[0]):
            # [a, b, c].into_iter().for_each(|x| ..) over a literal array with a workspace closure: the calls it stands for, in order
            cur = args[0]
            clo = args[1]
            cf = None
            if isinstance(clo, tuple) and clo and clo[0] == "agg" and clo[1].startswith("closure:"):
                cf = self.w.find_fn(ctx["fn"]["crate"], clo[1][len("closure:"):])
            if isinstance(cur, tuple) and cur and cur[0] == "citer" and cf is not None:
                _, elems, i0 = cur
                env = clo
                try:
                    if ctx["cr"].ty(cf["body"]["locals"][1]["ty"]).get("k") in ("ref", "ptr"):
                        env = ("ptr", ("T", clo))
                except Exception:
                    pass
                paths = [path]
                for el in elems[i0:]:
                    nxt = []
                    for pth in paths:
                        for r_ in self.run(cf, args=[env, el], path=pth, depth=ctx["depth"] + 1, subst=dict(ctx["subst"])):
                            if r_.kind == "return":
                                nxt.append(r_.path)
                            else:
                                out.append(r_)
                    paths = nxt
                for pth in paths:
                    self.write(pth, dest, ("unit",))
                    self._walk(ctx, t["t"], pth, visited, out)
                return None
        if p in ("core::bool::<impl bool>::then_some",) and t["t"] is not None and len(args) == 2:
            # cond.then_some(v): Some(v) iff cond — a branch on cond, spelled as a call
            cond = args[0]
            known = cond[1] if (isinstance(cond, tuple) and cond and cond[0] == "int") else None
            branches = [1, 0] if known is None else [1 if known else 0]
            for i, bv in enumerate(branches):
                p2 = path.fork() if i < len(branches) - 1 else path
                if known is None:
                    self.assume_switch(p2, cond, bv, [0], site, blk["sp"])
                v = ("agg", "adt:Option::Some", (args[1],)) if bv else ("agg", "adt:Option::None", ())
                self.write(p2, dest, v)
                self._walk(ctx, t["t"], p2, visited, out)
            return None
        if p in RESULT_DEFAULTING and t["t"] is not None and args:
            # a Result whose error is swallowed and replaced by a default: two continuations. On the error branch the value
            # no longer depends on what was being computed — rules see it through the terms (e.g. a MAC key made of a constant)
            recv = args[0]
            kn = okness(recv, path)
            last = p.rsplit("::", 1)[-1]
            branches = [True, False] if kn is None else [bool(kn)]
            for i, good in enumerate(branches):
                p2 = path.fork() if i < len(branches) - 1 else path
                self.assume_switch(p2, ("discr", recv), 0 if good else 1, [0, 1], site, blk["sp"])
                p2.events.append({"kind": "default", "name": name, "branch": "ok" if good else "err", "fn": site[0], "bb": site[1], "sp": blk["sp"]})
                if good:
                    v = self.okv(ctx, p2, recv)
                    if last in ("map_or", "map_or_else"):
                        v = self.apply_fn(p2, args[2], v)
                else:
                    if last in ("unwrap_or", "map_or"):
                        v = args[1]
                    elif last == "unwrap_or_default":
                        v = ("default", dest_ty)
                    else:
                        v = self.apply_fn(p2, args[1], ("errv", recv))
                self.write(p2, dest, v)
                if i == len(branches) - 1:
                    return t["t"]
                self._walk(ctx, t["t"], p2, visited, out)
            return None
        r = self.builtin(ctx, path, ce, p, rp, name, args, dest_ty, site, blk, t)
        if r is not NotImplemented:
            self.write(path, dest, r)
            if t["t"] is None:
                out.append(Result_("diverge", None, path, site))
                return None
            return t["t"]

        # workspace-local helper: inline
        target = None
        if self.inline and ctx["depth"] < MAX_DEPTH:
            rc = ce.get("r_crate") if ce.get("r_path") else ce.get("crate")
            if ce.get("r_path") and ce.get("r_kind") == "item":
                target = self.w.find_fn(rc, ce["r_path"])
            if target is None:
                target = self.w.find_fn(ce.get("crate"), p)
            if target is None and self.resolver is not None and not ce.get("r_path"):
                target = self.resolver(self, ctx, ce)
            if target is not None and self.inline_filter and not self.inline_filter(target):
                target = None
        if target is not None:
            sub = dict(ctx["subst"])
            gnames = target.get("generics", [])
            gargs = ce.get("r_args") if (ce.get("r_path") and ce.get("r_kind") == "item") else ce.get("args")
            newsub = {}
            if gargs and len(gargs) == len(gnames):
                for gn, ga in zip(gnames, gargs):
                    if "t" in ga:
                        newsub[gn] = self.ty_s(ctx, ga["t"])
                    elif "c" in ga and ga["c"] is not None:
                        newsub[gn] = str(ga["c"])
            if p in ("core::ops::function::Fn::call", "core::ops::function::FnMut::call_mut", "core::ops::function::FnOnce::call_once") \
                    and "{closure#" in target["key"] and len(args) == 2 and isinstance(args[1], tuple) and args[1][:2] == ("agg", "tuple"):
                # "rust-call" ABI: the closure body takes the tupled arguments as separate parameters
                args = [args[0]] + list(args[1][2])
            self.event(path, "enter", name, ce, args, site, blk, dest_ty, ctx)
            results = self.run(target, args=args, path=path, depth=ctx["depth"] + 1, subst=newsub)
            conts = [r_ for r_ in results if r_.kind == "return"]
            for r_ in results:
                if r_.kind != "return":
                    out.append(r_)
            if not conts:
                return None
            if t["t"] is None:
                return None
            for i, r_ in enumerate(conts):
                p2 = r_.path
                p2.events.append({"kind": "leave", "name": name, "fn": fn["key"], "bb": bi})
                self.write(p2, dest, r_.ret)
                if i == len(conts) - 1 and len(conts) == 1:
                    # continue in the same python frame with the (possibly new) path object
                    if p2 is not path:
                        path.__dict__.update(p2.__dict__)
                    return t["t"]
                self._walk(ctx, t["t"], p2, visited, out)
            return None

        # opaque call
        res = self.opaque(ctx, path, ce, p, name, args, dest_ty, site, blk, t)
        self.write(path, dest, res)
        if t["t"] is None:
            out.append(Result_("diverge", None, path, site))
            return None
        return t["t"]

    def _bytes_of_iter(self, path, t, depth=0):
        """Bytes yielded, in order, by an iterator term built from byte buffers with iter / into_iter / chain / copied / cloned."""
        if depth > 6:
            return None
        if is_ptr(t):
            c = self.argval(path, t)
            return c[1] if (isinstance(c, tuple) and c and c[0] == "vec") else c
        if isinstance(t, tuple) and t and t[0] == "call":
            nm = t[1]
            if re.search(r"(::iter$|IntoIterator>::into_iter$|IntoIterator for &.*>::into_iter$)", nm) and len(t[2]) == 1:
                x = t[2][0]
                if isinstance(x, tuple) and x and x[0] == "vec":
                    return x[1]
                return x if not is_ptr(x) else self._bytes_of_iter(path, x, depth + 1)
            if re.search(r"Iterator>::(copied|cloned)(::<.*>)?$|Iterator::(copied|cloned)$", nm) and len(t[2]) == 1:
                return self._bytes_of_iter(path, t[2][0], depth + 1)
            if re.search(r"Iterator>::chain(::<.*>)?$|Iterator::chain$", nm) and len(t[2]) == 2:
                a_ = self._bytes_of_iter(path, t[2][0], depth + 1)
                b_ = self._bytes_of_iter(path, t[2][1], depth + 1)
                if a_ is None or b_ is None:
                    return None
                return concat(a_, b_)
            return None
        if isinstance(t, tuple) and t and t[0] == "vec":
            return t[1]
        if isinstance(t, tuple) and t and t[0] not in ("agg", "unknown", "uninit"):
            return t          # an already dereferenced byte buffer (IntoIterator for &[u8; N] / &Vec<u8> as the chained operand)
        return None

    def _try_for_each(self, ctx, path, elems, env, cf, dest, t, visited, out, site, blk, name):
        if not elems:
            self.write(path, dest, ("agg", "adt:Result::Ok", (("agg", "tuple", ()),)))
            self._walk(ctx, t["t"], path, visited, out)
            return
        results = self.run(cf, args=[env, elems[0]], path=path, depth=ctx["depth"] + 1, subst=dict(ctx["subst"]))
        for r_ in results:
            if r_.kind != "return":
                out.append(r_)
                continue
            ret, p2 = r_.ret, r_.path
            ok = okness(ret, p2)
            if ok is True:
                self._try_for_each(ctx, p2, elems[1:], env, cf, dest, t, visited, out, site, blk, name)
            elif ok is False:
                self.write(p2, dest, ret)
                self._walk(ctx, t["t"], p2, visited, out)
            else:
                self.discr_kind.setdefault(ret, "result")
                p_ok = p2.fork()
                self.assume_switch(p_ok, ("discr", ret), 0, [0, 1], site, blk["sp"])
                self._try_for_each(ctx, p_ok, elems[1:], env, cf, dest, t, visited, out, site, blk, name)
                self.assume_switch(p2, ("discr", ret), 1, [0, 1], site, blk["sp"])
                self.write(p2, dest, ("agg", "adt:Result::Err", (self.errv(p2, ret),)))
                self._walk(ctx, t["t"], p2, visited, out)

    def argval(self, path, a, depth=0):
        """Location-independent value of an argument: pointers become the content they point to."""
        if is_ptr(a):
            c = self.content(path, a[1])
            if isinstance(c, tuple) and c and c[0] == "agg" and depth < 3 and any(is_ptr(x) for x in c[2]):
                return ("agg", c[1], tuple(self.argval(path, x, depth + 1) for x in c[2]))
            return c
        if isinstance(a, tuple) and a and a[0] == "agg" and depth < 3:
            return ("agg", a[1], tuple(self.argval(path, x, depth + 1) for x in a[2]))
        return a

    def event(self, path, kind, name, ce, args, site, blk, dest_ty, ctx, extra=None):
        ev = {"kind": kind, "name": name, "path": ce.get("path"), "r_path": ce.get("r_path"), "crate": ce.get("crate"),
              "args": list(args), "vals": [self.argval(path, a) for a in args],
              "fn": site[0], "bb": site[1], "sp": blk["sp"], "dest_ty": dest_ty, "depth": ctx["depth"]}
        if extra:
            ev.update(extra)
        path.events.append(ev)
        return ev

    def opaque(self, ctx, path, ce, p, name, args, dest_ty, site, blk, t):
        vals = tuple(self.argval(path, a) for a in args)
        ev = self.event(path, "call", name, ce, args, site, blk, dest_ty, ctx)
        res = ("call", name, vals)
        if p in RNG or (ce.get("r_path") in RNG):
            self.w.site_counter += 1
            w0 = args[0][1] if (args and isinstance(args[0], tuple) and args[0][0] == "int") else dest_ty
            res = ("rng", name, site, w0)
        # mutation through &mut arguments
        argtys = [ctx["cr"].ty((a.get("copy") or a.get("move") or a.get("const"))["ty"]) for a in t["args"]]
        ow = OVERWRITERS.get(p)
        for i, (a, ty) in enumerate(zip(args, argtys)):
            if is_ptr(a) and (ty.get("mut") or i == ow):
                old = self.content(path, a[1])
                others = tuple(v for j, v in enumerate(vals) if j != i)
                if ow == i:
                    if p in RNG:
                        new = ("rng", name, site, width_of(old))
                    else:
                        new = ("call", name + "#out", others + (("W", width_of(old)),))
                else:
                    new = ("mut", old, (name, i, others))
                self.write(path, a[1], new)
                ev.setdefault("mutated", []).append((i, a[1]))
        return res

    def builtin(self, ctx, path, ce, p, rp, name, args, dest_ty, site, blk, t):
        """Interpretation of std/library plumbing. Returns NotImplemented for everything else."""
        a0 = args[0] if args else None
        # ---- iteration over a literal array: statically known elements, unrolled
        if rp == "core::array::iter::<impl core::iter::traits::collect::IntoIterator for [T; N]>::into_iter":
            if isinstance(a0, tuple) and a0 and a0[0] == "agg" and a0[1] == "array" and len(a0[2]) <= 8:
                return ("citer", a0[2], 0)
            return NotImplemented
        if rp in ("core::slice::iter::<impl core::iter::traits::collect::IntoIterator for &'a [T]>::into_iter", "core::slice::<impl [T]>::iter") and is_ptr(a0):
            # a slice that is (a view of) a literal array of at most 8 elements: same unrolling, yielding references to the elements
            arr = self.content(path, a0[1])
            if isinstance(arr, tuple) and arr and arr[0] == "agg" and arr[1] == "array" and len(arr[2]) <= 8:
                return ("citer", tuple(("ptr", ("T", e)) for e in arr[2]), 0)
            return NotImplemented
        if rp in ("<core::array::iter::IntoIter<T, N> as core::iter::traits::iterator::Iterator>::next",
                  "<core::slice::iter::Iter<'a, T> as core::iter::traits::iterator::Iterator>::next") and is_ptr(a0):
            cur = self.content(path, a0[1])
            if isinstance(cur, tuple) and cur and cur[0] == "citer":
                _, elems, i = cur
                if i < len(elems):
                    self.write(path, a0[1], ("citer", elems, i + 1))
                    path.unrolled = True
                    return ("agg", "adt:Option::Some", (elems[i],))
                if i == len(elems):
                    # first exhaustion: leaving the loop is progress too (a second None is not)
                    self.write(path, a0[1], ("citer", elems, i + 1))
                    path.unrolled = True
                return ("agg", "adt:Option::None", ())
            return NotImplemented
        # ---- try / option / result plumbing
        if p == "core::ops::try_trait::Try::branch":
            return ("branch", a0)
        if p == "core::ops::try_trait::FromResidual::from_residual":
            if isinstance(a0, tuple) and a0 and a0[0] == "agg" and a0[1] == "adt:Result::Err":
                return ("from_residual", a0)
            return ("from_residual", a0)
        if p in ("core::option::Option::<T>::ok_or",):
            return ("call", "Option::ok_or", (a0, args[1]))
        if p == "core::result::Result::<T, E>::map_err":
            return ("call", "Result::map_err", (a0, args[1]))
        if p in ("core::result::Result::<T, E>::map", "core::option::Option::<T>::map"):
            return ("call", "Result::map" if "result" in p else "Option::map", (a0, args[1]))
        if p in ("core::result::Result::<T, E>::expect", "core::result::Result::<T, E>::unwrap",
                 "core::option::Option::<T>::expect", "core::option::Option::<T>::unwrap"):
            self.event(path, "unwrap", name, ce, args, site, blk, dest_ty, ctx)
            return self.okv(ctx, path, a0)
        if p == "core::result::Result::<T, E>::and_then":
            self.event(path, "call", name, ce, args, site, blk, dest_ty, ctx)
            return ("call", "Result::and_then", (a0, args[1]))
        # ---- views
        if p in VIEWS or rp in VIEWS:
            if is_ptr(a0):
                loc = a0[1]
                if p.startswith("core::ops::deref::Deref") and not ce.get("r_path"):
                    return NotImplemented
                if p.startswith("core::ops::deref::Deref"):
                    rs = ce.get("r_impl_self", "") or ""
                    if rs.startswith("alloc::vec::Vec") or rs.startswith("alloc::boxed::Box"):
                        v = self.read(path, loc) if loc[0] in ("L", "F") else None
                        if rs.startswith("alloc::boxed::Box") and is_ptr(v):
                            return v
                        return ("ptr", ("V", loc))
                    if rs.startswith("generic_array::GenericArray"):
                        return a0
                    if ce.get("r_crate", "").startswith("paseto_"):
                        return NotImplemented   # local Deref impls are inlined
                    return a0
                if p == "zerocopy::IntoBytes::as_bytes" and loc[0] == "R" and len(loc) > 4:
                    return ("ptr", loc[:4])
                if p == "zerocopy::IntoBytes::as_bytes" and loc[0] in ("L", "F"):
                    # a struct VALUE viewed as bytes: for an alignment-1 struct (no padding anywhere) these are the field
                    # values in offset order
                    v = self.read(path, loc)
                    flat = self.flatten_struct(ctx, ce, v)
                    if flat is not None:
                        return ("ptr", ("T", flat))
                return a0
            if p in ("core::convert::AsRef::as_ref",) and not ce.get("r_path"):
                return NotImplemented
            return ("view", name, a0)
        if p in IDENT or rp in IDENT:
            if p in ("core::convert::Into::into", "core::convert::From::from"):
                full = ce.get("full", "")
                # reference <-> GenericArray reference conversions and array -> GenericArray
                if is_ptr(a0) and ("GenericArray" in full or "generic_array" in full):
                    return a0
                if not is_ptr(a0) and "generic_array::GenericArray" in full and ("[u8;" in full or "[T; " in full):
                    return a0
                # std owned-buffer conversions Vec<u8> <-> Box<[u8]>: same bytes, same length (like into_boxed_slice / into_vec)
                if OWNED_BYTES_CONV.match(full) and not is_ptr(a0):
                    if isinstance(a0, tuple) and a0 and a0[0] == "vec":
                        return a0
                    return ("vec", ("bytes_of", a0))
                return NotImplemented
            if isinstance(a0, tuple) and a0 and a0[0] == "vec":
                return a0
            return ("vec", ("bytes_of", a0)) if "vec" in p or "boxed" in p else a0
        if p in COPIES or rp in COPIES:
            return ("vec", self.argval(path, a0))
        if p == "alloc::slice::<impl [T]>::concat" and "[&[u8]]" in ce.get("full", "") and is_ptr(a0):
            # [a, b, c].concat(): a fresh Vec holding the parts in order
            arr = self.content(path, a0[1])
            if isinstance(arr, tuple) and arr and arr[0] == "agg" and arr[1] == "array":
                out_ = ("concat", ())
                for part in arr[2]:
                    out_ = concat(out_, self.argval(path, part))
                return ("vec", out_)
        # ---- vec
        if p in ("alloc::vec::Vec::<T>::new", "alloc::vec::Vec::<T>::with_capacity"):
            return ("vec", ("concat", ()))
        if p == "alloc::vec::from_elem":
            if args[0] == ("int", 0) and args[1][0] == "int":
                return ("vec", ("zeros", args[1][1]))
            return ("vec", ("repeat", args[0], args[1]))
        if p == "alloc::vec::Vec::<T, A>::push" and len(args) == 2 and is_ptr(a0) and ce.get("full", "").startswith("alloc::vec::Vec::<u8>::push"):
            # one more byte at the end
            loc = ("V", a0[1])
            b_ = args[1]
            data = ("bytes", bytes([b_[1]])) if (isinstance(b_, tuple) and b_[0] == "int" and 0 <= b_[1] < 256) else ("byte", b_)
            old = self.content(path, loc)
            self.write(path, loc, concat(old, data))
            self.event(path, "append", name, ce, args, site, blk, dest_ty, ctx, {"data": data, "target": loc})
            return ("unit",)
        ext_full = ce.get("full", "")
        is_extend_bytes = (p == "core::iter::traits::collect::Extend::extend" and len(args) == 2
                           and re.match(r"<alloc::vec::Vec<u8> as core::iter::traits::collect::Extend<(&(?:'\w+ )?)?u8>>::extend::<(&(?:'\w+ )?)?(\[u8; \d+\]|\[u8\]|alloc::vec::Vec<u8>)>$", ext_full))
        if p == "core::iter::traits::collect::Extend::extend" and len(args) == 2 and not is_extend_bytes \
                and ext_full.startswith("<alloc::vec::Vec<u8> as core::iter::traits::collect::Extend<"):
            # v.extend(a.iter().chain(&b).chain(&c)) / .copied(): an iterator over byte buffers, in order
            flat = self._bytes_of_iter(path, args[1])
            if flat is not None and is_ptr(a0):
                loc = ("V", a0[1])
                old = self.content(path, loc)
                self.write(path, loc, concat(old, flat))
                self.event(path, "append", name, ce, args, site, blk, dest_ty, ctx, {"data": flat, "target": loc})
                return ("unit",)
        if p == "alloc::vec::Vec::<T, A>::extend_from_slice" or is_extend_bytes:
            # (Vec<u8> as Extend).extend(bytes) with a byte array / slice / Vec: appends exactly those bytes, in order
            loc = ("V", a0[1]) if is_ptr(a0) else None
            data = self.argval(path, args[1])
            if isinstance(data, tuple) and data and data[0] == "vec":
                data = data[1]
            if loc:
                old = self.content(path, loc)
                self.write(path, loc, concat(old, data))
                self.event(path, "append", name, ce, args, site, blk, dest_ty, ctx, {"data": data, "target": loc})
                return ("unit",)
        if p == "alloc::vec::Vec::<T, A>::splice" and len(args) == 3 and is_ptr(a0) \
                and re.search(r"::splice::<core::ops::range::Range<usize>, (\[u8; \d+\]|alloc::vec::Vec<u8>)>$", ce.get("full", "")):
            # v.splice(k..k, bytes): pure insertion of the bytes at offset k (the removed range is empty); the returned
            # iterator only matters for its drop
            rng = args[1]
            if isinstance(rng, tuple) and rng[0] == "agg" and rng[1].endswith("Range::Range") and len(rng[2]) == 2 \
                    and rng[2][0] == rng[2][1] and rng[2][0][0] == "int":
                k_ = rng[2][0][1]
                loc = ("V", a0[1])
                old = self.content(path, loc)
                data = self.argval(path, args[2])
                if isinstance(data, tuple) and data and data[0] == "vec":
                    data = data[1]
                if k_ == 0:
                    new_ = concat(data, old)
                else:
                    new_ = concat(concat(slice_of(old, (0, 0), (k_, 0)), data), slice_of(old, (k_, 0), (0, 1)))
                    self._need(path, loc, k_)
                self.write(path, loc, new_)
                self.event(path, "append", name, ce, args, site, blk, dest_ty, ctx, {"data": data, "target": loc, "at": k_})
                return ("unit",)
        if p == "alloc::vec::Vec::<T, A>::truncate":
            loc = ("V", a0[1]) if is_ptr(a0) else None
            if loc and args[1][0] == "int":
                old = self.content(path, loc)
                self.write(path, loc, slice_of(old, (0, 0), (args[1][1], 0)))
                self.event(path, "truncate", name, ce, args, site, blk, dest_ty, ctx)
                return ("unit",)
        if p in ("alloc::vec::Vec::<T, A>::len", "core::slice::<impl [T]>::len", "core::str::<impl str>::len"):
            if is_ptr(a0):
                loc = a0[1]
                if p.startswith("alloc::vec"):
                    loc = ("V", loc)
                return ("len", self.content(path, loc))
        if p in ("alloc::vec::Vec::<T, A>::reserve", "alloc::vec::Vec::<T, A>::reserve_exact"):
            self.event(path, "call", name, ce, args, site, blk, dest_ty, ctx)
            return ("unit",)
        if p == "alloc::boxed::Box::<T>::new":
            return a0
        # ---- slices
        if p in ("core::slice::<impl [T]>::is_empty",):
            return ("is_empty", self.argval(path, a0))
        if p in SPLITTERS:
            return self.split(ctx, path, ce, p, name, args, site, blk, dest_ty)
        if p == "core::slice::<impl [T]>::first" and is_ptr(a0):
            # Some(&x[0]) iff the slice is not empty
            loc = a0[1]
            self.event(path, "split", name, ce, args, site, blk, dest_ty, ctx, {"how": "first-elem", "n": 1, "target": loc, "wrap": "opt"})
            return ("split", ("ptr", ("IDX", loc, ("int", 0))), loc, 1, "opt", name)
        if p in ("core::ops::index::Index::index", "core::ops::index::IndexMut::index_mut"):
            return self.index(ctx, path, ce, name, args, site, blk, dest_ty)
        if p == "core::slice::<impl [T]>::copy_from_slice":
            if is_ptr(a0) and a0[1][0] == "R?":
                # suffix of a buffer starting at a computed offset: recognise the left-pad idiom
                _, base, lo, hi = a0[1]
                src = self.argval(path, args[1])
                old = self.content(path, base)
                n = old[1] if isinstance(old, tuple) and old[0] == "zeros" else None
                off = lo[1] if isinstance(lo, tuple) and lo[0] == "sym" else None
                m = None
                if isinstance(off, tuple) and off[0] == "okv":
                    off = off[1]
                if isinstance(off, tuple) and off[0] == "call" and off[1].endswith("checked_sub") and len(off[2]) == 2:
                    m = (off[2][0], off[2][1])
                elif isinstance(off, tuple) and off[0] == "binop" and off[1] in ("Sub", "SubUnchecked"):
                    m = (off[2], off[3])
                self.event(path, "copy", name, ce, args, site, blk, dest_ty, ctx, {"data": src, "target": base})
                if n is not None and m is not None and m[0] == ("int", n) and m[1] == ("len", src) and hi == (0, 1):
                    self.write(path, base, ("leftpad", n, src))
                else:
                    self.write(path, base, ("mut", old, ("copy_into_computed_range", 0, (src,))))
                return ("unit",)
            if is_ptr(a0):
                src = self.argval(path, args[1])
                self.event(path, "copy", name, ce, args, site, blk, dest_ty, ctx, {"data": src, "target": a0[1]})
                self.write(path, a0[1], src)
                return ("unit",)
        if p in ("core::convert::TryInto::try_into", "core::convert::TryFrom::try_from"):
            # slice -> array (ref or value): exact length test
            full = ce.get("full", "")
            m = re.search(r"\[u8; (\d+)\]", short(full))
            if m and (is_ptr(a0)) and ("[u8]" in full):
                n = int(m.group(1))
                self.event(path, "exactlen", name, ce, args, site, blk, dest_ty, ctx, {"n": n, "target": a0[1]})
                byval = not re.search(r"&(mut )?\[u8; \d+\]", short(dest_ty))
                return ("tryarray", a0, n, byval)
            return NotImplemented
        # ---- cipher
        if p == "cipher::stream::StreamCipher::apply_keystream":
            cst = self.argval(path, a0)
            if is_ptr(args[1]):
                old = self.content(path, args[1][1])
                self.event(path, "xor", name, ce, args, site, blk, dest_ty, ctx, {"cipher": cst, "target": args[1][1], "data": old})
                self.write(path, args[1][1], ("xor", cst, old))
                if is_ptr(a0):
                    self.write(path, a0[1], ("mut", cst, ("apply_keystream",)))
                return ("unit",)
        if p == "libsodium_rs::crypto_stream::xchacha20::stream_xor":
            data = self.argval(path, a0)
            cst = ("sodium_xchacha20", self.argval(path, args[2]), self.argval(path, args[1]))
            self.event(path, "xor", name, ce, args, site, blk, dest_ty, ctx, {"cipher": cst, "target": None, "data": data})
            return ("agg", "adt:Result::Ok", (("vec", ("xor", cst, data)),)) if False else ("fallible", ("vec", ("xor", cst, data)), name, (cst, data))
        if p == "aws_lc_rs::cipher::EncryptingKey::less_safe_encrypt":
            key = self.argval(path, a0)
            ctxv = self.argval(path, args[2])
            cst = ("awslc_ctr", key, ctxv)
            if is_ptr(args[1]):
                old = self.content(path, args[1][1])
                self.event(path, "xor", name, ce, args, site, blk, dest_ty, ctx, {"cipher": cst, "target": args[1][1], "data": old})
                self.write(path, args[1][1], ("xor", cst, old))
                return ("fallible", ("unit",), name, (cst,))
        if p == "paseto_core::pae::pre_auth_encode" or p == "pae::pre_auth_encode":
            pieces = []
            ok = isinstance(a0, tuple) and a0[0] == "agg"
            if ok:
                for pc in a0[2]:
                    pv = self.argval(path, pc)
                    if isinstance(pv, tuple) and pv[0] == "agg":
                        pieces.append(tuple(self.argval(path, fr) for fr in pv[2]))
                    else:
                        pieces.append(("?", pv))
            else:
                pieces = [("?", self.argval(path, a0))]
            pieces = tuple(pieces)
            sink = self.sink_of(path, args[1])
            self.event(path, "pae", name, ce, args, site, blk, dest_ty, ctx, {"pieces": pieces, "sink": sink})
            if sink is not None:
                old = self.content(path, sink)
                if sink[0] == "V":
                    self.write(path, sink, concat(old, ("PAE", pieces)))
                else:
                    self.write(path, sink, ("mut", old, ("PAE", 0, pieces)))
            return ("unit",)
        if (p.endswith("encodings::Payload::encode") or p.endswith("encodings::Footer::encode")) and not ce.get("r_path"):
            kind = "payload" if "Payload" in p else "footer"
            val = self.argval(path, a0)
            sink = self.sink_of(path, args[1])
            self.event(path, "encode", name, ce, args, site, blk, dest_ty, ctx, {"what": kind, "value": val, "sink": sink})
            if sink is not None:
                old = self.content(path, sink)
                self.write(path, sink, concat(old, ("encoded", kind, val)))
                return ("fallible", ("unit",), name, (val,))
        if p == "ed25519_dalek::hazmat::raw_sign_byupdate" and len(args) == 3:
            clo = args[1]
            cf = None
            if isinstance(clo, tuple) and clo[0] == "agg" and clo[1].startswith("closure:"):
                cf = self.w.find_fn(ctx["fn"]["crate"], clo[1][len("closure:"):])
            if cf is not None:
                self.w.site_counter += 1
                h = ("H", ("signmsg", self.w.site_counter))
                path.store[h] = ("sinkstate", "sign-message")
                # the closure takes (env, &mut hasher)
                env_arg = clo
                l1 = cf["body"]["locals"][1]
                if cf["_crate"].ty(l1["ty"]).get("k") == "ref":
                    tl = ("T", clo)
                    env_arg = ("ptr", tl)
                rs = self.run(cf, args=[env_arg, ("ptr", h)], path=path, depth=ctx["depth"] + 1, subst=ctx["subst"])
                oks = [r_ for r_ in rs if r_.kind == "return"]
                if len(oks) == 1:
                    if oks[0].path is not path:
                        path.__dict__.update(oks[0].path.__dict__)
                    msg = self.content(path, h)
                    self.event(path, "sign", name, ce, args, site, blk, dest_ty, ctx, {"msg": msg})
                    return ("call", "ed25519_dalek::hazmat::raw_sign_byupdate", (self.argval(path, a0), msg, self.argval(path, args[2])))
            return NotImplemented
        if p == "lc::Signature::append_to_vec" and ce.get("crate") == "paseto_v3_aws_lc" and is_ptr(args[1]):
            # contract of the FFI serialiser (its body is checked by the C04 / T-FIXW rules): appends r||s
            loc = ("V", args[1][1])
            sig = self.argval(path, a0)
            old = self.content(path, loc)
            data = ("call", "lc::Signature::to_bytes", (sig,))
            self.write(path, loc, concat(old, data))
            self.event(path, "append", name, ce, args, site, blk, dest_ty, ctx, {"data": data, "target": loc})
            return ("fallible", ("unit",), name, (sig,))
        if p == "core::mem::size_of":
            # size_of::<T>() for local zerocopy structs
            ga = ce.get("args") or []
            if ga and "t" in ga[0]:
                ti = ctx["cr"].ty(ga[0]["t"])
                if ti.get("k") == "adt":
                    lay = self.w.adt_layout(ti.get("crate"), ti["path"])
                    if lay and "size" in lay:
                        return ("int", lay["size"])
            return ("call", name, ())
        if p == "core::clone::Clone::clone" and is_ptr(a0):
            rs = ce.get("r_path") or ""
            if rs.startswith("core::array") or "Option" in (ce.get("r_full") or "") or not ce.get("r_path"):
                return self.content(path, a0[1])
            return NotImplemented
        return NotImplemented

    def _find_any(self, key):
        for c in self.w.crates.values():
            f = c.fns.get(key)
            if f is not None:
                return f
        return None

    def sink_of(self, path, wv, depth=0):
        """Underlying object a WriteBytes adapter forwards to (adapters are checked separately, R15.2)."""
        if depth > 6:
            return None
        if is_ptr(wv):
            loc = wv[1]
            c = self.read(path, loc) if loc[0] in ("L", "F") else self.content(path, loc)
            if is_ptr(c):
                return self.sink_of(path, c, depth + 1)
            if isinstance(c, tuple) and c and c[0] == "vec":
                return ("V", loc)
            if isinstance(c, tuple) and c and c[0] == "agg" and len(c[2]) == 1 and c[1].startswith("adt:"):
                inner = c[2][0]
                if is_ptr(inner):
                    return self.sink_of(path, inner, depth + 1)
                return ("F", loc, 0)
            return loc
        if isinstance(wv, tuple) and wv and wv[0] == "agg" and len(wv[2]) == 1:
            return self.sink_of(path, wv[2][0], depth + 1)
        return None

    def okv(self, ctx, path, t):
        """Payload of the Ok/Some/Continue variant of t."""
        if isinstance(t, tuple) and t:
            if t[0] == "branch":
                return self.okv(ctx, path, t[1])
            if t[0] == "agg" and t[1].startswith("adt:") and t[1].rsplit("::", 1)[-1] in ("Ok", "Some", "Continue") and t[2]:
                return t[2][0]
            if t[0] == "call" and t[1] in ("Option::ok_or", "Result::map_err"):
                return self.okv(ctx, path, t[2][0])
            if t[0] == "call" and t[1] in ("Result::map", "Option::map"):
                inner = self.okv(ctx, path, t[2][0])
                return self.apply_fn(path, t[2][1], inner)
            if t[0] == "call" and len(t[2]) == 2 and re.search(r"core::num::<impl (usize|u64|u32)>::checked_(sub|add)$", t[1]):
                return fold_binop("Sub" if t[1].endswith("sub") else "Add", self.argval(path, t[2][0]), self.argval(path, t[2][1]))
            if t[0] == "call" and t[1] == "Result::and_then":
                inner = self.okv(ctx, path, t[2][0])
                f = t[2][1]
                if isinstance(f, tuple) and f and f[0] == "fn":
                    return ("okv", ("call", qshort(f[1]), (self.argval(path, inner),)))
                return ("okv", self.apply_fn(path, f, inner))
            if t[0] == "split":
                self._need(path, t[2], t[3])
                return t[1]
            if t[0] == "fallible":
                return t[1]
            if t[0] == "tryarray":
                _, ptr, n, byval = t
                loc = ptr[1]
                reg = self.region(loc, (0, 0), (n, 0)) if loc[0] != "R" else loc
                if loc[0] != "R":
                    path.minlen[loc] = max(path.minlen.get(loc, 0), n)
                if byval:
                    return self.content(path, loc)
                return ("ptr", loc)
        return ("okv", t)

    def apply(self, ctx, path, f, x):
        if isinstance(f, tuple) and f[0] == "fn":
            nm = short(f[1])
            return ("agg", f"adt:{nm}::{nm.rsplit('::',1)[-1]}", (x,)) if nm[:1].isupper() or "::" in nm and nm.rsplit("::", 1)[-1][:1].isupper() else ("call", nm, (x,))
        return ("apply", f, x)

    def variant_field(self, ctx, path, t, vname, idx):
        if vname in ("Continue", "Ok", "Some"):
            if idx == 0:
                return self.okv(ctx, path, t)
        if vname in ("Break", "Err"):
            return self.errv(path, t)
        return ("variant", t, vname, idx)

    def errv(self, path, t, depth=0):
        """Payload of the Err/Break variant of t (the error value), resolving ok_or / map_err plumbing."""
        if isinstance(t, tuple) and t and depth < 8:
            if t[0] == "branch":
                inner = self.errv(path, t[1], depth + 1)
                return ("agg", "adt:Result::Err", (inner,))     # Break(Err(e))
            if t[0] == "agg" and t[1].startswith("adt:") and t[1].rsplit("::", 1)[-1] in ("Err", "Break") and t[2]:
                return t[2][0]
            if t[0] == "from_residual":
                return self.errv(path, t[1], depth + 1)
            if t[0] == "call" and t[1] == "Option::ok_or":
                return t[2][1]
            if t[0] == "call" and t[1] == "Result::map_err":
                inner = self.errv(path, t[2][0], depth + 1)
                return self.apply_fn(path, t[2][1], inner)
            if t[0] == "call" and t[1] in ("Result::map", "Option::map"):
                return self.errv(path, t[2][0], depth + 1)
        return ("errv", t)

    def apply_fn(self, path, f, x):
        """Result of calling a closure / fn item on x when its body is a constant or constructor."""
        if isinstance(f, tuple) and f and f[0] == "agg" and f[1].startswith("closure:"):
            key = f[1][len("closure:"):]
            for c in self.w.crates.values():
                cf = c.fns.get(key)
                if cf is not None:
                    sub = Interp(self.w, inline=False)
                    rs = sub.run(cf, args=[f, x], path=Path())
                    rets = [r for r in rs if r.kind == "return"]
                    if len(rets) == 1:
                        return rets[0].ret
        if isinstance(f, tuple) and f and f[0] == "fn":
            if f[1] in IDENT and f[1] not in ("core::convert::Into::into", "core::convert::From::from"):
                # `.map(Vec::into_boxed_slice)` and friends: same bytes
                if isinstance(x, tuple) and x and x[0] == "vec":
                    return x
                return ("vec", ("bytes_of", x)) if ("vec" in f[1] or "boxed" in f[1]) else x
            nm = short(f[1])
            last = nm.rsplit("::", 1)[-1]
            if last[:1].isupper():
                return ("agg", "adt:" + nm, (x,))
            return ("call", qshort(f[1]), (x,))
        return ("apply", f, x)

    def split(self, ctx, path, ce, p, name, args, site, blk, dest_ty):
        kind, wrap = SPLITTERS[p]
        a0 = args[0]
        if not is_ptr(a0):
            return NotImplemented
        loc = a0[1]
        n = None
        lay = None
        if kind in ("first", "last", "first1", "last1"):
            ga = [g for g in (ce.get("args") or []) if "c" in g]
            n = ga[0]["c"] if ga else None
        elif kind == "at":
            mid = args[1]
            n = mid
        else:
            ga = ce.get("args") or []
            if ga and "t" in ga[0]:
                ti = ctx["cr"].ty(ga[0]["t"])
                if ti.get("k") == "adt":
                    lay = self.w.adt_layout(ti.get("crate"), ti["path"])
                    n = lay.get("size") if lay else None
        if n is None:
            return NotImplemented
        if loc[0] == "R":
            lo, hi = (0, 0), (0, 1)
        else:
            lo, hi = (0, 0), (0, 1)
        def reg(a, b, l=None):
            r = self.region(loc, a, b)
            if l is not None:
                r = r + (HashableLayout(l),)
            return ("ptr", r)
        base = loc[1] if loc[0] == "R" else loc
        need = None
        if kind == "first":
            res = ("agg", "tuple", (reg((0, 0), (n, 0)), reg((n, 0), (0, 1))))
            need = n
        elif kind == "last":
            res = ("agg", "tuple", (reg((0, 0), (-n, 1)), reg((-n, 1), (0, 1))))
            need = n
        elif kind == "first1":
            res = reg((0, 0), (n, 0)); need = n
        elif kind == "last1":
            res = reg((-n, 1), (0, 1)); need = n
        elif kind == "zfirst":
            res = ("agg", "tuple", (reg((0, 0), (n, 0), lay), reg((n, 0), (0, 1)))); need = n
        elif kind == "zlast":
            res = ("agg", "tuple", (reg((0, 0), (-n, 1)), reg((-n, 1), (0, 1), lay))); need = n
        elif kind == "zexact":
            res = reg((0, 0), (0, 1), lay); need = n
        elif kind == "at":
            if isinstance(n, tuple) and n[0] == "int":
                k = n[1]
                res = ("agg", "tuple", (reg((0, 0), (k, 0)), reg((k, 0), (0, 1))))
                need = k
            else:
                # len - k form
                m = match_len_minus(n, self.content(path, loc))
                if m is None and loc[0] == "R" and loc[2][1] == 0 and loc[3] == (0, 1) and isinstance(loc[2][0], int):
                    # splitting the suffix base[a..] at len(base) - k: that is k - a bytes before the (common) end
                    mb = match_len_minus(n, self.content(path, loc[1]))
                    if mb is not None and mb >= loc[2][0]:
                        m = mb - loc[2][0]
                if m is None:
                    self.event(path, "split", name, ce, args, site, blk, dest_ty, ctx, {"how": kind, "n": n, "target": loc, "unknown_mid": True})
                    # same shape as an index range with a symbolic bound: [0, n) and [n, end)
                    return ("agg", "tuple", (("ptr", ("R?", loc, (0, 0), ("sym", n))), ("ptr", ("R?", loc, ("sym", n), (0, 1)))))
                res = ("agg", "tuple", (reg((0, 0), (-m, 1)), reg((-m, 1), (0, 1))))
                need = m
        self.event(path, "split", name, ce, args, site, blk, dest_ty, ctx,
                   {"how": kind, "n": need, "target": loc, "wrap": wrap})
        if wrap == "plain":
            # split_at panics when out of range; successful return implies length
            self._need(path, loc, need)
            return res
        return ("split", res, loc, need, wrap, name)

    def _need(self, path, loc, n):
        # record minimum length implied for the *base* buffer
        if loc[0] == "R":
            base, lo, hi = loc[1], loc[2], loc[3]
            # length of region = hi - lo ; if lo=(a,0), hi=(b,1): len_base >= n + a - b
            if lo[1] == 0 and hi[1] == 1:
                need = n + lo[0] - hi[0]
                path.minlen[base] = max(path.minlen.get(base, 0), need)
        else:
            path.minlen[loc] = max(path.minlen.get(loc, 0), n)

    def index(self, ctx, path, ce, name, args, site, blk, dest_ty):
        a0, rng = args[0], args[1]
        if not is_ptr(a0):
            return NotImplemented
        loc = a0[1]
        rs = ce.get("r_impl_self") or ""
        if rs.startswith("alloc::vec::Vec"):
            loc = ("V", loc)
        lo = hi = None
        if isinstance(rng, tuple) and rng[0] == "agg":
            kind = rng[1]
            ops = rng[2]
            content_ = None
            def bnd(x):
                """A constant offset (k, 0), or `len(this buffer) - k` as (-k, 1); None when the bound is some other expression."""
                nonlocal content_
                if isinstance(x, tuple) and x and x[0] == "int":
                    return (x[1], 0)
                if content_ is None:
                    content_ = self.content(path, loc)
                if isinstance(x, tuple) and x and x[0] == "len" and same_buffer(x[1], content_):
                    return (0, 1)
                m = match_len_minus(x, content_)
                return (-m, 1) if m is not None else None
            if kind.endswith("Range::Range") and len(ops) == 2:
                lo, hi = bnd(ops[0]), bnd(ops[1])
                if lo is None or hi is None:
                    lo = hi = None
            elif kind.endswith("RangeTo::RangeTo"):
                h = bnd(ops[0])
                lo, hi = (0, 0), (h if h is not None else ("sym", ops[0]))
            elif kind.endswith("RangeFrom::RangeFrom"):
                l = bnd(ops[0])
                lo, hi = (l if l is not None else ("sym", ops[0])), (0, 1)
            elif kind.endswith("RangeFull::RangeFull"):
                lo, hi = (0, 0), (0, 1)
        ev = self.event(path, "index", name, ce, args, site, blk, dest_ty, ctx, {"target": loc, "lo": lo, "hi": hi, "range": rng})
        if lo is None:
            return ("ptr", ("IDX", loc, rng))
        if isinstance(lo[0], str) or isinstance(hi[0], str):
            return ("ptr", ("R?", loc, lo, hi))
        return ("ptr", self.region(loc, lo, hi))

class HashableLayout(dict):
    def __init__(self, d):
        super().__init__(d)
        self._h = hash(d.get("path"))
    def __hash__(self):
        return self._h
    def __eq__(self, o):
        return isinstance(o, dict) and self.get("path") == o.get("path")
    def __repr__(self):
        return f"<layout {short(self.get('path',''))}>"

def match_len_minus(t, content):
    """Match Sub(len(x), k) -> k, where x is the buffer whose current content is `content` (the length of some other buffer
    says nothing about this one)."""
    if isinstance(t, tuple) and t[0] == "binop" and t[1] in ("Sub", "SubWithOverflow", "SubUnchecked"):
        a, b = t[2], t[3]
        if isinstance(b, tuple) and b[0] == "int" and isinstance(a, tuple) and a[0] == "len" and same_buffer(a[1], content):
            return b[1]
        if isinstance(b, tuple) and b[0] == "int":
            inner = match_len_minus(a, content)        # (len - j) - k
            if inner is not None:
                return inner + b[1]
    if isinstance(t, tuple) and t[0] == "field" and t[2] == 0:
        return match_len_minus(t[1], content)
    return None

def same_buffer(x, content):
    """len(x) is the length of the buffer holding `content`: same term, or the same buffer before in-place (length-preserving)
    mutation."""
    def strip(v):
        while isinstance(v, tuple) and v and v[0] in ("mut", "patched", "vec"):
            v = v[1]
        return v
    return x == content or strip(x) == strip(content)

def fold_binop(op, a, b):
    if isinstance(a, tuple) and isinstance(b, tuple) and a[0] == "int" and b[0] == "int":
        x, y = a[1], b[1]
        try:
            if op in ("Add", "AddUnchecked"): return ("int", x + y)
            if op in ("Sub", "SubUnchecked"): return ("int", x - y)
            if op in ("Mul", "MulUnchecked"): return ("int", x * y)
            if op == "BitAnd": return ("int", x & y)
            if op == "BitOr": return ("int", x | y)
            if op == "BitXor": return ("int", x ^ y)
            if op == "Shl": return ("int", x << y)
            if op == "Shr": return ("int", x >> y)
            if op == "Eq": return ("int", int(x == y))
            if op == "Ne": return ("int", int(x != y))
            if op == "Lt": return ("int", int(x < y))
            if op == "Le": return ("int", int(x <= y))
            if op == "Gt": return ("int", int(x > y))
            if op == "Ge": return ("int", int(x >= y))
        except Exception:
            pass
    return ("binop", op, a, b)

def field_of(t, i):
    if isinstance(t, tuple) and t:
        if t[0] == "vec":
            return ("vecptr", t)
        if t[0] == "vecptr":
            return t
        if t[0] == "agg" and i < len(t[2]):
            return t[2][i]
        if t[0] == "with_fields":
            for j, v in t[2]:
                if j == i:
                    return v
            return field_of(t[1], i)
        if t[0] == "binop" and t[1].endswith("WithOverflow"):
            if i == 0:
                return fold_binop(t[1][:-len("WithOverflow")], t[2], t[3])
            return ("overflow", t[1], t[2], t[3])
        if t[0] == "downcast":
            return variant_payload(t[1], t[2], i)
    return ("field", t, i)

def variant_payload(t, vname, idx):
    if isinstance(t, tuple) and t:
        if t[0] == "agg" and t[1].startswith("adt:") and t[1].endswith("::" + vname) and idx < len(t[2]):
            return t[2][idx]
    return ("variant", t, vname, idx)

AND_THEN = {"core::result::Result::<T, E>::and_then", "core::option::Option::<T>::and_then"}
RESULT_DEFAULTING = {"core::result::Result::<T, E>::unwrap_or", "core::result::Result::<T, E>::unwrap_or_else", "core::result::Result::<T, E>::unwrap_or_default",
                     "core::result::Result::<T, E>::map_or", "core::result::Result::<T, E>::map_or_else"}

def type_kind_of(t):
    r = t
    if isinstance(r, tuple) and r:
        if r[0] in ("split",):
            return "option" if r[4] == "opt" else "result"
        if r[0] in ("fallible", "tryarray"):
            return "result"
        if r[0] == "call":
            if r[1].startswith("Option::ok_or") or r[1].startswith("Result::"):
                return "result"
            if r[1].startswith("Option::"):
                return "option"
        if r[0] == "agg" and r[1].startswith("adt:"):
            v = r[1].rsplit("::", 1)[-1]
            if v in ("Ok", "Err"):
                return "result"
            if v in ("Some", "None"):
                return "option"
    return None

def concat(a, b):
    pa = a[1] if isinstance(a, tuple) and a[0] == "concat" else (a,)
    pb = b[1] if isinstance(b, tuple) and b[0] == "concat" else (b,)
    return ("concat", tuple(pa) + tuple(pb))

def slice_of(t, lo, hi):
    if isinstance(t, tuple) and t[0] == "concat" and lo == (0, 0) and hi[1] == 0:
        # prefix made of whole leading parts
        acc = 0
        parts = []
        for p in t[1]:
            w = width_of(p)
            if w is None:
                break
            if acc + w <= hi[0]:
                parts.append(p)
                acc += w
                if acc == hi[0]:
                    return parts[0] if len(parts) == 1 else ("concat", tuple(parts))
            else:
                break
    return ("slice", t, lo, hi)

def width_of(t):
    """Static byte width of a content term if known."""
    if not isinstance(t, tuple) or not t:
        return None
    k = t[0]
    if k == "bytes":
        return len(t[1])
    if k == "zeros":
        return t[1]
    if k == "rng":
        return t[3] if isinstance(t[3], int) else None
    if k == "init" and isinstance(t[1], tuple) and t[1][0] == "R":
        lo, hi = t[1][2], t[1][3]
        if lo[1] == hi[1]:
            return hi[0] - lo[0]
        return None
    if k == "xor":
        return width_of(t[2])
    if k == "mut":
        return width_of(t[1])
    if k == "concat":
        ws = [width_of(p) for p in t[1]]
        return None if any(w is None for w in ws) else sum(ws)
    if k == "slice":
        lo, hi = t[2], t[3]
        if isinstance(lo, tuple) and isinstance(hi, tuple) and len(lo) == 2 and len(hi) == 2 and lo[1] == hi[1] and isinstance(lo[0], int):
            return hi[0] - lo[0]
    if k == "patched":
        return width_of(t[1])
    if k == "vec":
        return width_of(t[1])
    if k == "call":
        m = re.search(r"impl Default for GenericArray<u8, U(\d+)>", t[1])
        if m:
            return int(m.group(1))
    return None
