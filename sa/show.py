import sys; sys.path.insert(0,'/verif/sa')
from facts import *; from interp import *; from pretty import *
def main():
    cs=load_all('/verif/.cache/facts/default')
    w=World(cs)
    crate, pat = sys.argv[1], sys.argv[2]
    verbose = len(sys.argv) > 3
    for k,f in cs[crate].fns.items():
        if pat in k and '{closure' not in k:
            print('#####', k)
            it=Interp(w, inline_filter=lambda f: not (f["crate"]=="paseto_v3_aws_lc" and f["key"].startswith("lc::")))
            res=it.run(f)
            for r in res:
                print('==',r.kind,r.okness, ft(r.ret) if r.ret else None)
                for g in r.path.guards: print('   guard',ft(g['cond'])[:300],g['value'])
                if verbose or r.okness:
                    for e in r.path.events:
                        if e['kind'] in ('enter','leave'): continue
                        print('   ',fev(e)[:1500])
                for n in r.path.notes: print('   NOTE',n)
main()
