"""CFG utilities over MIR facts: successors, dominators, natural loops (cleanup blocks excluded)."""
def successors(body):
    succ = []
    for b in body["blocks"]:
        t = b["term"]
        k = t["k"]
        s = []
        if k in ("goto", "drop", "assert"):
            s = [t["t"]]
        elif k == "switch":
            s = [a[1] for a in t["arms"]] + [t["otherwise"]]
        elif k == "call":
            if t["t"] is not None:
                s = [t["t"]]
        succ.append([x for x in dict.fromkeys(s)])
    return succ

def reachable(body):
    succ = successors(body)
    seen, st = set(), [0]
    while st:
        n = st.pop()
        if n in seen or body["blocks"][n]["cleanup"]:
            continue
        seen.add(n)
        st.extend(succ[n])
    return seen

def dominators(body):
    succ = successors(body)
    nodes = sorted(reachable(body))
    pred = {n: [] for n in nodes}
    for n in nodes:
        for s in succ[n]:
            if s in pred:
                pred[s].append(n)
    dom = {n: set(nodes) for n in nodes}
    dom[0] = {0}
    changed = True
    while changed:
        changed = False
        for n in nodes:
            if n == 0:
                continue
            ps = [dom[p] for p in pred[n]]
            new = set.intersection(*ps) | {n} if ps else {n}
            if new != dom[n]:
                dom[n] = new
                changed = True
    return dom, pred

def loops(body):
    """natural loops: header -> set(body blocks)"""
    dom, pred = dominators(body)
    succ = successors(body)
    out = {}
    for n in dom:
        for s in succ[n]:
            if s in dom and s in dom[n]:      # back edge n -> s
                blk = {s, n}
                st = [n]
                while st:
                    x = st.pop()
                    for p in pred.get(x, []):
                        if p not in blk:
                            blk.add(p)
                            st.append(p)
                out.setdefault(s, set()).update(blk)
    return out

def dominates(dom, a, b):
    return a in dom.get(b, ())
