"""CFG utilities over MIR facts: successors, dominators, natural loops (cleanup blocks excluded)."""
def successors(body):
    succ = []
    for b in body["blocks"]:
        t = b["term"]
        k = t["k"]
        s = []
        if k in ("goto", "drop", "assert"):
            s = [t["t"]]
        elif k == "switch":
            s = [a[1] for a in t["arms"]] + [t["otherwise"]]
        elif k == "call":
            if t["t"] is not None:
                s = [t["t"]]
        succ.append([x for x in dict.fromkeys(s)])
    return succ

def reachable(body):
    succ = successors(body)
    seen, st = set(), [0]
    while st:
        n = st.pop()
        if n in seen or body["blocks"][n]["cleanup"]:
            continue
        seen.add(n)
        st.extend(succ[n])
    return seen

def dominators(body):
    succ = successors(body)
    nodes = sorted(reachable(body))
    pred = {n: [] for n in nodes}
    for n in nodes:
        for s in succ[n]:
            if s in pred:
                pred[s].append(n)
    dom = {n: set(nodes) for n in nodes}
    dom[0] = {0}
    changed = True
    while changed:
        changed = False
        for n in nodes:
            if n == 0:
                continue
            ps = [dom[p] for p in pred[n]]
            new = set.intersection(*ps) | {n} if ps else {n}
            if new != dom[n]:
                dom[n] = new
                changed = True
    return dom, pred

def loops(body):
    """natural loops: header -> set(body blocks)"""
    dom, pred = dominators(body)
    succ = successors(body)
    out = {}
    for n in dom:
        for s in succ[n]:
            if s in dom and s in dom[n]:      # back edge n -> s
                blk = {s, n}
                st = [n]
                while st:
                    x = st.pop()
                    for p in pred.get(x, []):
                        if p not in blk:
                            blk.add(p)
                            st.append(p)
                out.setdefault(s, set()).update(blk)
    return out

def dominates(dom, a, b):
    return a in dom.get(b, ())


VIEW_FNS = {"deref", "deref_mut", "as_ref", "as_mut", "as_slice", "as_mut_slice", "as_bytes", "as_bytes_mut", "borrow", "borrow_mut", "as_mut_ptr", "as_ptr"}

def root_of(f, operand, depth=0):
    """Follows `x = &y`, `x = &(*y)`, `x = copy/move y`, unsize casts back to the local that owns the bytes,
    or to the call that produced the reference. Returns (local or None, callee path or None)."""
    pl = operand.get("copy") or operand.get("move") if isinstance(operand, dict) else None
    if pl is None or depth > 12:
        return None, None
    l = pl["l"]
    defs = []
    for b in f["body"]["blocks"]:
        for st in b["stmts"]:
            if st["k"] == "assign" and st["place"]["l"] == l and not st["place"]["p"]:
                defs.append(("stmt", st["rv"]))
        t = b["term"]
        if t["k"] == "call" and t.get("dest") and t["dest"]["l"] == l and not t["dest"]["p"]:
            defs.append(("call", t))
    if len(defs) != 1:
        return (l, None) if not defs or l <= f["body"]["argc"] else (l, None)
    kind, d = defs[0]
    if kind == "call":
        cp = (d.get("callee") or {}).get("path") or ""
        if cp.rsplit("::", 1)[-1] in VIEW_FNS and len(d["args"]) == 1:
            return root_of(f, d["args"][0], depth + 1)
        return None, cp
    if d["k"] in ("ref", "rawptr"):
        p2 = d["place"]
        if not p2["p"]:
            return p2["l"], None
        if p2["p"] == ["*"]:
            return root_of(f, {"copy": {"l": p2["l"], "p": []}}, depth + 1)
        return p2["l"], None
    if d["k"] == "use" or d["k"] == "cast":
        return root_of(f, d["op"], depth + 1)
    return l, None

