"""Call models for absint: std slice/Vec/Option plumbing with exact length algebra, the panic preconditions
documented for each std call, and context-sensitive analysis of workspace callees."""
import re
from absint import K, S, is_lin, ladd, lscale, lconst, ISIZE_MAX, INT_RANGE, U64

def gen_int(full, name):
    m = re.search(re.escape(name) + r"::<(?:'_, )?(\d+)(?:_usize)?>", full or "")
    return int(m.group(1)) if m else None

def B(op, a, b):
    return ("b", op, a, b)

TRUE = ("b", "const", True, None)
FALSE = ("b", "const", False, None)

LEN = {"core::slice::<impl [T]>::len", "core::str::<impl str>::len", "alloc::vec::Vec::<T, A>::len", "alloc::string::String::len",
       "core::array::<impl [T; N]>::len"}
IS_EMPTY = {"core::slice::<impl [T]>::is_empty", "core::str::<impl str>::is_empty", "alloc::vec::Vec::<T, A>::is_empty", "alloc::string::String::is_empty"}
VIEW_LAST = {"as_bytes", "as_ref", "deref", "deref_mut", "as_slice", "as_mut_slice", "as_mut", "borrow", "borrow_mut", "as_str", "as_mut_str",
             "as_bytes_mut", "into_boxed_slice", "into_bytes", "as_array", "each_ref"}
TO_VEC = {"alloc::slice::<impl [T]>::to_vec", "alloc::slice::<impl alloc::borrow::ToOwned for [T]>::to_owned", "alloc::slice::<impl [T]>::into_vec",
          "alloc::string::String::into_bytes", "alloc::str::<impl str>::to_owned", "alloc::string::ToString::to_string"}

def range_of(ai, st, rng, ln, key):
    """For a range/index abstract value: (condition under which indexing a length-ln slice succeeds, new length or None)."""
    if is_lin(rng):
        return B("Lt", rng, ln), None
    if isinstance(rng, tuple) and rng and rng[0] == "t":
        kind = rng[2].rsplit("::", 1)[-1]
        ops = rng[1]
        if kind == "RangeFull":
            return TRUE, ln
        if kind == "RangeTo" and is_lin(ops[0]):
            return B("Le", ops[0], ln), ops[0]
        if kind == "RangeFrom" and is_lin(ops[0]):
            return B("Le", ops[0], ln), ladd(ln, ops[0], -1)
        if kind == "Range" and is_lin(ops[0]) and is_lin(ops[1]):
            return ("b", "and", B("Le", ops[0], ops[1]), B("Le", ops[1], ln)), ladd(ops[1], ops[0], -1)
        if kind == "RangeToInclusive" and is_lin(ops[0]):
            return B("Lt", ops[0], ln), ladd(ops[0], K(1))
    return None, None

def slice_val(ai, st, ln, key):
    if ln is None:
        ln = ai.fresh(st, key + ("len",), 0, ISIZE_MAX, (0, ISIZE_MAX))
    return ("s", ln)

def is_slice_ref(ai, tid):
    if tid is None:
        return False
    t = ai.ty(tid)
    if t["k"] in ("ref", "ptr"):
        it = ai.ty(t["inner"])
        return it["k"] in ("slice", "array") or it["s"] == "str"
    return t["k"] == "adt" and t["path"] in ("alloc::boxed::Box",)

def model(ai, st, bi, ce, args, atys, dty, key):
    p = ce["path"]
    full = ce.get("full", "")
    rfull = ce.get("r_full", "") or full
    last = p.rsplit("::", 1)[-1]
    a0 = args[0] if args else None
    t0 = atys[0] if atys else None
    ce.pop("_pure", None)
    def pure(v):
        ce["_pure"] = True
        return v
    def L(i=0):
        return ai.length(st, args[i], atys[i], key + ("L", i))

    from absint_contracts import EARLY, early, contract
    if p in EARLY or p.endswith(("::EC_group_p384", "::is_null", "key::HasKey::decode")):
        r = early(ai, st, bi, ce, args, atys, dty, key, L)
        if r is not NotImplemented:
            return pure(r)
    if re.match(r"core::num::nonzero::NonZero::<.*>::new$", p) and len(args) == 1 and is_lin(a0):
        # Some iff the argument is not zero
        lo_, hi_ = ai.iv(st, a0)
        if lo_ >= 1 or hi_ <= -1:
            return pure(("o", 1, a0, TRUE))
        if lo_ == 0 and hi_ == 0:
            return pure(("o", 1, None, ("b", "const", False, None)))
        return pure(("o", 1, a0, None))
    if p in LEN:
        return pure(L())
    if p in IS_EMPTY:
        return pure(B("Eq", L(), K(0)))
    if last in VIEW_LAST and is_slice_ref(ai, dty) and len(args) == 1:
        from absint import AbsInt
        ln = type_len(ai, dty)
        if ln is None:
            ln = L()
        return pure(slice_val(ai, st, ln, key))
    if p in TO_VEC or (last in ("to_vec", "to_owned", "into_vec") and "slice" in p):
        return pure(("vec", L()))
    if p in ("core::convert::From::from", "core::convert::Into::into"):
        from facts import short as _short
        sf = _short(full)
        m = re.search(r"<&(?:mut )?\[u8\] as Into<&(?:mut )?GenericArray<u8, U(\d+)>>>|<&(?:mut )?GenericArray<u8, U(\d+)> as From<&(?:mut )?\[u8\]>>", sf)
        if m:
            n = int(m.group(1) or m.group(2))
            cond = B("Eq", L(), K(n))
            ok = ai.tri(st, cond) is True
            ai.site(bi, "call", p, ok, f"&[u8] -> &GenericArray<u8, U{n}> panics unless the slice is exactly {n} bytes: " + show(ai, st, cond))
            ai.refine(st, cond, True)
            return pure(("s", K(n)))
    if p in ("core::convert::From::from", "core::convert::Into::into") and dty is not None:
        dt = ai.ty(dty)
        if dt["k"] == "adt" and dt["path"] in ("alloc::vec::Vec", "alloc::boxed::Box") and (is_slice_ref(ai, t0) or (isinstance(ai.load(st, a0), tuple) and ai.load(st, a0) and ai.load(st, a0)[0] in ("vec", "s", "a"))):
            return pure(("vec" if dt["path"] == "alloc::vec::Vec" else "s", L()))
        if is_slice_ref(ai, dty) and isinstance(ai.load(st, a0), tuple) and ai.load(st, a0) and ai.load(st, a0)[0] in ("s", "a", "vec"):
            return pure(("s", L()))
    # ---- chunking / splitting (non-panicking forms)
    if last in ("as_chunks", "as_chunks_mut", "as_rchunks") and "slice" in p:
        n = gen_int(full, last)
        if n:
            ln = L()
            hi = ai.iv(st, ln)[1]
            q = ai.fresh(st, key + ("q",), 0, hi // n, (0, ISIZE_MAX))
            r = ai.fresh(st, key + ("r",), 0, n - 1, (0, n - 1))
            return pure(("t", (("s", q), ("s", r)) if last != "as_rchunks" else (("s", r), ("s", q)), ""))
    if last in ("split_first_chunk", "split_first_chunk_mut", "split_last_chunk", "split_last_chunk_mut") and "slice" in p:
        n = gen_int(full, last)
        if n is not None:
            ln = L()
            rest = ("s", ladd(ln, K(n), -1))
            pay = ("t", (("s", K(n)), rest) if "first" in last else (rest, ("s", K(n))), "")
            return pure(("o", 1, pay, B("Ge", ln, K(n))))
    if last in ("first_chunk", "first_chunk_mut", "last_chunk", "last_chunk_mut") and "slice" in p:
        n = gen_int(full, last)
        if n is not None:
            return pure(("o", 1, ("s", K(n)), B("Ge", L(), K(n))))
    if last in ("split_at", "split_at_mut", "split_at_checked", "split_at_mut_checked") and ("slice" in p or "str" in p):
        ln = L()
        mid = args[1]
        if is_lin(mid):
            cond = B("Le", mid, ln)
            pay = ("t", (("s", mid), ("s", ladd(ln, mid, -1))), "")
            if last.endswith("checked"):
                return pure(("o", 1, pay, cond))
            ok = ai.tri(st, cond) is True
            ai.site(bi, "call", p, ok, "split_at: mid <= len not provable")
            ai.refine(st, cond, True)
            return pure(pay)
        if not last.endswith("checked"):
            ai.site(bi, "call", p, False, "split_at: mid unknown")
        return NotImplemented
    if last in ("get", "get_mut") and ("slice" in p or "str" in p or "Vec" in p) and len(args) == 2:
        ln = L()
        cond, nl = range_of(ai, st, args[1], ln, key)
        if cond is not None:
            pay = ("s", nl) if nl is not None else ai.top(st, dty, key + ("g",))
            if nl is None and isinstance(pay, tuple) and pay and pay[0] == "o":
                pay = pay[2]
            return pure(("o", 1, pay, cond))
        return pure(NotImplemented)
    # ---- panicking indexing
    if p in ("core::ops::index::Index::index", "core::ops::index::IndexMut::index_mut"):
        ln = L()
        cond, nl = range_of(ai, st, args[1], ln, key)
        if cond is None:
            ai.site(bi, "call", p, False, "index: range not understood")
            return pure(NotImplemented)
        ok = ai.tri(st, cond) is True
        ai.site(bi, "call", p, ok, "index: bounds not provable: " + show(ai, st, cond))
        ai.refine(st, cond, True)
        if nl is not None:
            return pure(("s", nl))
        return pure(NotImplemented)
    if last in ("copy_from_slice", "clone_from_slice") and "slice" in p:
        a, b = L(0), L(1)
        cond = B("Eq", a, b)
        ok = ai.tri(st, cond) is True
        ai.site(bi, "call", p, ok, "copy_from_slice: equal lengths not provable: " + show(ai, st, cond))
        ai.refine(st, cond, True)
        ce["_pure"] = True
        return None
    # ---- fallible conversions
    if p in ("core::convert::TryInto::try_into", "core::convert::TryFrom::try_from"):
        m = re.search(r"(?:TryInto|TryFrom)<(&(?:mut )?)?\[u8; (\d+)\]>", full) if p.endswith("try_into") else re.search(r"<(&(?:mut )?)?\[u8; (\d+)\] as", full)
        if m:
            n = int(m.group(2))
            src = ai.load(st, a0)
            if is_slice_ref(ai, t0) or (isinstance(src, tuple) and src and src[0] in ("s", "vec", "a")):
                pay = ("s", K(n)) if m.group(1) else ("a", n)
                return pure(("o", 0, pay, B("Eq", L(), K(n))))
        return NotImplemented
    if p in ("core::result::Result::<T, E>::unwrap", "core::result::Result::<T, E>::expect", "core::option::Option::<T>::unwrap", "core::option::Option::<T>::expect"):
        v = a0
        ok = isinstance(v, tuple) and v and v[0] == "o" and v[3] is not None and ai.tri(st, v[3]) is True
        ai.site(bi, "call", p, ok, "receiver not provably " + ("Ok" if "Result" in p else "Some") + (": " + show(ai, st, v[3]) if isinstance(v, tuple) and v and v[0] == "o" and v[3] is not None else ""))
        if isinstance(v, tuple) and v and v[0] == "o":
            if v[3] is not None:
                ai.refine(st, v[3], True)
            return pure(v[2])
        return pure(NotImplemented)
    if p in ("core::option::Option::<T>::ok_or", "core::option::Option::<T>::ok_or_else") and isinstance(a0, tuple) and a0 and a0[0] == "o":
        return pure(("o", 0, a0[2], a0[3]))
    if p in ("core::result::Result::<T, E>::map_err", "core::result::Result::<T, E>::or", "core::result::Result::<T, E>::or_else") and isinstance(a0, tuple) and a0 and a0[0] == "o":
        return ("o", 0, a0[2], a0[3]) if p.endswith("map_err") else NotImplemented
    if p in ("core::result::Result::<T, E>::map", "core::option::Option::<T>::map", "core::option::Option::<T>::copied", "core::option::Option::<T>::cloned",
             "core::result::Result::<T, E>::inspect_err", "core::option::Option::<T>::as_ref", "core::result::Result::<T, E>::as_ref") and isinstance(ai.load(st, a0), tuple) and ai.load(st, a0) and ai.load(st, a0)[0] == "o":
        v0 = ai.load(st, a0)
        keep = v0[2] if not p.endswith("::map") else None
        return ("o", v0[1], keep, v0[3])
    if p == "core::result::Result::<T, E>::ok" and isinstance(a0, tuple) and a0 and a0[0] == "o":
        return pure(("o", 1, a0[2], a0[3]))
    if p == "core::ops::try_trait::FromResidual::from_residual" and dty is not None:
        dt = ai.ty(dty)
        from absint import GOOD
        if dt["k"] == "adt" and dt["path"] in GOOD:
            return pure(("o", GOOD[dt["path"]], None, FALSE))
    if p == "core::ops::try_trait::Try::branch" and isinstance(a0, tuple) and a0 and a0[0] == "o":
        return pure(("o", 0, a0[2], a0[3]))
    if p in ("core::option::Option::<T>::is_some", "core::result::Result::<T, E>::is_ok") and isinstance(a0, tuple):
        v = ai.load(st, a0)
        if isinstance(v, tuple) and v and v[0] == "o" and v[3] is not None:
            return pure(v[3])
    if p in ("core::option::Option::<T>::is_none", "core::result::Result::<T, E>::is_err") and isinstance(a0, tuple):
        v = ai.load(st, a0)
        if isinstance(v, tuple) and v and v[0] == "o" and v[3] is not None:
            return pure(("b", "not", v[3], None))
    # ---- integer helpers
    m = re.match(r"core::num::<impl (\w+)>::(\w+)$", p)
    if m and len(args) >= 1 and is_lin(a0):
        tyn, op = m.group(1), m.group(2)
        r = INT_RANGE.get(tyn)
        b = args[1] if len(args) > 1 else None
        if op in ("checked_sub", "checked_add") and is_lin(b) and r:
            res = ladd(a0, b, -1 if op == "checked_sub" else 1)
            return pure(("o", 1, res, ("b", "and", B("Ge", res, K(r[0])), B("Le", res, K(r[1])))))
        if op in ("saturating_sub", "saturating_add") and is_lin(b) and r:
            res = ladd(a0, b, -1 if op == "saturating_sub" else 1)
            lo, hi = ai.iv(st, res)
            if lo >= r[0] and hi <= r[1]:
                return pure(res)
            return pure(ai.fresh(st, key, min(max(lo, r[0]), r[1]), max(min(hi, r[1]), r[0]), r))
        if op in ("min", "max") and is_lin(b):
            ia, ib = ai.iv(st, a0), ai.iv(st, b)
            f = min if op == "min" else max
            return pure(ai.fresh(st, key, f(ia[0], ib[0]), f(ia[1], ib[1]), r))
        if op in ("div_ceil", "next_multiple_of", "pow", "abs_diff", "wrapping_sub", "wrapping_add", "wrapping_mul", "count_ones", "leading_zeros", "trailing_zeros",
                  "to_be_bytes", "to_le_bytes", "from_be_bytes", "from_le_bytes", "checked_mul", "checked_div", "is_power_of_two", "swap_bytes", "to_be", "to_le"):
            return pure(NotImplemented)
    if p == "core::ops::range::RangeInclusive::<Idx>::new" and len(args) == 2 and is_lin(a0) and is_lin(args[1]):
        # lo..=hi built at run time (a `let range = LO..=HI;`): the same (start, end) pair a constant range is read as
        return pure(("t", (a0, args[1]), "core::ops::range::RangeInclusive"))
    if p in ("core::ops::range::RangeInclusive::<Idx>::contains", "core::ops::range::Range::<Idx>::contains") and len(args) == 2:
        r = ai.load(st, a0)
        x = ai.load(st, args[1])
        if isinstance(r, tuple) and r and r[0] == "t" and len(r[1]) >= 2 and is_lin(r[1][0]) and is_lin(r[1][1]) and is_lin(x):
            hi_op = "Le" if "Inclusive" in p else "Lt"
            return pure(("b", "and", B("Ge", x, r[1][0]), B(hi_op, x, r[1][1])))
        return pure(NotImplemented)
    if p in ("core::cmp::Ord::min", "core::cmp::Ord::max", "core::cmp::min", "core::cmp::max") and len(args) == 2 and is_lin(a0) and is_lin(args[1]):
        ia, ib = ai.iv(st, a0), ai.iv(st, args[1])
        f = min if p.endswith("min") else max
        return pure(ai.fresh(st, key, f(ia[0], ib[0]), f(ia[1], ib[1])))
    if p == "core::mem::size_of":
        ga = [a for a in ce.get("args", []) if isinstance(a, dict) and "t" in a]
        n = ai.sizeof(ga[0]["t"]) if ga else None
        return pure(K(n) if n is not None else NotImplemented)
    # ---- raw pointers into buffers: remember how many bytes are behind the pointer
    if last in ("as_ptr", "as_mut_ptr") and len(args) == 1 and ("slice" in p or "Vec" in p or "array" in p or "str" in p):
        return pure(("ptrto", L()))
    if p in ("core::ptr::mut_ptr::<impl *mut T>::add", "core::ptr::const_ptr::<impl *const T>::add") and isinstance(a0, tuple) and a0 and a0[0] == "ptrto" and is_lin(args[1]):
        return pure(("ptrto", ladd(a0[1], args[1], -1)))
    if p in ("core::ptr::mut_ptr::<impl *mut T>::cast", "core::ptr::const_ptr::<impl *const T>::cast", "core::ptr::mut_ptr::<impl *mut T>::cast_const",
             "core::ptr::const_ptr::<impl *const T>::cast_mut") and isinstance(a0, tuple) and a0 and a0[0] == "ptrto":
        return pure(a0)
    if p == "alloc::vec::Vec::<T, A>::reserve" and isinstance(a0, tuple) and a0 and a0[0] in ("r", "s") and is_lin(args[1]):
        ai.spare = getattr(ai, "spare", {})
        ai.spare[a0] = ai.iv(st, args[1])[0]
        ce["_pure"] = True
        return None
    if p == "alloc::vec::Vec::<T, A>::spare_capacity_mut" and isinstance(a0, tuple) and a0 and a0[0] in ("r", "s"):
        n = getattr(ai, "spare", {}).get(a0, 0)
        return pure(("s", ai.fresh(st, key + ("spare",), n, ISIZE_MAX, (0, ISIZE_MAX))))
    # ---- Vec
    if p in ("alloc::vec::Vec::<T>::new", "alloc::vec::Vec::<T>::with_capacity", "alloc::string::String::new", "alloc::string::String::with_capacity"):
        return pure(("vec", K(0)))
    if p == "alloc::vec::from_elem" and len(args) == 2 and is_lin(args[1]):
        return pure(("vec", args[1]))
    if p in ("alloc::vec::Vec::<T, A>::extend_from_slice", "alloc::string::String::push_str", "alloc::vec::Vec::<T, A>::push", "alloc::string::String::push"):
        if isinstance(a0, tuple) and a0 and a0[0] == "r":
            cur = st.vals.get(a0[1])
            if isinstance(cur, tuple) and cur and cur[0] == "vec" and is_lin(cur[1]):
                add = L(1) if last in ("extend_from_slice", "push_str") else K(1)
                nl = ladd(cur[1], add)
                if ai.iv(st, nl)[1] > ISIZE_MAX:
                    nl = ai.fresh(st, key + ("len",), ai.iv(st, cur[1])[0], ISIZE_MAX, (0, ISIZE_MAX))
                st.vals[a0[1]] = ("vec", nl)
                ce["_pure"] = True
                return None
        return NotImplemented
    if p in ("alloc::vec::Vec::<T, A>::truncate",) and isinstance(a0, tuple) and a0 and a0[0] == "r" and is_lin(args[1]):
        cur = st.vals.get(a0[1])
        if isinstance(cur, tuple) and cur and cur[0] == "vec":
            ia, ib = ai.iv(st, cur[1]), ai.iv(st, args[1])
            st.vals[a0[1]] = ("vec", ai.fresh(st, key + ("len",), min(ia[0], ib[0]), min(ia[1], ib[1]), (0, ISIZE_MAX)))
            ce["_pure"] = True
            return None
    if p == "core::clone::Clone::clone" and isinstance(a0, tuple):
        v = ai.load(st, a0)
        if isinstance(v, tuple) and v and v[0] in ("vec", "a", "t", "o") or is_lin(v):
            return pure(v)
        return pure(NotImplemented)
    # ---- explicit panics
    if p.startswith("core::panicking::") or p in ("core::option::unwrap_failed", "core::result::unwrap_failed", "core::option::expect_failed",
                                                    "core::slice::index::slice_index_fail", "std::rt::begin_panic", "core::panicking::panic_explicit"):
        ai.site(bi, "call", p, False, "explicit panic reachable in the abstract semantics")
        return "diverge"
    if p in ("core::intrinsics::abort", "std::process::abort", "std::process::exit", "core::intrinsics::unreachable", "core::hint::unreachable_unchecked"):
        ai.site(bi, "call", p, False, "abort/unreachable_unchecked reachable")
        return "diverge"
    # ---- workspace callee: analyse in context
    if ai.host is not None:
        r = ai.host.call(ai, st, bi, ce, args, atys, dty, key)
        if r is not NotImplemented:
            return r
    # library contract models that return a Result whose Ok-ness depends on lengths
    from absint_contracts import contract
    r = contract(ai, st, bi, ce, args, atys, dty, key, L)
    return r

def type_len(ai, tid):
    if tid is None:
        return None
    t = ai.ty(tid)
    for _ in range(3):
        if t["k"] in ("ref", "ptr"):
            t = ai.ty(t["inner"])
    if t["k"] == "array" and isinstance(t.get("len"), int):
        return K(t["len"])
    if t["k"] == "adt" and t["path"].endswith("GenericArray"):
        from facts import short
        m = re.search(r"GenericArray<u8, U(\d+)>", short(t["s"]))
        if m:
            return K(int(m.group(1)))
    return None

def show(ai, st, b):
    if not (isinstance(b, tuple) and b and b[0] == "b"):
        return "?"
    if b[1] in ("and", "or"):
        return "(" + show(ai, st, b[2]) + " " + b[1] + " " + show(ai, st, b[3]) + ")"
    if b[1] == "not":
        return "!" + show(ai, st, b[2])
    if b[1] == "const":
        return str(b[2])
    x, y = b[2], b[3]
    return f"{ai.iv(st, x) if is_lin(x) else '?'} {b[1]} {ai.iv(st, y) if is_lin(y) else '?'}"
