"""Library contracts used by C04: for calls into dependencies that return Result/Option and whose success
depends only on argument lengths, the condition under which they succeed (read from the dependency's
source in the cargo registry; quoted in REASONS).  Everything else returns NotImplemented (= unknown value)."""
import re
from absint import K, is_lin, ladd, lconst
from facts import short

TRUE = ("b", "const", True, None)
def B(op, a, b):
    return ("b", op, a, b)

HASHLEN = {"Sha384": 48, "Sha512": 64, "Sha256": 32}

REASONS = {
    "hmac": "hmac 0.12 `Hmac::new_from_slice` accepts keys of any length (longer keys are hashed): never Err",
    "blake2": "blake2 0.10 macros.rs: `new_from_slice` returns Err only when key.len() > 64",
    "hkdf": "hkdf 0.12 `expand`/`expand_multi_info` return Err only when okm.len() > 255 * HashLen",
    "pbkdf2": "pbkdf2 0.12 `pbkdf2_array` fails only if the PRF rejects the key; HMAC accepts any key",
    "sodium-stream-key": "libsodium-rs 0.2 crypto_stream::Key::from_slice: Err iff len != 32",
    "sodium-nonce": "libsodium-rs 0.2 xchacha20::Nonce::try_from_slice: Err iff len != 24",
    "sodium-generichash": "libsodium-rs 0.2 crypto_generichash::State::new: Err iff outlen not in 16..=64 or key present with len not in 16..=64",
    "zerocopy": "zerocopy FromBytes::{ref,mut}_from_{bytes,prefix,suffix} on an Unaligned type: Err iff len != / < size_of::<T>()",
}

def sized_target(ai, dty):
    """size_of the T in Result<&T, _> / Result<(&T, &[u8]), _> for a workspace zerocopy struct."""
    t = ai.ty(dty)
    def find(tid, d=0):
        t = ai.ty(tid)
        if t["k"] == "adt" and t.get("crate", "").startswith("paseto"):
            a = ai.w.adt_layout(t.get("crate"), t["path"])
            if a and isinstance(a.get("size"), int) and a.get("align") == 1:
                return a["size"]
        if d > 4:
            return None
        for sub in ([t.get("inner")] if t["k"] in ("ref", "ptr") else []) + [x.get("t") for x in t.get("args", []) if isinstance(x, dict)] + list(t.get("elems", [])):
            if sub is not None:
                r = find(sub, d + 1)
                if r is not None:
                    return r
        return None
    return find(dty)

LC_OUTLEN = {"SHA384": 48, "SHA512": 64, "SHA256": 32, "HMAC_SHA384": 48, "HMAC_SHA512": 64, "HMAC_SHA256": 32}

EARLY = {"aws_lc_rs::digest::Context::new", "aws_lc_rs::digest::Context::finish", "aws_lc_rs::digest::digest", "aws_lc_rs::hmac::Key::new", "aws_lc_rs::hmac::Context::with_key",
         "aws_lc_rs::hmac::Context::sign", "ed25519_dalek::verifying::VerifyingKey::as_bytes", "curve25519_dalek::edwards::CompressedEdwardsY::decompress",
         "libsodium_rs::crypto_generichash::State::finalize", "libsodium_rs::crypto_stream::xchacha20::stream_xor", "libsodium_rs::random::bytes",
         "aws_lc_sys::x86_64_unknown_linux_gnu_crypto::EC_group_p384", "core::ptr::const_ptr::<impl *const T>::is_null", "core::ptr::mut_ptr::<impl *mut T>::is_null",
         "ed25519_dalek::hazmat::raw_sign_byupdate", "key::HasKey::decode", "paseto_core::key::HasKey::decode"}

REASONS.update({
    "argon2-pcost": "argon2 0.5.3 params.rs: `if m_cost < p_cost * 8` precedes the MAX_P_COST check; the multiplication overflows u32 for p_cost >= 2^29",
    "lc-outlen": "aws-lc-rs digest::Context::finish / hmac::Context::sign return exactly the algorithm's output length (SHA-384: 48 bytes); the algorithm is a static named at the construction site",
    "ed-decompress": "ed25519_dalek::VerifyingKey can only be built by from_bytes, which decompresses the same 32 bytes; as_bytes() returns those bytes, so decompress() of them is Some",
    "sodium-finalize": "libsodium-rs crypto_generichash::State::finalize returns a Vec of the output_len given to State::new",
    "sodium-stream-xor": "libsodium-rs xchacha20::stream_xor returns a Vec as long as its input",
    "lc-group": "aws-lc EC_group_p384() returns a pointer to a built-in static group, never NULL",
    "raw-sign": "ed25519_dalek::hazmat::raw_sign_byupdate returns Err only when the message closure returns Err",
    "der-encode": "DER-encoding an in-memory RSA key (pkcs1/spki to_*_der) fails only on length overflow or allocation failure, not on key contents",
    "local-decode": "Key::from([u8; 32]) calls V::decode on exactly 32 bytes; every HasKey<Local>::decode in the workspace is analysed with a 32-byte argument and must return Ok",
})

def lib_static(v):
    return v[1].rsplit("::", 1)[-1] if isinstance(v, tuple) and v and v[0] == "lib" and isinstance(v[1], str) and v[1].startswith("static:") else None

def early(ai, st, bi, ce, args, atys, dty, key, L):
    p = ce["path"]
    full = short(ce.get("full", ""))
    a0 = ai.load(st, args[0]) if args else None
    if p in ("aws_lc_rs::digest::Context::new", "aws_lc_rs::hmac::Key::new", "aws_lc_rs::digest::digest"):
        # (digest::digest is the one-shot form: Context::new(alg) + update + finish)
        n = LC_OUTLEN.get(lib_static(a0) or "")
        return ("lib", "outlen", n) if n else NotImplemented
    if p in ("aws_lc_rs::digest::Context::finish", "aws_lc_rs::hmac::Context::with_key", "aws_lc_rs::hmac::Context::sign"):
        return a0 if (isinstance(a0, tuple) and a0 and a0[0] == "lib" and a0[1] == "outlen") else NotImplemented
    if p == "ed25519_dalek::verifying::VerifyingKey::as_bytes":
        return ("lib", "edpk", 32)
    if p == "curve25519_dalek::edwards::CompressedEdwardsY::decompress":
        if isinstance(a0, tuple) and a0 and a0[0] == "t" and a0[2].endswith("CompressedEdwardsY") and a0[1] and a0[1][0] == ("lib", "edpk", 32):
            return ("o", 1, None, TRUE)
        return NotImplemented
    if p == "libsodium_rs::crypto_generichash::State::finalize":
        if isinstance(a0, tuple) and a0 and a0[0] == "lib" and a0[1] == "gh":
            return ("vec", K(a0[2]))
        return NotImplemented
    if p == "libsodium_rs::crypto_stream::xchacha20::stream_xor":
        return ("o", 0, ("vec", L(0)), None)
    if p == "libsodium_rs::random::bytes" and is_lin(args[0]):
        return ("vec", args[0])
    if p.endswith("::EC_group_p384"):
        return ("lib", "nonnull")
    if p.endswith("::is_null"):
        if isinstance(a0, tuple) and a0 and a0[0] == "lib" and a0[1] == "nonnull":
            return ("b", "const", False, None)
        return NotImplemented
    if p == "ed25519_dalek::hazmat::raw_sign_byupdate" and ai.host is not None:
        for tid in atys:
            t = ai.ty(tid) if tid is not None else None
            if t and t["k"] == "closure":
                f = ai.w.find_fn(ai.cr.name, t["path"])
                if f is not None and f.get("body"):
                    r = ai.host.analyse(f, None, ai.depth + 1)
                    if r and r[0] == "O" and r[3] is True:
                        return ("o", 0, None, TRUE)
        return NotImplemented
    if p.endswith("key::HasKey::decode") and ai.host is not None and "Local>" in full:
        impls = [f for (c, k), f in ai.w.fn_index.items() if k == f.get("key") and f.get("body") and "HasKey<paseto_core::version::Local> for" in k and k.endswith("::decode")]
        if len(impls) < 6:
            return NotImplemented
        closed = tuple(ai.close(st, a) for a in args)
        allok = True
        for f in impls:
            r = ai.host.analyse(f, closed, ai.depth + 1)
            allok = allok and bool(r and r[0] == "O" and r[3] is True)
        return ("o", 0, None, TRUE if allok else None)
    return NotImplemented

def contract(ai, st, bi, ce, args, atys, dty, key, L):
    p = ce["path"]
    full = short(ce.get("full", ""))
    if p == "argon2::params::ParamsBuilder::p_cost" and len(args) == 2:
        # argon2 0.5.3 Params::new evaluates `p_cost * 8` (u32) BEFORE it range-checks p_cost: 2^29 and above overflow, which
        # panics in overflow-checked builds (confirmed: findings/demo d10)
        ok = is_lin(args[1]) and ai.iv(st, args[1])[1] < 2 ** 29
        ai.site(bi, "call", p, ok, "lane count reaching argon2::ParamsBuilder::p_cost is not bounded below 2^29 (argon2 multiplies it by 8 before its own range check): "
                + (str(ai.iv(st, args[1])) if is_lin(args[1]) else "unknown"))
        return NotImplemented
    if p in ("generic_array::GenericArray::<T, N>::from_slice", "generic_array::GenericArray::<T, N>::from_mut_slice") and len(args) == 1:
        # panics iff the slice is not exactly N elements long
        from facts import short as _short
        m_ = re.search(r"GenericArray::<u8, U(\d+)>::from_(mut_)?slice", _short(ce.get("r_full") or ce.get("full", "")))
        n_ = int(m_.group(1)) if m_ else None
        ln = L(0)
        ok = n_ is not None and is_lin(ln) and ai.iv(st, ln) == (n_, n_)
        ai.site(bi, "call", p, ok, f"GenericArray::from_slice needs exactly {n_} bytes, the argument's length is "
                + (str(ai.iv(st, ln)) if is_lin(ln) else "unknown"))
        return NotImplemented
    if p.endswith(("::to_public_key_der", "::to_pkcs1_der")) and ce.get("crate") in ("spki", "pkcs1"):
        return ("o", 0, None, TRUE)
    if p == "digest::mac::Mac::new_from_slice":
        if "Hmac<" in full:
            return ("o", 0, None, TRUE)
        if "Blake2bMac<" in full:
            return ("o", 0, None, B("Le", L(0), K(64)))
        return NotImplemented
    if p in ("hkdf::Hkdf::<H, I>::expand", "hkdf::Hkdf::<H, I>::expand_multi_info"):
        m = re.search(r"Hkdf::<(\w+)", full)
        h = HASHLEN.get(m.group(1)) if m else None
        if h:
            return ("o", 0, None, B("Le", L(len(args) - 1), K(255 * h)))
        return NotImplemented
    if p == "pbkdf2::pbkdf2_array" and "Hmac<" in full:
        return ("o", 0, ai.top(st, dty, key)[2] if isinstance(ai.top(st, dty, key), tuple) else None, TRUE)
    if p == "libsodium_rs::crypto_stream::Key::from_slice":
        return ("o", 0, None, B("Eq", L(0), K(32)))
    if p == "libsodium_rs::crypto_stream::xchacha20::Nonce::try_from_slice":
        return ("o", 0, None, B("Eq", L(0), K(24)))
    if p == "libsodium_rs::crypto_generichash::State::new":
        k, n = args[0], args[1]
        cond = ("b", "and", B("Ge", n, K(16)), B("Le", n, K(64))) if is_lin(n) else None
        if cond is not None and isinstance(k, tuple) and k and k[0] == "o":
            if k[3] == ("b", "const", False, None):
                return ("o", 0, ("lib", "gh", lconst(n)) if lconst(n) is not None else None, cond)
            kl = ai.length(st, k[2], None, key + ("kl",)) if k[2] is not None else None
            if kl is not None:
                kc = ("b", "and", B("Ge", kl, K(16)), B("Le", kl, K(64)))
                return ("o", 0, ("lib", "gh", lconst(n)) if lconst(n) is not None else None, ("b", "and", cond, kc))
        return NotImplemented
    if p.startswith("zerocopy::FromBytes::"):
        last = p.rsplit("::", 1)[-1]
        n = sized_target(ai, dty)
        if n is None:
            return NotImplemented
        ln = L(0)
        if last in ("ref_from_bytes", "mut_from_bytes"):
            return ("o", 0, None, B("Eq", ln, K(n)))
        if last in ("ref_from_prefix", "mut_from_prefix"):
            return ("o", 0, ("t", (None, ("s", ladd(ln, K(n), -1))), ""), B("Ge", ln, K(n)))
        if last in ("ref_from_suffix", "mut_from_suffix"):
            return ("o", 0, ("t", (("s", ladd(ln, K(n), -1)), None), ""), B("Ge", ln, K(n)))
    return NotImplemented
