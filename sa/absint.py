"""Interval / slice-length abstract interpretation of MIR bodies (used by C04).

A forward, flow-sensitive worklist analysis per function.  Integers are linear forms over symbols whose
intervals live in the state (so branch conditions refine them); slices/arrays/Vecs carry the linear form of
their length; Option/Result/ControlFlow values carry the payload of their good variant together with the
condition under which they are that variant (`split_first_chunk::<N>` is Some iff len >= N).  Nothing here
executes repo code: it is a static over-approximation, joins at merges, widening on loops.

Every panic-capable construct met during the analysis is reported through `self.sites[(bb, kind, name)]`
with a verdict: True (proved unreachable / precondition proved), or a string explaining what could not be proved.
A site visited several times (loop, several contexts) keeps the conjunction.
"""
import re
from facts import short

U64 = 2 ** 64 - 1
ISIZE_MAX = 2 ** 63 - 1
INT_RANGE = {"u8": (0, 255), "u16": (0, 65535), "u32": (0, 2 ** 32 - 1), "u64": (0, U64), "usize": (0, U64), "u128": (0, 2 ** 128 - 1),
             "i8": (-128, 127), "i16": (-32768, 32767), "i32": (-2 ** 31, 2 ** 31 - 1), "i64": (-2 ** 63, 2 ** 63 - 1),
             "isize": (-2 ** 63, 2 ** 63 - 1), "i128": (-2 ** 127, 2 ** 127 - 1), "bool": (0, 1), "char": (0, 0x10ffff)}

# ---------------------------------------------------------------- linear forms
def K(c):
    return ("i", c, ())

def S(sym):
    return ("i", 0, ((sym, 1),))

def is_lin(v):
    return isinstance(v, tuple) and v and v[0] == "i"

def ladd(a, b, kb=1):
    d = dict(a[2])
    for s, k in b[2]:
        d[s] = d.get(s, 0) + kb * k
    return ("i", a[1] + kb * b[1], tuple(sorted(((s, k) for s, k in d.items() if k), key=repr)))

def lscale(a, k):
    return ("i", a[1] * k, tuple((s, c * k) for s, c in a[2])) if k else K(0)

def lconst(a):
    return a[1] if is_lin(a) and not a[2] else None

class State:
    __slots__ = ("vals", "syms")
    def __init__(self, vals=None, syms=None):
        self.vals = vals if vals is not None else {}
        self.syms = syms if syms is not None else {}
    def copy(self):
        return State(dict(self.vals), dict(self.syms))

def mentions(v, sym):
    if not isinstance(v, tuple):
        return False
    if v and v[0] == "i":
        return any(s == sym for s, _ in v[2])
    return any(mentions(x, sym) for x in v)

GOOD = {"core::option::Option": 1, "core::result::Result": 0, "core::ops::control_flow::ControlFlow": 0}

class Summary:
    """Closed (symbol-free) description of a value: used across function boundaries."""

class AbsInt:
    def __init__(self, world, fn, args=None, depth=0, host=None, subst=None):
        self.subst = subst or {}
        self.w = world
        self.fn = fn
        self.cr = fn["_crate"]
        self.body = fn["body"]
        self.depth = depth
        self.host = host          # C04 engine: provides call(callee_fn, arg_closed) -> closed return and record()
        self.symrange = {}
        self.sites = {}
        self.args = args
        self.ret = None
        self.symdef = {}
        self.visits = {}
        self.notes = []
        self.callrets = {}
        self.ret_cases = []

    # ------------------------------------------------------------ types
    def ty(self, tid):
        return self.cr.types[tid]

    def int_range(self, tid):
        t = self.ty(tid)
        if t["k"] == "prim":
            return INT_RANGE.get(t["s"])
        return None

    def fresh(self, st, key, lo, hi, tyr=None):
        if key in st.syms or key in self.symrange:
            for l, v in list(st.vals.items()):
                if mentions(v, key):
                    st.vals[l] = None
        self.symrange[key] = tyr or (lo, hi)
        st.syms[key] = (lo, hi)
        return S(key)

    def top(self, st, tid, key, d=0):
        """Most general abstract value of a type."""
        t = self.ty(tid)
        k = t["k"]
        if k == "prim":
            r = INT_RANGE.get(t["s"])
            if r and t["s"] != "bool":
                return self.fresh(st, key, r[0], r[1])
            return None
        if k in ("ref", "ptr"):
            it = self.ty(t["inner"])
            if it["k"] == "array" and isinstance(it.get("len"), int):
                return ("s", K(it["len"]))
            if it["k"] in ("slice",) or (it["k"] == "prim" and it["s"] == "str") or it["s"] == "str":
                return ("s", self.fresh(st, key + ("len",), 0, ISIZE_MAX, (0, ISIZE_MAX)))
            if it["k"] == "adt" and it["path"] == "alloc::vec::Vec":
                return ("s", self.fresh(st, key + ("len",), 0, ISIZE_MAX, (0, ISIZE_MAX)))
            return None
        if k == "array" and isinstance(t.get("len"), int):
            return ("a", t["len"])
        if k == "tuple" and d < 3:
            return ("t", tuple(self.top(st, e, key + (i,), d + 1) for i, e in enumerate(t["elems"])), "")
        if k == "adt":
            if t["path"] in GOOD and d < 3:
                a0 = t["args"][0] if t["path"] != "core::ops::control_flow::ControlFlow" else (t["args"][1] if len(t["args"]) > 1 else None)
                pay = self.top(st, a0["t"], key + ("p",), d + 1) if isinstance(a0, dict) and "t" in a0 else None
                return ("o", GOOD[t["path"]], pay, None)
            if t["path"] in ("alloc::vec::Vec", "alloc::string::String"):
                return ("vec", self.fresh(st, key + ("len",), 0, ISIZE_MAX, (0, ISIZE_MAX)))
            if t["path"] == "alloc::boxed::Box" and t["args"] and "t" in t["args"][0]:
                it = self.ty(t["args"][0]["t"])
                if it["k"] == "slice":
                    return ("s", self.fresh(st, key + ("len",), 0, ISIZE_MAX, (0, ISIZE_MAX)))
        return None

    # ------------------------------------------------------------ intervals
    def sym_iv(self, st, s):
        return st.syms.get(s) or self.symrange.get(s) or (-(2 ** 200), 2 ** 200)

    def iv(self, st, v):
        if not is_lin(v):
            return None
        lo = hi = v[1]
        for s, k in v[2]:
            a, b = self.sym_iv(st, s)
            if k > 0:
                lo += k * a
                hi += k * b
            else:
                lo += k * b
                hi += k * a
        # div/rem pattern: x - c*(x/c) lies in [0, c-1]
        return (lo, hi)

    def tri(self, st, b):
        """Three-valued truth of a boolean abstract value."""
        if isinstance(b, tuple) and b and b[0] == "b":
            _, op, x, y = b
            if op == "const":
                return x
            if op == "implied":
                # "the value is good ONLY IF x": false x means not good; true x says nothing
                return False if self.tri(st, x) is False else None
            if op == "not":
                r = self.tri(st, x)
                return None if r is None else (not r)
            if op in ("and", "or"):
                p, q = self.tri(st, x), self.tri(st, y)
                if op == "and":
                    return False if (p is False or q is False) else (True if (p and q) else None)
                return True if (p is True or q is True) else (False if (p is False and q is False) else None)
            if not (is_lin(x) and is_lin(y)):
                return None
            d = ladd(x, y, -1)
            lo, hi = self.iv(st, d)
            if op == "Lt":
                return True if hi < 0 else (False if lo >= 0 else None)
            if op == "Le":
                return True if hi <= 0 else (False if lo > 0 else None)
            if op == "Gt":
                return True if lo > 0 else (False if hi <= 0 else None)
            if op == "Ge":
                return True if lo >= 0 else (False if hi < 0 else None)
            if op == "Eq":
                return True if lo == hi == 0 else (False if (lo > 0 or hi < 0) else None)
            if op == "Ne":
                return False if lo == hi == 0 else (True if (lo > 0 or hi < 0) else None)
        return None

    def refine(self, st, b, truth):
        """Assume boolean value b == truth; narrows symbol intervals in st. Returns False if infeasible."""
        if not (isinstance(b, tuple) and b and b[0] == "b"):
            return True
        _, op, x, y = b
        if op == "const":
            return x == truth
        if op == "implied":
            return self.refine(st, x, True) if truth else True
        if op == "not":
            return self.refine(st, x, not truth)
        if op == "and":
            if truth:
                return self.refine(st, x, True) and self.refine(st, y, True)
            return True
        if op == "or":
            if not truth:
                return self.refine(st, x, False) and self.refine(st, y, False)
            return True
        if not (is_lin(x) and is_lin(y)):
            return True
        if not truth:
            op = {"Lt": "Ge", "Le": "Gt", "Gt": "Le", "Ge": "Lt", "Eq": "Ne", "Ne": "Eq"}[op]
        d = ladd(x, y, -1)            # d op 0
        for s, k in d[2]:
            rest = ("i", d[1], tuple((s2, k2) for s2, k2 in d[2] if s2 != s))
            rlo, rhi = self.iv(st, rest)
            lo, hi = self.sym_iv(st, s)
            # k*s + rest op 0
            def ceil_div(a, b):
                return -((-a) // b)
            if op in ("Ge", "Gt", "Eq"):
                bound = -rhi + (1 if op == "Gt" else 0)     # k*s >= bound
                if k > 0:
                    lo = max(lo, ceil_div(bound, k))
                else:
                    hi = min(hi, bound // k if False else (-bound) // (-k))
            if op in ("Le", "Lt", "Eq"):
                bound = -rlo - (1 if op == "Lt" else 0)      # k*s <= bound
                if k > 0:
                    hi = min(hi, bound // k)
                else:
                    lo = max(lo, ceil_div(-bound, -k))
            if lo > hi:
                return False
            st.syms[s] = (lo, hi)
        if op == "Ne" and len(d[2]) == 1:
            (s, k), = d[2]
            lo, hi = self.sym_iv(st, s)
            if (-d[1]) % k == 0:
                v = (-d[1]) // k
                if lo == v:
                    lo += 1
                if hi == v:
                    hi -= 1
                if lo > hi:
                    return False
                st.syms[s] = (lo, hi)
        t = self.tri(st, ("b", op, x, y))
        return t is not False

    # ------------------------------------------------------------ reading / writing places
    def load(self, st, v):
        if isinstance(v, tuple) and v and v[0] == "rv":
            return v[1]
        return st.vals.get(v[1]) if isinstance(v, tuple) and v and v[0] == "r" else v

    def sizeof(self, tid, d=0):
        t = self.ty(tid)
        k = t["k"]
        if k == "prim":
            return {"u8": 1, "i8": 1, "bool": 1, "u16": 2, "i16": 2, "u32": 4, "i32": 4, "char": 4, "u64": 8, "i64": 8, "usize": 8, "isize": 8, "u128": 16, "i128": 16}.get(t["s"])
        if k == "array" and isinstance(t.get("len"), int):
            e = self.sizeof(t["elem"], d + 1)
            return None if e is None else e * t["len"]
        if k == "adt":
            a = self.w.adt_layout(t.get("crate"), t["path"])
            if a and isinstance(a.get("size"), int) and not t.get("args"):
                return a["size"]
        return None

    def read_place(self, st, pl, key):
        v = st.vals.get(pl["l"])
        projs = pl["p"]
        for i, e in enumerate(projs):
            if v is None:
                break
            if e == "*":
                if v[0] == "r":
                    v = st.vals.get(v[1])
                elif v[0] == "rv":
                    v = v[1]
                elif v[0] == "lib":
                    pass
                elif v[0] in ("s", "vec"):
                    pass
                else:
                    v = None
            elif isinstance(e, dict) and "f" in e:
                if v[0] == "t" and e["f"] < len(v[1]):
                    v = v[1][e["f"]]
                elif v[0] == "o" and i > 0 and isinstance(projs[i - 1], dict) and "variant" in projs[i - 1]:
                    v = v[2] if (projs[i - 1]["variant"] == v[1] and e["f"] == 0) else None
                elif v[0] == "s" and e["f"] == 0 and e.get("ty") is not None and re.search(r"(Unique|NonNull)<\[[^\]]*\]>$|\*(const|mut) \[[^\]]*\]$", self.ty(e["ty"]).get("s", "")):
                    pass          # Box<[T]>.0 (Unique) .pointer (NonNull): still the pointer to the same slice, same length
                else:
                    v = None
            elif isinstance(e, dict) and "variant" in e:
                if v[0] != "o":
                    v = None
            else:
                v = None
        if v is None:
            v = self.top(st, pl["ty"], key)
            if v is not None and not pl["p"] and pl["l"] not in st.vals:
                st.vals[pl["l"]] = v
        return v

    def operand(self, st, o, key):
        if "const" in o:
            c = o["const"]
            val = c.get("val")
            if isinstance(val, dict) and "int" in val:
                t = self.ty(c["ty"])
                if t["k"] == "prim" and t["s"] == "bool":
                    return ("b", "const", bool(val["int"]), None)
                return K(val["int"])
            if isinstance(val, dict) and "bool" in val:
                return ("b", "const", bool(val["bool"]), None)
            if isinstance(val, dict) and "bytes" in val:
                t = self.ty(c["ty"])
                if t["k"] == "ref":
                    it = self.ty(t["inner"])
                    if it["k"] == "prim" and it["s"] in INT_RANGE and it["s"] not in ("bool", "char"):
                        n = int.from_bytes(bytes(val["bytes"]), "little", signed=it["s"].startswith("i"))
                        return ("rv", K(n))
                    if it["k"] in ("slice", "array") or it["s"] == "str":
                        return ("s", K(len(val["bytes"])))
                    if it["k"] == "adt" and it["path"] == "core::ops::range::RangeInclusive" and it.get("args") and "t" in it["args"][0]:
                        et = self.ty(it["args"][0]["t"])
                        w = {"u8": 1, "u16": 2, "u32": 4, "u64": 8, "usize": 8}.get(et["s"]) if et["k"] == "prim" else None
                        raw = bytes(val["bytes"])
                        if w and len(raw) >= 2 * w:
                            a, b = int.from_bytes(raw[:w], "little"), int.from_bytes(raw[w:2 * w], "little")
                            # field order of start/end in the layout is not relied upon: a non-empty constant range has start <= end
                            return ("rv", ("t", (K(min(a, b)), K(max(a, b))), "core::ops::range::RangeInclusive"))
                    return self.top(st, c["ty"], key)
                if t["k"] == "array":
                    return ("a", len(val["bytes"]))
                return self.top(st, c["ty"], key)
            if isinstance(val, dict) and "static" in val:
                return ("lib", "static:" + val["static"])
            if isinstance(val, dict) and "str" in val:
                return ("s", K(len(val["str"].encode())))
            return self.top(st, c["ty"], key)
        pl = o.get("copy") or o.get("move")
        return self.read_place(st, pl, key)

    def write_place(self, st, pl, v):
        if not pl["p"]:
            st.vals[pl["l"]] = v
            if pl["l"] == 0 and isinstance(v, tuple) and v and v[0] == "o":
                # a return value is being produced here: remember under which argument values (for Host.implied)
                good = self.tri(st, v[3]) if v[3] is not None else None
                pi = {}
                for i in range(1, self.body["argc"] + 1):
                    for key in (("p", i), ("p", i, "len")):
                        if key in self.symrange:
                            pi[key] = self.sym_iv(st, key)
                self.ret_cases.append((good, pi))
            return
        if pl["p"] == ["*"]:
            p = st.vals.get(pl["l"])
            if p and p[0] == "r":
                st.vals[p[1]] = v
            return
        base = st.vals.get(pl["l"])
        if len(pl["p"]) == 1 and isinstance(pl["p"][0], dict) and "f" in pl["p"][0] and base and base[0] == "t":
            f = pl["p"][0]["f"]
            if f < len(base[1]):
                st.vals[pl["l"]] = ("t", base[1][:f] + (v,) + base[1][f + 1:], base[2])
            return
        if base and base[0] in ("a",):
            return                      # element write: the length does not change
        if base and base[0] in ("t", "o"):
            st.vals[pl["l"]] = None

    def length(self, st, v, tid, key):
        """Linear form of the length of a slice-like value (through one reference)."""
        v = self.load(st, v) if (isinstance(v, tuple) and v and v[0] in ("r", "rv")) else v
        if isinstance(v, tuple) and v:
            if v[0] in ("s", "vec"):
                return v[1]
            if v[0] == "a":
                return K(v[1])
            if v[0] == "lib" and len(v) > 2 and isinstance(v[2], int):
                return K(v[2])
        if tid is not None:
            t = self.ty(tid)
            for _ in range(3):
                if t["k"] in ("ref", "ptr"):
                    t = self.ty(t["inner"])
            if t["k"] == "array" and isinstance(t.get("len"), int):
                return K(t["len"])
            if t["k"] == "adt" and t["path"].endswith("GenericArray"):
                m = re.search(r"GenericArray<u8, U(\d+)>", short(t["s"]))
                if m:
                    return K(int(m.group(1)))
                if len(t.get("args", [])) > 1 and "t" in t["args"][1]:
                    pt = self.ty(t["args"][1]["t"])
                    sv = self.subst.get(pt.get("name")) if pt["k"] == "param" else None
                    m = re.fullmatch(r"U(\d+)", sv or "")
                    if m:
                        return K(int(m.group(1)))
        return self.fresh(st, key + ("len",), 0, ISIZE_MAX, (0, ISIZE_MAX))

    # ------------------------------------------------------------ arithmetic
    def arith(self, st, op, a, b, tid, key):
        """Returns (value, may_overflow: bool)."""
        r = self.int_range(tid) or (-(2 ** 127), 2 ** 127)
        if not (is_lin(a) and is_lin(b)):
            return self.fresh(st, key, r[0], r[1]), True
        ia, ib = self.iv(st, a), self.iv(st, b)
        res = None
        exact = None
        if op in ("Add", "Sub"):
            res = ladd(a, b, 1 if op == "Add" else -1)
            exact = self.iv(st, res)
            # x - c*(x/c)  ==  x mod c
            if op == "Sub" and len(b[2]) == 1 and b[1] == 0:
                (s, c), = b[2]
                df = self.symdef.get(s)
                if df and df[0] == "div" and df[1] == a and lconst(df[2]) == c and c > 0 and ia[0] >= 0:
                    return self.fresh(st, key, 0, c - 1, r), False
        elif op == "Mul":
            ca, cb = lconst(a), lconst(b)
            if cb is not None:
                res = lscale(a, cb)
            elif ca is not None:
                res = lscale(b, ca)
            if res is not None:
                exact = self.iv(st, res)
            else:
                cs = [ia[0] * ib[0], ia[0] * ib[1], ia[1] * ib[0], ia[1] * ib[1]]
                exact = (min(cs), max(cs))
                # (x / y) * y  <=  x   for x >= 0, y > 0
                for p, q in ((a, b), (b, a)):
                    if len(p[2]) == 1 and p[1] == 0 and p[2][0][1] == 1:
                        df = self.symdef.get(p[2][0][0])
                        if df and df[0] == "div" and df[2] == q and self.iv(st, q)[0] > 0 and self.iv(st, df[1])[0] >= 0:
                            exact = (0, self.iv(st, df[1])[1])
        elif op in ("Div", "Rem"):
            if ib[0] > 0 and ia[0] >= 0:
                exact = (ia[0] // ib[1], ia[1] // ib[0]) if op == "Div" else (0, min(ia[1], ib[1] - 1))
            elif ib[0] > 0 or ib[1] < 0:
                m = max(abs(ia[0]), abs(ia[1]))
                exact = (-m, m)
            else:
                exact = r
            v = self.fresh(st, key, max(exact[0], r[0]), min(exact[1], r[1]), r)
            if op == "Div":
                self.symdef[key] = ("div", a, b)
            return v, False
        elif op in ("BitAnd", "BitOr", "BitXor"):
            if op == "BitAnd":
                if ia[0] >= 0 and ib[0] >= 0:
                    exact = (0, min(ia[1], ib[1]))
                elif ia[0] >= 0:
                    exact = (0, ia[1])
                elif ib[0] >= 0:
                    exact = (0, ib[1])
                else:
                    m = max(abs(ia[0]), abs(ib[0]))
                    exact = (-(1 << m.bit_length()), max(ia[1], ib[1]))
            else:
                if ia[0] >= 0 and ib[0] >= 0:
                    m = max(ia[1], ib[1])
                    exact = (0, (1 << m.bit_length()) - 1)
                else:
                    m = max(abs(ia[0]), abs(ia[1]) + 1, abs(ib[0]), abs(ib[1]) + 1)
                    exact = (-(1 << m.bit_length()), (1 << m.bit_length()) - 1)
            exact = (max(exact[0], r[0]), min(exact[1], r[1]))
            return self.fresh(st, key, exact[0], exact[1], r), False
        elif op in ("Shl", "Shr"):
            if ib[0] == ib[1] and ib[0] >= 0:
                n = ib[0]
                if op == "Shr":
                    exact = (ia[0] >> n, ia[1] >> n)
                else:
                    exact = (ia[0] << n, ia[1] << n)
                    if exact[0] < r[0] or exact[1] > r[1]:
                        exact = r          # shl silently discards high bits
            else:
                exact = r
            return self.fresh(st, key, max(exact[0], r[0]), min(exact[1], r[1]), r), False
        else:
            return self.fresh(st, key, r[0], r[1]), True
        ovf = exact[0] < r[0] or exact[1] > r[1]
        if res is not None and not ovf:
            return res, False
        lo, hi = max(exact[0], r[0]), min(exact[1], r[1])
        if lo > hi:
            lo, hi = r
        return self.fresh(st, key, lo, hi, r), ovf

    # ------------------------------------------------------------ statements
    def rvalue(self, st, rv, key, dest_ty):
        k = rv["k"]
        if k == "use":
            return self.operand(st, rv["op"], key)
        if k == "ref" or k == "rawptr":
            pl = rv["place"]
            if not pl["p"]:
                return ("r", pl["l"])
            if pl["p"][-1] == "*":
                inner = dict(pl, p=pl["p"][:-1])
                v = self.read_place(st, inner, key)
                if isinstance(v, tuple) and v and v[0] in ("s", "r", "rv", "lib"):
                    return v
                if isinstance(v, tuple) and v and v[0] == "vec":
                    return ("s", v[1])
            v = self.read_place(st, pl, key)
            if isinstance(v, tuple) and v:
                if v[0] == "a":
                    return ("s", K(v[1]))
                if v[0] == "vec":
                    return ("s", v[1])
                if v[0] == "s":
                    return v
            return self.top(st, dest_ty, key)
        if k == "binop":
            op = rv["op"]
            a = self.operand(st, rv["a"], key + ("a",))
            b = self.operand(st, rv["b"], key + ("b",))
            if op in ("Lt", "Le", "Gt", "Ge", "Eq", "Ne"):
                if is_lin(a) and is_lin(b):
                    return ("b", op, a, b)
                if isinstance(a, tuple) and a and a[0] == "b" and isinstance(b, tuple) and b and b[0] == "b" and b[1] == "const":
                    same = (b[2] is True) == (op == "Eq")
                    return a if same else ("b", "not", a, None)
                return None
            aty = rv["a"].get("const", {}).get("ty") if "const" in rv["a"] else (rv["a"].get("copy") or rv["a"].get("move"))["ty"]
            if op.endswith("WithOverflow"):
                v, ovf = self.arith(st, op[:-12], a, b, aty, key)
                return ("t", (v, ("b", "const", False, None) if not ovf else None), "")
            if op in ("BitAnd", "BitOr", "BitXor") and self.ty(aty)["s"] == "bool":
                return ("b", "and" if op == "BitAnd" else "or", a, b) if op != "BitXor" else None
            v, _ = self.arith(st, op, a, b, aty, key)
            return v
        if k == "unop":
            a = self.operand(st, rv["a"], key + ("a",))
            if rv["op"] == "PtrMetadata":
                pl = rv["a"].get("copy") or rv["a"].get("move")
                return self.length(st, a, pl["ty"] if pl else None, key)
            if rv["op"] == "Not":
                if isinstance(a, tuple) and a and a[0] == "b":
                    return ("b", "not", a, None)
                return self.top(st, dest_ty, key)
            if rv["op"] == "Neg" and is_lin(a):
                r = self.int_range(dest_ty)
                v = lscale(a, -1)
                lo, hi = self.iv(st, v)
                if r and (lo < r[0] or hi > r[1]):
                    return self.fresh(st, key, r[0], r[1])
                return v
            return self.top(st, dest_ty, key)
        if k == "cast":
            a = self.operand(st, rv["op"], key + ("a",))
            ck = rv["ck"]
            if ck == "IntToInt":
                r = self.int_range(rv["to"])
                if isinstance(a, tuple) and a and a[0] == "b":
                    t = self.tri(st, a)
                    if t is not None:
                        return K(int(t))
                    return self.fresh(st, key, 0, 1, r)
                if is_lin(a) and r:
                    lo, hi = self.iv(st, a)
                    if lo >= r[0] and hi <= r[1]:
                        return a
                    return self.fresh(st, key, r[0], r[1])
                return self.top(st, rv["to"], key)
            if ck == "ptrcoerce:Unsize":
                pl = rv["op"].get("copy") or rv["op"].get("move")
                tt = self.ty(rv["to"])
                if tt["k"] in ("ref", "ptr") and self.ty(tt["inner"])["k"] == "slice":
                    return ("s", self.length(st, a, pl["ty"] if pl else None, key))
                return None
            if ck in ("PtrToPtr", "Transmute"):
                return a if (isinstance(a, tuple) and a and a[0] in ("s", "r", "ptrto", "lib")) else self.top(st, rv["to"], key)
            return self.top(st, rv["to"], key)
        if k == "agg":
            ak = rv["ak"]
            ops = tuple(self.operand(st, o, key + (i,)) for i, o in enumerate(rv["ops"]))
            if ak["a"] == "tuple":
                return ("t", ops, "")
            if ak["a"] == "array":
                return ("a", len(ops))
            if ak["a"] == "adt":
                if ak["path"] in GOOD:
                    g = GOOD[ak["path"]]
                    if ak["variant"] == g:
                        return ("o", g, ops[0] if ops else None, ("b", "const", True, None))
                    return ("o", g, None, ("b", "const", False, None))
                if self.host is not None and hasattr(self.host, "on_agg"):
                    self.host.on_agg(self, st, key[0], ak["path"])
                return ("t", ops, ak["path"])
            return None
        if k == "repeat":
            return ("a", rv["n"]) if isinstance(rv.get("n"), int) else None
        if k == "discr":
            v = self.read_place(st, rv["place"], key)
            if isinstance(v, tuple) and v and v[0] == "o":
                return ("d", v[1], v[3], rv["place"]["l"] if not rv["place"]["p"] else None)
            return None
        return self.top(st, dest_ty, key)

    # ------------------------------------------------------------ sites
    def site(self, bi, kind, name, ok, why=""):
        key = (bi, kind, name)
        prev = self.sites.get(key)
        if prev is None or prev is True:
            self.sites[key] = True if ok else (why or "not proved")

    # ------------------------------------------------------------ join
    def join_val(self, s1, s2, out, a, b, key, widen, d=0):
        if a == b:
            return a
        if a is None or b is None or d > 4:
            return None
        if is_lin(a) and is_lin(b):
            i1, i2 = self.iv(s1, a), self.iv(s2, b)
            lo, hi = min(i1[0], i2[0]), max(i1[1], i2[1])
            prev = out.syms.get(key)
            rng = self.symrange.get(key)
            if widen and prev and rng:
                if lo < prev[0]:
                    lo = rng[0]
                if hi > prev[1]:
                    hi = rng[1]
            if key not in self.symrange:
                self.symrange[key] = (-(2 ** 130), 2 ** 130)
            out.syms[key] = (lo, hi)
            return S(key)
        if a[0] != b[0]:
            return None
        if a[0] in ("s", "vec"):
            return (a[0], self.join_val(s1, s2, out, a[1], b[1], key + ("len",), widen, d + 1))
        if a[0] == "t" and len(a[1]) == len(b[1]) and a[2] == b[2]:
            return ("t", tuple(self.join_val(s1, s2, out, x, y, key + (i,), widen, d + 1) for i, (x, y) in enumerate(zip(a[1], b[1]))), a[2])
        if a[0] == "o" and a[1] == b[1]:
            ca, cb = a[3], b[3]
            if a[2] is None and ca == ("b", "const", False, None):
                return ("o", a[1], b[2], None)
            if b[2] is None and cb == ("b", "const", False, None):
                return ("o", a[1], a[2], None)
            return ("o", a[1], self.join_val(s1, s2, out, a[2], b[2], key + ("p",), widen, d + 1), ca if ca == cb else None)
        if a[0] == "a":
            return None
        return None

    def join(self, bi, old, new):
        cnt = self.visits.get(bi, 0)
        widen = cnt > 3
        out = State({}, {})
        for s in set(old.syms) | set(new.syms):
            if s in old.syms and s in new.syms:
                a, b = old.syms[s], new.syms[s]
                lo, hi = min(a[0], b[0]), max(a[1], b[1])
                if widen and (lo, hi) != a:
                    r = self.symrange.get(s, (lo, hi))
                    lo = r[0] if lo < a[0] else lo
                    hi = r[1] if hi > a[1] else hi
                out.syms[s] = (lo, hi)
        for l in set(old.vals) & set(new.vals):
            v = self.join_val(old, new, out, old.vals[l], new.vals[l], ("phi", bi, l), widen)
            if v is not None:
                out.vals[l] = v
        # make sure joined lin values' symbols have intervals where one side lacked refinement
        return out

    def same(self, a, b):
        return a.vals == b.vals and a.syms == b.syms

    # ------------------------------------------------------------ main loop
    def run(self):
        body = self.body
        st = State()
        for i in range(1, body["argc"] + 1):
            tid = body["locals"][i]["ty"]
            v = None
            if self.args and i - 1 < len(self.args) and self.args[i - 1] is not None:
                v = self.open_(st, self.args[i - 1], ("p", i))
            if v is None:
                v = self.top(st, tid, ("p", i))
            if v is not None:
                st.vals[i] = v
        entry = {0: st}
        work = [0]
        rets = []
        guard = 0
        while work:
            guard += 1
            if guard > 4000:
                self.notes.append("fixpoint budget exhausted")
                for b in range(len(body["blocks"])):
                    pass
                break
            bi = work.pop(0)
            st = entry[bi].copy()
            self.visits[bi] = self.visits.get(bi, 0) + 1
            blk = body["blocks"][bi]
            for si, s in enumerate(blk["stmts"]):
                if s["k"] == "assign":
                    v = self.rvalue(st, s["rv"], (bi, si), s["place"]["ty"])
                    self.write_place(st, s["place"], v)
            for tgt, st2 in self.terminator(st, bi, blk):
                if body["blocks"][tgt].get("cleanup"):
                    continue
                if tgt not in entry:
                    entry[tgt] = st2
                    work.append(tgt)
                else:
                    j = self.join(tgt, entry[tgt], st2)
                    if not self.same(j, entry[tgt]):
                        entry[tgt] = j
                        if tgt not in work:
                            work.append(tgt)
        self.entry = entry
        return self

    def terminator(self, st, bi, blk):
        t = blk["term"]
        k = t["k"]
        if k in ("goto", "drop"):
            return [(t["t"], st)]
        if k == "return":
            v = st.vals.get(0)
            c = self.close(st, v)
            self.ret = c if self.ret is None else self.join_closed(self.ret, c)
            self.has_ret = True
            return []
        if k == "assert":
            cond = self.operand(st, t["cond"], (bi, "assert"))
            tv = self.tri(st, cond)
            msg = str(t["msg"])
            kind = "assert:" + re.split(r"[ ({]", msg)[0]
            ok = tv is not None and tv == t["expected"]
            self.site(bi, kind, "", ok, f"{msg[:80]}: condition not provable from intervals")
            st2 = st.copy()
            self.refine(st2, cond, t["expected"])
            return [(t["t"], st2)]
        if k == "switch":
            d = self.operand(st, t["discr"], (bi, "sw"))
            outs = []
            arms = t["arms"]
            for val, tgt in arms:
                st2 = st.copy()
                if self.assume_switch(st2, d, val, None):
                    outs.append((tgt, st2))
            if t.get("otherwise") is not None:
                st2 = st.copy()
                if self.assume_switch(st2, d, None, [a for a, _ in arms]):
                    outs.append((t["otherwise"], st2))
            return outs
        if k == "call":
            return self.call(st, bi, blk, t)
        return []

    def assume_switch(self, st, d, val, others):
        if d is None:
            return True
        if d[0] == "b":
            if val is not None:
                return self.refine(st, d, bool(val))
            if others == [0]:
                return self.refine(st, d, True)
            if others == [1]:
                return self.refine(st, d, False)
            return True
        if d[0] == "d":
            _, good, cond, loc = d
            if val is not None:
                isgood = val == good
            elif len(others) == 1:
                isgood = others[0] != good
            else:
                return True
            if cond is not None:
                if not self.refine(st, cond, isgood):
                    return False
            if loc is not None:
                cur = st.vals.get(loc)
                if cur and cur[0] == "o":
                    st.vals[loc] = ("o", cur[1], cur[2] if isgood else None, ("b", "const", isgood, None))
            return True
        if is_lin(d):
            if val is not None:
                return self.refine(st, ("b", "Eq", d, K(val)), True)
            ok = True
            for o in others:
                ok = ok and self.refine(st, ("b", "Ne", d, K(o)), True)
            return ok
        return True

    # ------------------------------------------------------------ closed forms
    def close(self, st, v, d=0):
        if v is None or d > 4:
            return None
        if is_lin(v):
            return ("I",) + self.iv(st, v)
        if v[0] in ("s", "vec"):
            return (v[0].upper(),) + self.iv(st, v[1])
        if v[0] == "a":
            return ("S", v[1], v[1])
        if v[0] == "r":
            inner = st.vals.get(v[1])
            c = self.close(st, inner, d + 1)
            if c and c[0] in ("S", "VEC"):
                return ("S", c[1], c[2])
            return ("R", c)
        if v[0] == "t":
            return ("T", tuple(self.close(st, x, d + 1) for x in v[1]), v[2])
        if v[0] == "o":
            t = self.tri(st, v[3]) if v[3] is not None else None
            return ("O", v[1], self.close(st, v[2], d + 1), t)
        if v[0] == "b":
            return ("B", self.tri(st, v))
        if v[0] == "lib":
            return ("LIB",) + v[1:]
        if v[0] == "rv":
            return self.close(st, v[1], d + 1) if not is_lin(v[1]) else ("RV", self.close(st, v[1], d + 1))
        return None

    def open_(self, st, c, key, d=0):
        if c is None:
            return None
        if c[0] == "LIB":
            return ("lib",) + c[1:]
        if c[0] == "RV":
            return ("rv", self.open_(st, c[1], key + ("rv",), d + 1))
        if c[0] == "I":
            if c[1] == c[2]:
                return K(c[1])
            return self.fresh(st, key, c[1], c[2], (c[1], c[2]))
        if c[0] in ("S", "VEC"):
            if c[1] == c[2]:
                return ("s" if c[0] == "S" else "vec", K(c[1]))
            return ("s" if c[0] == "S" else "vec", self.fresh(st, key + ("len",), c[1], c[2], (c[1], c[2])))
        if c[0] == "R":
            return None
        if c[0] == "T":
            return ("t", tuple(self.open_(st, x, key + (i,), d + 1) for i, x in enumerate(c[1])), c[2])
        if c[0] == "O":
            return ("o", c[1], self.open_(st, c[2], key + ("p",), d + 1), None if c[3] is None else ("b", "const", c[3], None))
        if c[0] == "B":
            return None if c[1] is None else ("b", "const", c[1], None)
        return None

    def join_closed(self, a, b):
        if a == b:
            return a
        if a is None or b is None or a[0] != b[0]:
            return None
        if a[0] in ("I", "S", "VEC"):
            return (a[0], min(a[1], b[1]), max(a[2], b[2]))
        if a[0] == "T" and len(a[1]) == len(b[1]):
            return ("T", tuple(self.join_closed(x, y) for x, y in zip(a[1], b[1])), a[2])
        if a[0] == "O" and a[1] == b[1]:
            if a[2] is None and a[3] is False:
                return ("O", a[1], b[2], None)
            if b[2] is None and b[3] is False:
                return ("O", a[1], a[2], None)
            return ("O", a[1], self.join_closed(a[2], b[2]), a[3] if a[3] == b[3] else None)
        if a[0] == "B":
            return ("B", None)
        return None

    # ------------------------------------------------------------ calls
    def call(self, st, bi, blk, t):
        ce = t.get("callee")
        dest = t.get("dest")
        nxt = t.get("t")
        args = [self.operand(st, a, (bi, "arg", i)) for i, a in enumerate(t["args"])]
        atys = [((a.get("copy") or a.get("move") or {}).get("ty") if "const" not in a else a["const"]["ty"]) for a in t["args"]]
        key = (bi, "ret")
        res = NotImplemented
        if ce and "path" in ce:
            from absint_calls import model
            res = model(self, st, bi, ce, args, atys, dest["ty"] if dest else None, key)
        diverges = res == "diverge"
        if res is NotImplemented or diverges:
            res = None
        # a callee receiving a mutable reference to a local may change it
        if not (ce and ce.get("_pure")):
            for a, o in zip(args, t["args"]):
                self.invalidate(st, a, o)
        if diverges or nxt is None:
            return []
        if dest is not None:
            if res is None:
                res = self.top(st, dest["ty"], key)
            self.write_place(st, dest, res)
        if ce and "path" in ce:
            self.callrets[bi] = (ce["path"], res, args)
            if self.host is not None and hasattr(self.host, "on_call"):
                self.host.on_call(self, st, bi, ce, args)
        return [(nxt, st)]

    def invalidate(self, st, a, o, d=0):
        if not isinstance(a, tuple) or not a or d > 3:
            return
        if a[0] == "r":
            pl = o.get("copy") or o.get("move") if isinstance(o, dict) else None
            mut = True
            if pl is not None:
                t = self.ty(pl["ty"])
                mut = t.get("mut", True) if t["k"] in ("ref", "ptr") else True
            if mut:
                cur = st.vals.get(a[1])
                if cur is not None and cur[0] not in ("a", "lib"):
                    st.vals.pop(a[1], None)
        elif a[0] == "t":
            for x in a[1]:
                self.invalidate(st, x, None, d + 1)
