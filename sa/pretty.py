"""Compact printing of terms and locations."""
from facts import short

def floc(l):
    if not isinstance(l, tuple):
        return str(l)
    k = l[0]
    if k == "L":
        return f"_{l[2]}@{l[1]}"
    if k == "P":
        return f"*{l[2]}"
    if k == "C":
        return repr(l[1])
    if k == "R":
        def b(x):
            if isinstance(x, tuple) and len(x) == 2 and isinstance(x[0], int):
                if x[1] == 0:
                    return str(x[0])
                return "len" + (f"{x[0]:+d}" if x[0] else "")
            return str(x)
        s = f"{floc(l[1])}[{b(l[2])}..{b(l[3])}]"
        if len(l) > 4:
            s += f":{l[4]!r}"
        return s
    if k == "V":
        return f"buf({floc(l[1])})"
    if k == "F":
        return f"{floc(l[1])}.{l[2]}"
    if k == "D":
        return f"({floc(l[1])} as {l[2]})"
    if k == "K":
        return f"promoted{l[2]}"
    return "(" + " ".join(floc(x) if isinstance(x, tuple) else str(x) for x in l) + ")"

def ft(t, depth=0):
    if depth > 14:
        return "…"
    if not isinstance(t, tuple) or not t:
        return repr(t)
    k = t[0]
    d = depth + 1
    if k == "param":
        return f"${t[2]}"
    if k == "bytes":
        return repr(t[1])
    if k == "int":
        return str(t[1])
    if k == "unit":
        return "()"
    if k == "ptr":
        return "&" + floc(t[1])
    if k == "init":
        return floc(t[1])
    if k == "call":
        return f"{t[1]}(" + ", ".join(ft(a, d) for a in t[2]) + ")"
    if k == "agg":
        nm = t[1][4:] if t[1].startswith("adt:") else t[1]
        return f"{nm}{{" + ", ".join(ft(a, d) for a in t[2]) + "}"
    if k == "mut":
        how = t[2]
        if how[0] == "PAE":
            return f"{ft(t[1], d)}\n{'  '*d}.PAE[" + " | ".join("+".join(ft(f, d) for f in pc) for pc in how[2]) + "]"
        if len(how) == 3:
            return f"{ft(t[1], d)}\n{'  '*d}.{how[0]}[{how[1]}](" + ", ".join(ft(a, d) for a in how[2]) + ")"
        return f"{ft(t[1], d)}.{how[0]}"
    if k == "PAE":
        return "PAE[" + " | ".join("+".join(ft(f, d) for f in pc) for pc in t[1]) + "]"
    if k == "xor":
        return f"XOR<{ft(t[1], d)}>({ft(t[2], d)})"
    if k == "concat":
        return "(" + " ‖ ".join(ft(a, d) for a in t[1]) + ")"
    if k == "vec":
        return f"vec{ft(t[1], d)}"
    if k == "field":
        return f"{ft(t[1], d)}.{t[2]}"
    if k == "branch":
        return f"{ft(t[1], d)}?"
    if k == "okv":
        return f"ok({ft(t[1], d)})"
    if k == "zeros":
        return f"0x{t[1]}"
    if k == "rng":
        return f"RNG<{t[1]}@{t[2][1]}>"
    if k == "patched":
        return f"{ft(t[1], d)}⟦" + ", ".join(f"{floc(('R','',w[0],w[1]))}:={ft(w[2], d)}" for w in t[2]) + "⟧"
    if k == "split":
        return f"split({ft(t[1], d)})"
    if k == "len":
        return f"len({ft(t[1], d)})"
    if k == "binop":
        return f"{t[1]}({ft(t[2], d)}, {ft(t[3], d)})"
    if k == "discr":
        return f"discr({ft(t[1], d)})"
    if k == "slice":
        return f"{ft(t[1], d)}[{t[2]}..{t[3]}]"
    return "(" + k + " " + " ".join(ft(a, d) if isinstance(a, tuple) else str(a) for a in t[1:]) + ")"

def fev(ev):
    k = ev["kind"]
    if k in ("enter", "leave"):
        return f"{'  '*ev.get('depth',0)}{k} {ev['name']}"
    if k == "assert":
        return f"assert {ev['msg']}"
    s = f"{'  '*ev.get('depth',0)}{k} {ev['name']}(" + ", ".join(ft(v) for v in ev.get("vals", [])) + ")"
    return s
