"""Check runner: extraction, rule execution, known findings, evidence and replay files."""
import json, os, sys, time, hashlib, traceback

VERIF = os.path.dirname(os.path.dirname(os.path.abspath(__file__)))
sys.path.insert(0, os.path.join(VERIF, "sa"))
import extract
from facts import load_all
from interp import World

class Finding:
    def __init__(self, rule, key, ok, detail="", site=None, facts=None):
        self.rule = rule          # e.g. "R01.1"
        self.key = key            # stable instance key, no line numbers
        self.ok = ok
        self.detail = detail
        self.site = site          # "file:line" (informational)
        self.facts = facts or {}

    def to_json(self):
        return {"rule": self.rule, "key": self.key, "ok": self.ok, "detail": self.detail, "site": self.site, "facts": self.facts}

class Ctx:
    """What a rule module gets."""
    def __init__(self, prop, tier, facts_dir):
        self.prop = prop
        self.tier = tier
        self.facts_dir = facts_dir
        self.repo = extract.REPO
        self.crates = load_all(facts_dir)
        self.world = World(self.crates)
        self.findings = []
        self.samples = []
        self.analysed = {"functions": 0, "paths": 0, "call_sites": 0}
        self.notes = []

    def add(self, rule, key, ok, detail="", site=None, facts=None):
        f = Finding(rule, key, ok, detail, site, facts)
        self.findings.append(f)
        return f

    def sample(self, s):
        if len(self.samples) < 12:
            self.samples.append(s)

def load_known():
    p = os.path.join(VERIF, "known_findings.json")
    if not os.path.exists(p):
        return {"known": [], "fixed": []}
    with open(p) as f:
        return json.load(f)

def site_of(fn):
    sp = fn.get("span") or {}
    return f"{sp.get('f')}:{sp.get('l')}"

def judge(prop, rule_module, ctx, floors=None, announce=False):
    """Applies known findings and floors. Returns (failing, unexpected, counts, known_keys)."""
    known = load_known()
    known_keys = {(k["property"], k["key"]): k for k in known.get("known", [])}
    viol = [f for f in ctx.findings if not f.ok]
    unexpected = []
    for f in viol:
        kk = (prop, f.key)
        if kk in known_keys:
            if announce:
                print(f"KNOWN-FINDING: property={prop} {f.key} :: {known_keys[kk].get('what', f.detail)}")
        else:
            unexpected.append(f)
    counts = {}
    for f in ctx.findings:
        counts[f.rule] = counts.get(f.rule, 0) + 1
    for rule, n in (floors or getattr(rule_module, "FLOORS", {})).items():
        if counts.get(rule, 0) < n:
            f = Finding(rule, f"{prop}/floor/{rule}", False, f"rule matched {counts.get(rule, 0)} instances, floor is {n} (anchor missing or renamed)")
            ctx.findings.append(f)
            unexpected.append(f)
    return viol, unexpected, counts, known_keys

def run_check(prop, rule_module, argv, level="other", explanation="", assumptions=None, floors=None):
    import argparse
    ap = argparse.ArgumentParser()
    ap.add_argument("--tier", default=os.environ.get("VERIF_TIER", "quick"))
    ap.add_argument("--replay", default=None)
    a = ap.parse_args(argv)
    t0 = time.time()
    seed = int(os.environ.get("VERIF_SEED", "0") or 0)
    ev_path = os.path.join(VERIF, "evidence", f"{prop}.json")
    os.makedirs(os.path.join(VERIF, "evidence", "replay"), exist_ok=True)
    try:
        facts_dir = extract.extract("default")
        ctx = Ctx(prop, a.tier, facts_dir)
        rule_module.run(ctx)
        if a.tier == "thorough" and hasattr(rule_module, "run_thorough"):
            rule_module.run_thorough(ctx)
    except Exception as e:
        traceback.print_exc()
        print(f"CHECKER-ERROR property={prop} {type(e).__name__}: {e}")
        sys.exit(2)
    viol, unexpected, counts, known_keys = judge(prop, rule_module, ctx, floors, announce=True)
    if a.replay:
        with open(a.replay) as fh:
            want = json.load(fh).get("key")
        hit = [f for f in unexpected if f.key == want]
        print(f"REPLAY {want}: " + ("still violated" if hit else "no longer violated"))
        for f in hit:
            print(f"VIOLATION property={prop} replay={a.replay}\n  rule={f.rule} key={f.key} site={f.site}\n  {f.detail[:1500]}")
        sys.exit(1 if hit else 0)
    selftest_report = None
    if a.tier == "thorough" and unexpected:
        ctx.notes.append("self-test skipped: the tree under test already violates the property, mutants on top of it would say nothing")
    if a.tier == "thorough" and not unexpected:
        import selftest
        try:
            selftest_report = selftest.run(prop, rule_module, floors)
        except Exception as e:
            traceback.print_exc()
            print(f"CHECKER-ERROR property={prop} selftest {type(e).__name__}: {e}")
            sys.exit(2)
        for m in selftest_report["mutants"]:
            if not m["as_expected"]:
                print(f"SELFTEST-MISS property={prop} mutant={m['name']} expected={'fire' if m['expect_fire'] else 'silent'} got={'fire' if m['fired'] else 'silent'}")
    replay_paths = []
    for i, f in enumerate(unexpected):
        rp = os.path.join(VERIF, "evidence", "replay", f"{prop}-{i}.json")
        with open(rp, "w") as fh:
            json.dump({"property": prop, **f.to_json()}, fh, indent=1, default=str)
        replay_paths.append(rp)
        print(f"VIOLATION property={prop} replay={rp}")
        print(f"  rule={f.rule} key={f.key} site={f.site}\n  {f.detail[:1500]}")
    nt = len({f.key for f in ctx.findings})
    cov = {
        "explanation": explanation or getattr(rule_module, "EXPLANATION", ""),
        "evaluations": len(ctx.findings),
        "distinct_nontrivial": nt,
        "rule": "one evaluation per rule instance (rule id x anchored construct); distinct = distinct instance keys",
        "samples": ctx.samples or [f.to_json() for f in ctx.findings[:3]],
        "obligations": len(ctx.findings),
        "discharged": len([f for f in ctx.findings if f.ok]),
        "rule_instance_counts": counts,
        "instances": [{"rule": f.rule, "key": f.key, "ok": f.ok, "site": f.site} for f in ctx.findings],
        "analysed": ctx.analysed,
        "floors": floors or getattr(rule_module, "FLOORS", {}),
        "known_findings_hit": [f.key for f in viol if (prop, f.key) in known_keys],
        "notes": ctx.notes,
        "exhaustive": bool(getattr(rule_module, "EXHAUSTIVE", False)),
        "checker_cmd": f"./check {prop} --tier {a.tier}",
        "trusted_base": assumptions or getattr(rule_module, "ASSUMPTIONS", []),
        "facts_nonce": next(iter(ctx.crates.values())).nonce if ctx.crates else None,
    }
    if selftest_report is not None:
        cov["selftest"] = selftest_report
    evd = {"property_id": prop, "tier": a.tier, "seed": seed, "level": level, "coverage": cov,
           "assumptions": assumptions or getattr(rule_module, "ASSUMPTIONS", []),
           "wall_s": round(time.time() - t0, 2), "violations": len(unexpected)}
    with open(ev_path, "w") as fh:
        json.dump(evd, fh, indent=1, default=str)
    print(f"{prop}: {len(ctx.findings)} rule instances, {len(viol)} failing, {len(unexpected)} unexpected, {evd['wall_s']}s")
    sys.exit(1 if unexpected else 0)
