"""Operation catalogue: locating backend implementations, running them through the interpreter,
and composing producer/consumer summaries (seal→unseal, wrap→unwrap)."""
import re
from facts import short
from interp import Interp, World, Path, okness, is_ptr
from norm import Norm, fn as fmt_n

BACKENDS = {
    "v1": "paseto_v1", "v2": "paseto_v2", "v3": "paseto_v3", "v3-aws-lc": "paseto_v3_aws_lc",
    "v4": "paseto_v4", "v4-sodium": "paseto_v4_sodium",
}
VERSION_TYPE = {"paseto_v1": "core::V1", "paseto_v2": "core::V2", "paseto_v3": "core::V3",
                "paseto_v3_aws_lc": "core::V3", "paseto_v4": "core::V4", "paseto_v4_sodium": "core::V4"}

def no_lc_inline(f):
    if f["crate"] == "paseto_v3_aws_lc" and f["key"].startswith("lc::"):
        return False
    # key generation with a rejection-sampling loop: opaque primitive (its RNG discipline is C16's subject)
    if f["key"].endswith("<impl core::SecretKey>::random"):
        return False
    return True

def find_impl_fn(world, crate, trait_tail, method, arg_contains=None):
    """The fn implementing `method` of a trait (path ending in trait_tail) in `crate`."""
    out = []
    for f in world.crates[crate].fns.values():
        if f.get("name") != method or "{closure" in f["key"]:
            continue
        it = f.get("impl_trait")
        if not it or not it.endswith(trait_tail):
            continue
        if arg_contains is not None:
            full = f.get("impl_trait_full", "")
            m = re.search(r"<(.*)>", full)
            targs = m.group(1) if m else ""
            # trait args after Self: `<core::V4 as Trait<paseto_core::version::Local>>`
            m2 = re.search(re.escape(trait_tail) + r"<(.*)>>?$", full)
            ta = m2.group(1) if m2 else ""
            if arg_contains.split("::")[-1] != ta.rstrip(">").split("::")[-1]:
                continue
        out.append(f)
    if len(out) == 1:
        return out[0]
    return None

SEALING_KEY = {"Local": "Local", "Public": "Secret"}

def make_resolver(world, backend_crate, bindings):
    """Resolve `<V as Trait<P>>::method` calls inside generic paseto-core code to the backend's impl."""
    def resolver(interp, ctx, ce):
        p = ce["path"]
        if "::" not in p:
            return None
        trait, method = p.rsplit("::", 1)
        trait = re.sub(r"^paseto_core::", "", trait)
        targs = []
        for g in ce.get("args") or []:
            if "t" in g:
                targs.append(interp.ty_s(ctx, g["t"]))
        if not targs:
            return None
        self_ty = targs[0]
        vt = short(VERSION_TYPE[backend_crate])
        if self_ty not in (vt, bindings.get("V"), "V") and not re.fullmatch(r"[A-Z][A-Za-z0-9]{0,2}", self_ty):
            # a composition is always evaluated inside one backend: every version-like type parameter is that backend
            return None
        arg = None
        if len(targs) > 1:
            a = targs[1]
            m = re.match(r"<(\w+) as (?:\w+::)*Purpose>::SealingKey", a)
            if m:
                a = SEALING_KEY.get(m.group(1), a)
            arg = a
        tail = trait.split("::")[-1]
        return find_impl_fn(world, backend_crate, "::" + tail, method, arg)
    return resolver

def run_fromstr(world, ty_contains):
    """paseto-core FromStr impl for a type, evaluated with base64 kept opaque."""
    c = world.crates["paseto_core"]
    cands = [f for k, f in c.fns.items() if "FromStr for " + ty_contains in k and "{closure" not in k and k.endswith("::from_str")]
    if len(cands) != 1:
        return None, None
    it = Interp(world, inline_filter=lambda f: not f["key"].startswith("base64::"))
    return cands[0], (it, it.run(cands[0]))

def core_fn(world, key_contains):
    c = world.crates["paseto_core"]
    cands = [f for k, f in c.fns.items() if key_contains in k and "{closure" not in k]
    return cands[0] if len(cands) == 1 else None

def param_widths(world, fn):
    """Static byte widths of parameters that are (references to) fixed-layout structs or byte arrays."""
    out = {}
    cr = fn["_crate"]
    body = fn["body"]
    for i in range(1, body["argc"] + 1):
        l = body["locals"][i]
        name = l.get("name")
        if not name:
            continue
        ty = cr.ty(l["ty"])
        if ty.get("k") in ("ref", "ptr"):
            ty = cr.ty(ty["inner"])
        if ty.get("k") == "array" and ty.get("len") is not None and cr.ty(ty["elem"])["s"] == "u8":
            out[name] = ty["len"]
        elif ty.get("k") == "adt":
            lay = world.adt_layout(ty.get("crate"), ty["path"])
            if lay and "size" in lay and "zerocopy" not in ty["path"]:
                reprs = lay.get("repr", "")
                if "C" in reprs or "transparent" in reprs:
                    out[name] = lay["size"]
    return out

class Run:
    """All paths of one function evaluation plus convenience accessors."""
    def __init__(self, world, fn, args=None, subst=None, resolver=None, path=None, inline=True):
        self.world = world
        self.fn = fn
        self.interp = Interp(world, inline=inline, inline_filter=no_lc_inline, resolver=resolver)
        self.results = self.interp.run(fn, args=args, subst=subst, path=path)
        self.norm = Norm(param_widths(world, fn))
        self.norm.input_widths.update(self.interp.in_widths)
        for t_, w_ in list(self.interp.term_widths.items()):
            try:
                nt = self.norm.n(t_)
            except Exception:
                continue
            if isinstance(nt, tuple) and self.norm.width(nt) is None:
                self.norm.value_widths[nt] = w_

    @property
    def ok_paths(self):
        return [r for r in self.results if r.kind == "return" and r.okness is not False]

    @property
    def err_paths(self):
        return [r for r in self.results if r.kind == "return" and r.okness is False]

    @property
    def other_paths(self):
        return [r for r in self.results if r.kind != "return"]

    def ret_value(self, r):
        """Ok payload with pointers resolved to the content they point to at return."""
        t = r.ret
        v = self.interp.okv(None, r.path, t)
        return self.interp.argval(r.path, v)

# ------------------------------------------------------------------ compositions
VERIFY_NAMES = ("verify", "compare", "decrypt_in_place")

def verification_terms(run, r):
    """Normalised VERIFY / VERIFYSIG terms along a path, in order, with their event index."""
    out = []
    for i, e in enumerate(r.path.events):
        if e["kind"] != "call":
            continue
        low = e["name"].lower()
        if not any(v in low for v in VERIFY_NAMES):
            continue
        t = run.norm.n(("call", e["name"], tuple(e["vals"])))
        if isinstance(t, tuple) and t and t[0] in ("VERIFY", "VERIFYSIG"):
            out.append((i, e, t))
    return out

def strip_lows(t):
    while isinstance(t, tuple) and t and t[0] == "SIG-lowS":
        t = t[1]
    return t

def verify_holds(t):
    """Does a verification term hold syntactically (both sides are the same construction)?"""
    if t[0] == "VERIFY":
        return t[2] == t[3]
    if t[0] == "VERIFYSIG":
        _, scheme, pk, msg, sig = t
        sig = strip_lows(sig)
        if not (isinstance(sig, tuple) and sig and sig[0] == "SIG" and sig[1] == scheme):
            return False
        skid, smsg = sig[2], sig[3]
        return pk == ("PUB", scheme, skid) and msg == smsg
    return False

def length_guard_problems(run, r, what):
    """Guards on the success path r of an undo operation that compare lengths of the value the producer built. The producer's
    output has the form fixed-width parts + at most one part of unknown width x >= 0 (the encoded message / key), so such a guard
    is a linear condition on x: it must hold for EVERY x >= 0, otherwise the round trip fails for some message length although
    each side is fine on its own (e.g. an unseal that wants `len - 16 > 24` where the sealer emits exactly 40 bytes for an empty
    message)."""
    nm = run.norm
    probs = []
    def lin(t):
        """(a, b, var): a*x + b with x = len(var)."""
        if not isinstance(t, tuple) or not t:
            return None
        if t[0] == "int":
            return (0, t[1], None)
        if t[0] in ("ok", "okv") and len(t) == 2:
            return lin(t[1])
        if t[0] == "len" and len(t) == 2:
            w = nm.width(t[1])
            if w is not None:
                return (0, w, None)
            parts = list(t[1][1]) if (isinstance(t[1], tuple) and t[1] and t[1][0] == "cat") else [t[1]]
            known, unknown = 0, []
            for p_ in parts:
                wp = nm.width(p_)
                if wp is None:
                    unknown.append(p_)
                else:
                    known += wp
            if len(unknown) == 1:
                u = unknown[0]
                while isinstance(u, tuple) and u and u[0] in ("ENC", "AEAD_ENC") :
                    u = u[2] if u[0] == "ENC" else u[4]       # a stream cipher / AEAD body is as long as its plaintext
                return (1, known, u)
            return None
        if t[0] == "binop" and len(t) == 4 and t[1] in ("Add", "Sub", "AddUnchecked", "SubUnchecked"):
            x, y = lin(t[2]), lin(t[3])
            if x is None or y is None or (x[2] is not None and y[2] is not None and x[2] != y[2]):
                return None
            sg = 1 if t[1].startswith("Add") else -1
            return (x[0] + sg * y[0], x[1] + sg * y[1], x[2] if x[2] is not None else y[2])
        if t[0] == "call" and len(t) == 3 and len(t[2]) == 2 and re.search(r"::checked_(sub|add)$", t[1]):
            return lin(("binop", "Sub" if t[1].endswith("sub") else "Add", t[2][0], t[2][1]))
        return None
    NEG = {"Gt": "Le", "Ge": "Lt", "Lt": "Ge", "Le": "Gt", "Eq": "Ne", "Ne": "Eq"}
    def always(op, a, b):
        return {"Gt": b > 0 and a >= 0, "Ge": b >= 0 and a >= 0, "Lt": b < 0 and a <= 0, "Le": b <= 0 and a <= 0,
                "Eq": a == 0 and b == 0, "Ne": (a == 0 and b != 0) or (a > 0 and b > 0) or (a < 0 and b < 0)}[op]
    for g in r.path.guards:
        c = nm.n(g["cond"])
        v = g["value"]
        op = x = y = None
        if isinstance(c, tuple) and len(c) == 4 and c[0] == "binop" and c[1] in NEG and v in (0, 1):
            op, x, y = c[1], lin(c[2]), lin(c[3])
            if v == 0:
                op = NEG[op]
        elif isinstance(c, tuple) and len(c) == 2 and c[0] == "discr" and isinstance(c[1], tuple) and c[1] and c[1][0] == "call" \
                and re.search(r"::checked_sub$", c[1][1]) and len(c[1][2]) == 2 and v in (0, 1):
            op, x, y = ("Ge" if v == 1 else "Lt"), lin(c[1][2][0]), lin(c[1][2][1])       # Some iff a >= b
        if op is None or x is None or y is None:
            continue
        if x[2] is None and y[2] is None:
            continue                      # no unknown width involved: decided by the evaluator already
        if x[2] is not None and y[2] is not None and x[2] != y[2]:
            continue
        a, b = x[0] - y[0], x[1] - y[1]
        if not always(op, a, b):
            # smallest message length that violates it
            bad = next((n for n in range(0, 4096) if not {"Gt": a * n + b > 0, "Ge": a * n + b >= 0, "Lt": a * n + b < 0, "Le": a * n + b <= 0,
                                                          "Eq": a * n + b == 0, "Ne": a * n + b != 0}[op]), None)
            probs.append(f"{what}: the success path requires {fmt_n(c)[:160]} == {v}, which does not hold when the variable-length part "
                         f"({fmt_n(x[2] if x[2] is not None else y[2])[:60]}) is {bad if bad is not None else 'some number of'} bytes long")
    return probs

def compose_token(world, backend, purpose):
    """seal (through paseto-core's generic code, library nonce) then unseal of that very token."""
    crate = BACKENDS[backend]
    res = make_resolver(world, crate, {})
    sub = {"V": short(VERSION_TYPE[crate]), "P": purpose}
    f = core_fn(world, "tokens::UnsealedToken::<V, P, M, F>::seal")
    g = core_fn(world, "tokens::SealedToken::<V, P, M, F>::unseal")
    out = {"backend": backend, "purpose": purpose, "problems": []}
    if f is None or g is None:
        out["problems"].append("anchor-missing: paseto_core tokens seal/unseal")
        return out
    seal = Run(world, f, subst=sub, resolver=res)
    out["seal"] = seal
    oks = seal.ok_paths
    # panicking (diverging) paths are C04's subject, as in compose_paserk; loops / unsupported constructs are not tolerated
    bad_other = [r for r in seal.other_paths if r.kind not in ("diverge",)]
    if len(oks) != 1 or bad_other:
        out["problems"].append(f"seal: expected exactly one success path, got {len(oks)} (+{len(bad_other)} non-returning: {[(r.kind, r.exit_site) for r in bad_other][:3]})")
        if not oks:
            return out
    r = oks[0]
    tok = seal.interp.okv(None, r.path, r.ret)
    out["token"] = seal.norm.n(seal.interp.argval(r.path, tok))
    keyarg = ("ptr", ("P", 2, "key"))
    if purpose == "Public":
        uk = find_impl_fn(world, crate, "::SealingVersion", "unsealing_key", "Public")
        if uk is None:
            out["problems"].append("anchor-missing: unsealing_key")
            return out
        ru = Run(world, uk, args=[("ptr", ("F", ("P", 2, "key"), 0))], resolver=res)
        rets = [x for x in ru.results if x.kind == "return"]
        if len(rets) != 1:
            out["problems"].append(f"unsealing_key: {len(rets)} return paths")
            return out
        pk = ru.interp.argval(rets[0].path, rets[0].ret)
        out["unsealing_key"] = ru.norm.n(pk)
        keyarg = ("ptr", ("T", ("agg", "adt:Key::Key", (pk,))))
    # serialise + parse (Display/FromStr are mirror images: C09; FromStr's field construction: R01.6):
    # the parsed token carries the same payload / footer bytes and footer = F::decode(footer bytes)
    if isinstance(tok, tuple) and tok[0] == "agg" and len(tok[2]) >= 3:
        ef = tok[2][1]
        efc = ef[1] if isinstance(ef, tuple) and ef and ef[0] == "vec" else ef
        parsed_footer = ("okv", ("call", "<F as Footer>::decode", (efc,)))
        tok = ("agg", tok[1], (tok[2][0], tok[2][1], parsed_footer) + tuple(tok[2][3:]))
    args = [tok, keyarg, ("ptr", ("P", 3, "aad")), ("ptr", ("P", 4, "v"))]
    unseal = Run(world, g, args=args, subst=sub, resolver=res, path=Path())
    out["unseal"] = unseal
    uoks = unseal.ok_paths
    if len(uoks) != 1:
        out["problems"].append(f"unseal∘seal: expected exactly one success path, got {len(uoks)}")
        if not uoks:
            return out
    r2 = uoks[0]
    out["unseal_path"] = r2
    out["problems"] += length_guard_problems(unseal, r2, "unseal∘seal")
    out["verifications"] = verification_terms(unseal, r2)
    dec = [e for e in r2.path.events if e["kind"] == "call" and e["name"].endswith("Payload>::decode")]
    out["decode_args"] = [unseal.norm.n(e["vals"][0]) for e in dec]
    out["result"] = unseal.norm.n(unseal.ret_value(r2))
    return out

PASERK_OPS = {
    "pie": ("paserk::pie_wrap::<impl key::Key<V, K>>::wrap_pie", "paserk::pie_wrap::PieWrappedKey::<V, K>::unwrap", "with"),
    "pbkw": ("paserk::pw_wrap::<impl key::Key<V, K>>::password_wrap_with_params", "paserk::pw_wrap::PasswordWrappedKey::<V, K>::unwrap", "pass"),
    "pke": ("paserk::pke::<impl key::Key<V, version::Local>>::seal", "paserk::pke::SealedKey::<V>::unseal", "with"),
}

def exact_core_fn(world, key):
    return world.crates["paseto_core"].fns.get(key)

def compose_paserk(world, backend, op, unseal_key_arg=None):
    """wrap / password-wrap / seal a key through paseto-core's generic code, then undo it on that very blob."""
    crate = BACKENDS[backend]
    res = make_resolver(world, crate, {})
    sub = {"V": short(VERSION_TYPE[crate]), "K": "K"}
    wk, uk, secret_name = PASERK_OPS[op]
    f = exact_core_fn(world, wk)
    g = exact_core_fn(world, uk)
    out = {"backend": backend, "op": op, "problems": []}
    if f is None or g is None:
        out["problems"].append(f"anchor-missing: paseto_core {wk} / {uk}")
        return out
    wargs = None
    if op == "pke":
        # the recipient public key is the one derived from the secret key the blob is later unsealed with
        fparams = f["body"]["locals"][1:1 + f["body"]["argc"]]
        uk = find_impl_fn(world, crate, "::SealingVersion", "unsealing_key", "Public")
        skfield = ("ptr", ("F", ("P", 2, "with"), 0))
        pkterm = None
        if backend != "v1" and uk is not None:
            ru = Run(world, uk, args=[skfield], resolver=res)
            rets = [x for x in ru.results if x.kind == "return"]
            if len(rets) == 1:
                pkterm = ru.interp.argval(rets[0].path, rets[0].ret)
        if pkterm is None:
            pkterm = ("agg", "adt:PkePublicKey::PkePublicKey", (("call", "RSA-public-key-of", (("field", ("field", ("init", ("P", 2, "with")), 0), 0),)),))
        out["recipient_pk"] = pkterm
        wargs = [("param", 1, "self"), ("ptr", ("T", ("agg", "adt:Key::Key", (pkterm,))))]
    wrap = Run(world, f, args=wargs, subst=sub, resolver=res)
    out["wrap"] = wrap
    oks = wrap.ok_paths
    bad_other = [r for r in wrap.other_paths if r.kind not in ("diverge",)]
    if len(oks) != 1 or bad_other:
        out["problems"].append(f"wrap: expected exactly one success path, got {len(oks)} (+{len(bad_other)} non-returning: {[ (r.kind, r.exit_site) for r in bad_other][:3]})")
        if not oks:
            return out
    r = oks[0]
    blob = wrap.interp.okv(None, r.path, r.ret)
    out["blob"] = wrap.norm.n(wrap.interp.argval(r.path, blob))
    # undo: (self=blob, secret)
    gparams = g["body"]["locals"][1:1 + g["body"]["argc"]]
    args = [blob]
    for i, l in enumerate(gparams[1:], start=2):
        nm = l.get("name", f"arg{i}")
        args.append(unseal_key_arg if (unseal_key_arg is not None and i == 2) else ("ptr", ("P", i, nm)))
    undo = Run(world, g, args=args, subst=sub, resolver=res, path=Path())
    undo.norm.input_widths.update(wrap.norm.input_widths)
    undo.norm.value_widths.update(wrap.norm.value_widths)
    out["undo"] = undo
    uoks = undo.ok_paths
    if len(uoks) != 1:
        out["problems"].append(f"unwrap∘wrap: expected exactly one success path, got {len(uoks)}")
        if not uoks:
            return out
    r2 = uoks[0]
    out["undo_path"] = r2
    out["problems"] += length_guard_problems(undo, r2, "unwrap∘wrap")
    out["verifications"] = verification_terms(undo, r2)
    out["result"] = undo.norm.n(undo.ret_value(r2))
    return out
