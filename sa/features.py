"""Feature matrix helpers for C19: closures of cargo features, per-configuration builds and fact digests."""
import os, sys, json, subprocess, itertools, hashlib, tomllib, time
VERIF = os.path.dirname(os.path.dirname(os.path.abspath(__file__)))
REPO = os.environ.get("VERIF_REPO", "/repo")
CACHE = os.path.join(VERIF, ".cache")
FEATURE_CRATES = ["paseto-v1", "paseto-v2", "paseto-v3", "paseto-v4"]

def feature_table(crate, repo=None):
    with open(os.path.join(repo or REPO, crate, "Cargo.toml"), "rb") as f:
        t = tomllib.load(f)
    return t.get("features", {})

def closure(table, feats):
    seen = set()
    st = list(feats)
    while st:
        x = st.pop()
        if x in seen or x not in table:
            continue
        seen.add(x)
        for y in table[x]:
            if y in table:
                st.append(y)
    return frozenset(seen)

def distinct_closures(crate, repo=None):
    """{closure frozenset: smallest generating feature list} over all subsets of the crate's non-default flags."""
    table = feature_table(crate, repo)
    flags = sorted(k for k in table if k != "default")
    out = {}
    for r in range(len(flags) + 1):
        for sub in itertools.combinations(flags, r):
            c = closure(table, sub)
            if c not in out:
                out[c] = list(sub)
    return table, flags, out

def quick_sets(crate, repo=None):
    table, flags, cl = distinct_closures(crate, repo)
    sets = [[]] + [[f] for f in flags]
    return table, flags, cl, sets

def SCRATCH_SUFFIX():
    """Parallel scratch runs (tools/run_matrix.py --jobs) keep their cargo target directories apart."""
    return os.environ.get("VERIF_SCRATCH_SUFFIX", "")

def cargo_check(crate, feats, default=False, repo=None):
    env = dict(os.environ)
    env["CARGO_NET_OFFLINE"] = "true"
    env["CARGO_TARGET_DIR"] = os.path.join(CACHE, "target-feat" + SCRATCH_SUFFIX(), crate)
    cmd = ["cargo", "check", "--offline", "--quiet", "-p", crate]
    if not default:
        cmd += ["--no-default-features"]
        if feats:
            cmd += ["--features", ",".join(feats)]
    r = subprocess.run(cmd, cwd=repo or REPO, env=env, capture_output=True, text=True)
    errs = [l for l in r.stderr.splitlines() if l.startswith("error")]
    return r.returncode, errs[:6], r.stderr[-1500:]

def canon(cr, x):
    """Body JSON with spans dropped and type ids replaced by type strings (ids differ between compilations)."""
    if isinstance(x, dict):
        if set(x.keys()) == {"t"} and isinstance(x["t"], int):      # generic argument {"t": type id}
            return {"t": cr.types[x["t"]]["s"]}
        out = {}
        for k, v in x.items():
            if k == "sp" or k == "span":
                continue
            if k in ("ty", "to", "elem", "inner") and isinstance(v, int):
                out[k] = cr.types[v]["s"]
            else:
                out[k] = canon(cr, v)
        return out
    if isinstance(x, list):
        return [canon(cr, v) for v in x]
    return x

def strip_unwind(body):
    """Drop cleanup (unwind) blocks and turn `drop` terminators into gotos: drop elaboration depends on whether dependency
    types need drop, which cargo's feature unification (e.g. `zeroize`) changes without changing what the function computes."""
    blocks = body["blocks"]
    keep = [i for i, b in enumerate(blocks) if not b["cleanup"]]
    ren = {old: new for new, old in enumerate(keep)}
    out = []
    for i in keep:
        b = dict(blocks[i])
        t = dict(b["term"])
        if t["k"] == "drop":
            t = {"k": "goto", "t": t["t"]}
        if "t" in t and isinstance(t["t"], int):
            t["t"] = ren.get(t["t"], -1)
        if t["k"] == "switch":
            t["arms"] = [[v, ren.get(tg, -1)] for v, tg in t["arms"]]
            t["otherwise"] = ren.get(t["otherwise"], -1)
        b["term"] = t
        out.append(b)
    # thread jumps through empty goto blocks and renumber reachable blocks in DFS order
    def final(i, seen=()):
        while 0 <= i < len(out) and not out[i]["stmts"] and out[i]["term"]["k"] == "goto" and i not in seen:
            seen = seen + (i,)
            i = out[i]["term"]["t"]
        return i
    for b in out:
        t = b["term"]
        if "t" in t and isinstance(t["t"], int):
            t["t"] = final(t["t"])
        if t["k"] == "switch":
            t["arms"] = [[v, final(tg)] for v, tg in t["arms"]]
            t["otherwise"] = final(t["otherwise"])
    order, st = [], [final(0)]
    seen = set()
    while st:
        i = st.pop()
        if i in seen or not (0 <= i < len(out)):
            continue
        seen.add(i)
        order.append(i)
        t = out[i]["term"]
        succ = []
        if t["k"] == "switch":
            succ = [tg for _, tg in t["arms"]] + [t["otherwise"]]
        elif "t" in t and isinstance(t["t"], int):
            succ = [t["t"]]
        st.extend(reversed(succ))
    ren2 = {old: new for new, old in enumerate(order)}
    res = []
    for i in order:
        b = out[i]
        t = b["term"]
        if "t" in t and isinstance(t["t"], int):
            t["t"] = ren2.get(t["t"], -1)
        if t["k"] == "switch":
            t["arms"] = [[v, ren2.get(tg, -1)] for v, tg in t["arms"]]
            t["otherwise"] = ren2.get(t["otherwise"], -1)
        res.append(b)
    nb = dict(body)
    nb["blocks"] = res
    return normalise_locals(collapse_flag_switches(nb))

def _places(o, f):
    """Calls f(place_dict) for every MIR place in a JSON fragment (and for index-projection locals)."""
    if isinstance(o, dict):
        if "l" in o and "p" in o and isinstance(o["l"], int):
            f(o)
            for e in o["p"]:
                if isinstance(e, dict) and "idx" in e:
                    f({"l": e["idx"], "p": [], "_idx": e})
            return
        for v in o.values():
            _places(v, f)
    elif isinstance(o, list):
        for v in o:
            _places(v, f)

def collapse_flag_switches(body):
    """Second half of neutralising drop elaboration: a switch whose arms all reach the same block is a goto (that is what a
    drop-flag test becomes once drops are gotos); assignments of constants to locals nobody reads (the flags) are removed.
    Repeats until nothing changes, then re-threads and renumbers blocks."""
    import copy
    blocks = copy.deepcopy(body["blocks"])
    changed = True
    while changed:
        changed = False
        for b in blocks:
            t = b["term"]
            if t["k"] == "switch":
                tg = {x for _, x in t["arms"]} | {t["otherwise"]}
                if len(tg) == 1:
                    b["term"] = {"k": "goto", "t": tg.pop()}
                    changed = True
        for b in blocks:
            t = b["term"]
            if t["k"] == "goto" and 0 <= t["t"] < len(blocks):
                x = blocks[t["t"]]
                if not x["stmts"] and x["term"]["k"] in ("return", "unreachable"):
                    b["term"] = dict(x["term"])
                    changed = True
        reads = set()
        for b in blocks:
            for st in b["stmts"]:
                if st["k"] == "assign":
                    _places(st["rv"], lambda pl: reads.add(pl["l"]))
                    if st["place"]["p"]:
                        reads.add(st["place"]["l"])
                        _places(st["place"]["p"], lambda pl: reads.add(pl["l"]))
                else:
                    _places(st, lambda pl: reads.add(pl["l"]))
            t = b["term"]
            for k, v in t.items():
                if k == "dest" and isinstance(v, dict) and not v.get("p"):
                    continue
                _places(v, lambda pl: reads.add(pl["l"]))
        for b in blocks:
            keep = []
            for st in b["stmts"]:
                if st["k"] == "assign" and not st["place"]["p"] and st["place"]["l"] not in reads and st["place"]["l"] != 0 \
                        and st["rv"]["k"] == "use" and "const" in st["rv"]["op"]:
                    changed = True
                    continue
                keep.append(st)
            b["stmts"] = keep
        # re-thread empty goto blocks
        def final(i, seen=()):
            while 0 <= i < len(blocks) and not blocks[i]["stmts"] and blocks[i]["term"]["k"] == "goto" and i not in seen:
                seen = seen + (i,)
                i = blocks[i]["term"]["t"]
            return i
        for b in blocks:
            t = b["term"]
            if "t" in t and isinstance(t["t"], int):
                nt = final(t["t"])
                changed |= nt != t["t"]
                t["t"] = nt
            if t["k"] == "switch":
                na = [[v, final(x)] for v, x in t["arms"]]
                no = final(t["otherwise"])
                changed |= na != t["arms"] or no != t["otherwise"]
                t["arms"], t["otherwise"] = na, no
    # renumber reachable blocks in DFS order
    order, st, seen = [], [0], set()
    def final0(i):
        s2 = ()
        while 0 <= i < len(blocks) and not blocks[i]["stmts"] and blocks[i]["term"]["k"] == "goto" and i not in s2:
            s2 = s2 + (i,)
            i = blocks[i]["term"]["t"]
        return i
    st = [final0(0)]
    while st:
        i = st.pop()
        if i in seen or not (0 <= i < len(blocks)):
            continue
        seen.add(i)
        order.append(i)
        t = blocks[i]["term"]
        succ = [x for _, x in t["arms"]] + [t["otherwise"]] if t["k"] == "switch" else ([t["t"]] if "t" in t and isinstance(t["t"], int) else [])
        st.extend(reversed(succ))
    ren = {old: new for new, old in enumerate(order)}
    res = []
    for i in order:
        b = blocks[i]
        t = b["term"]
        if "t" in t and isinstance(t["t"], int):
            t["t"] = ren.get(t["t"], -1)
        if t["k"] == "switch":
            t["arms"] = [[v, ren.get(x, -1)] for v, x in t["arms"]]
            t["otherwise"] = ren.get(t["otherwise"], -1)
        res.append(b)
    nb = dict(body)
    nb["blocks"] = res
    return nb

def normalise_locals(body):
    """Renumber locals in order of first appearance (return place and arguments keep their numbers) and keep only used ones:
    extra temporaries of drop elaboration shift the numbering without changing the computation."""
    import copy
    body = copy.deepcopy(body)
    argc = body.get("argc", 0)
    order = list(range(argc + 1))
    seen = set(order)
    def note(pl):
        if pl["l"] not in seen:
            seen.add(pl["l"])
            order.append(pl["l"])
    for b in body["blocks"]:
        _places(b["stmts"], note)
        _places(b["term"], note)
    ren = {old: new for new, old in enumerate(order)}
    def apply(pl):
        if "_idx" in pl:
            pl["_idx"]["idx"] = ren[pl["l"]]
        else:
            pl["l"] = ren[pl["l"]]
    for b in body["blocks"]:
        _places(b["stmts"], apply)
        _places(b["term"], apply)
    locs = body.get("locals", [])
    body["locals"] = [dict((k, v) for k, v in locs[o].items() if k != "name") if o < len(locs) else {} for o in order]
    return body

def fn_digests(cr):
    out = {}
    for k, f in cr.fns.items():
        body = canon(cr, strip_unwind(f["body"]))
        prom = canon(cr, [strip_unwind(p) for p in f.get("promoted", [])])
        sig = [cr.ty_s(t) for t in f.get("inputs", [])] + [cr.ty_s(f["output"])] if "output" in f else []
        h = hashlib.sha256(json.dumps([body, prom, sig], sort_keys=True).encode()).hexdigest()[:16]
        out[k] = h
    return out

if __name__ == "__main__":
    if "--warm" in sys.argv:
        from concurrent.futures import ThreadPoolExecutor
        t0 = time.time()
        with ThreadPoolExecutor(max_workers=4) as ex:
            rs = list(ex.map(lambda c: cargo_check(c, [], default=True), FEATURE_CRATES))
        print("warm", [r[0] for r in rs], f"{time.time()-t0:.1f}s")
    else:
        for c in FEATURE_CRATES:
            t, fl, cl = distinct_closures(c)
            print(c, len(fl), "flags", len(cl), "distinct closures")
