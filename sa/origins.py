"""Flow-insensitive origin evaluation inside one MIR body (for functions with loops, where path enumeration stops):
every local with a single definition is expanded to the term that defines it; multiply-defined locals become ('phi', n)."""
from facts import short, qshort

class Origins:
    def __init__(self, fn):
        self.fn = fn
        self.cr = fn["_crate"]
        self.body = fn["body"]
        self.defs = {}
        for bi, b in enumerate(self.body["blocks"]):
            if b["cleanup"]:
                continue
            for st in b["stmts"]:
                if st["k"] == "assign" and not st["place"]["p"]:
                    self.defs.setdefault(st["place"]["l"], []).append(("rv", st["rv"], bi))
            t = b["term"]
            if t["k"] == "call" and not t["dest"]["p"]:
                self.defs.setdefault(t["dest"]["l"], []).append(("call", t, bi))
        self.memo = {}

    def local(self, n, depth=0):
        if n in self.memo:
            return self.memo[n]
        argc = self.body["argc"]
        if 1 <= n <= argc and n not in self.defs:
            r = ("arg", n, self.body["locals"][n].get("name", f"arg{n}"))
        else:
            ds = self.defs.get(n, [])
            if len(ds) != 1 or depth > 40:
                r = ("phi", n, len(ds))
            else:
                kind, x, bi = ds[0]
                self.memo[n] = ("rec", n)
                r = self.rvalue(x, depth + 1) if kind == "rv" else self.call(x, depth + 1)
        self.memo[n] = r
        return r

    def place(self, p, depth):
        t = self.local(p["l"], depth)
        for e in p["p"]:
            if e == "*":
                t = ("deref", t) if not (isinstance(t, tuple) and t[0] == "ref") else t[1]
            elif isinstance(e, dict) and "f" in e:
                t = ("field", t, e["f"])
            elif isinstance(e, dict) and "variant" in e:
                t = ("variant", t, e["name"] or str(e["variant"]))
            elif isinstance(e, dict) and "idx" in e:
                t = ("index", t, self.local(e["idx"], depth))
            elif isinstance(e, dict) and "cidx" in e:
                t = ("index", t, ("int", e["cidx"]))
            else:
                t = ("proj", t, str(e))
        return t

    def operand(self, o, depth):
        if "copy" in o or "move" in o:
            return self.place(o.get("copy") or o.get("move"), depth)
        c = o["const"]
        if "fndef" in c:
            return ("fn", c["fndef"])
        v = c.get("val")
        if v is None:
            if "uneval" in c:
                return ("aconst", short(c["uneval"]))
            return ("constparam", short(self.cr.ty_s(c["ty"])))
        if "int" in v:
            return ("int", v["int"])
        if "bytes" in v:
            return ("bytes", bytes(v["bytes"]))
        return ("const", str(v)[:30])

    def rvalue(self, rv, depth):
        k = rv["k"]
        if k == "use":
            return self.operand(rv["op"], depth)
        if k in ("ref", "rawptr"):
            return ("ref", self.place(rv["place"], depth))
        if k == "copyforderef":
            return self.place(rv["place"], depth)
        if k == "cast":
            v = self.operand(rv["op"], depth)
            if rv["ck"].startswith("ptrcoerce"):
                return v
            return ("cast", rv["ck"], v, short(self.cr.ty_s(rv["to"])))
        if k == "binop":
            return ("binop", rv["op"], self.operand(rv["a"], depth), self.operand(rv["b"], depth))
        if k == "unop":
            return ("unop", rv["op"], self.operand(rv["a"], depth))
        if k == "discr":
            return ("discr", self.place(rv["place"], depth))
        if k == "agg":
            ak = rv["ak"]
            nm = ak["a"] if ak["a"] != "adt" else f"adt:{short(ak['path'])}::{ak['vname']}"
            if ak["a"] == "closure":
                nm = "closure:" + ak["path"]
            return ("agg", nm, tuple(self.operand(o, depth) for o in rv["ops"]))
        if k == "repeat":
            return ("repeat", self.operand(rv["op"], depth), rv["n"])
        return ("rv?", k)

    def call(self, t, depth):
        ce = t["callee"]
        name = qshort(ce.get("r_full") if ce.get("r_path") and ce.get("r_kind") == "item" else ce.get("full", "?")) if "path" in ce else "indirect"
        return ("call", name, ce.get("path"), tuple(self.operand(a, depth) for a in t["args"]))

    def call_sites(self, pred):
        out = []
        for bi, b in enumerate(self.body["blocks"]):
            t = b["term"]
            if not b["cleanup"] and t["k"] == "call" and "path" in t["callee"] and pred(t["callee"]):
                out.append((bi, t))
        return out
