"""Shared key-decoding rules (C01 anchor, C08, C10)."""
from ops import find_impl_fn, Run
from norm import fn as fmt_n
from termutil import pin_of

def modulus_guard(world, crate, kind, bits):
    """Every success path of HasKey<kind>::decode passes `n.bits() == bits` for the key it returns."""
    f = find_impl_fn(world, crate, "::HasKey", "decode", kind)
    if f is None:
        return False, f"anchor missing: HasKey<{kind}>::decode in {crate}", None
    run = Run(world, f)
    oks = run.ok_paths
    if not oks:
        return False, "no success path", f
    probs = []
    for r in oks:
        found = False
        for g in r.path.guards:
            pin = pin_of(run.norm.n(g["cond"]), g["value"], g.get("arms"))
            if pin and "BigUint::bits" in repr(pin[0]) and pin[1] == bits and pin[2]:
                found = True
        if not found:
            conds = [fmt_n(run.norm.n(g["cond"]))[:120] for g in r.path.guards if "bits" in repr(run.norm.n(g["cond"]))]
            probs.append(f"a success path is not guarded by modulus bits == {bits} (size tests on the path: {conds})")
    return (not probs), "; ".join(sorted(set(probs))), f

# ---------------------------------------------------------------- accepted byte widths of HasKey::decode
LIB_EXACT = {   # library parsers applied to the (remaining) byte slice, with the lengths they accept
    "libsodium_rs::crypto_sign::PublicKey::from_bytes": {32},
    "libsodium_rs::crypto_sign::SecretKey::from_bytes": {64},
    "ecdsa::verifying::VerifyingKey::<NistP384>::from_sec1_bytes": {49, 97},
    "lc::VerifyingKey::from_sec1_bytes": {49, 97},
    "elliptic_curve::secret_key::SecretKey::<NistP384>::from_slice": {48},   # (p384 zero-pads shorter input: the caller must test the length)
}

def accepted_widths(run, r, param="bytes"):
    """Set of total input lengths a success path of a decoder accepts, or ('open', min) when nothing closes the length."""
    from norm import fn as fmt_n
    base = ("in", param)
    consumed = 0
    rem_lo = (0, 0)
    nm = run.norm
    # whole-length guards
    for g in r.path.guards:
        pin = pin_of(nm.n(g["cond"]), g["value"], g.get("arms"))
        if pin and pin[0] == ("len", base) and pin[2]:
            return {pin[1]}
    for e in r.path.events:
        k = e["kind"]
        tgt = e.get("target")
        if k in ("split", "exactlen") and tgt is not None:
            tn = nm.loc_in(tgt)
            cur = base if rem_lo == (0, 0) else ("sl", base, rem_lo, (0, 1))
            if tn != cur:
                continue
            if k == "exactlen":
                return {consumed + e["n"]}
            if k == "split" and e.get("how") in ("first",):
                consumed += e["n"]
                rem_lo = (rem_lo[0] + e["n"], 0)
            elif k == "split" and e.get("how") in ("first1",):
                return ("open", consumed + e["n"])
        if k == "call":
            p = e["name"].split("::<&")[0]
            for lib, ws in LIB_EXACT.items():
                if e["name"].startswith(lib) and e["vals"]:
                    a0 = nm.n(e["vals"][0])
                    cur = base if rem_lo == (0, 0) else ("sl", base, rem_lo, (0, 1))
                    if a0 == cur:
                        if lib.endswith("from_slice"):
                            continue     # not an exact-length parser
                        return {consumed + w for w in ws}
    return ("open", consumed)

# ---------------------------------------------------------------- encode(decode(bytes)) == bytes
# library constructors that store the supplied encoding verbatim and whose as_bytes()/to_bytes() return it unchanged
PRESERVING = (
    "ed25519_dalek::verifying::VerifyingKey::from_bytes",
    "libsodium_rs::crypto_sign::PublicKey::from_bytes", "libsodium_rs::crypto_sign::SecretKey::from_bytes",
    "libsodium_rs::crypto_sign::PublicKey::from_bytes_exact",
)
# parse/serialise pairs that are mutually inverse on inputs of the stated exact width
INVERSE_PAIRS = {
    # serialiser (applied to parser(x))           parser                                               width
    "ENCPUB": (("ecdsa::verifying::VerifyingKey::<NistP384>::from_sec1_bytes", "lc::VerifyingKey::from_sec1_bytes"), 49),
    "ecdsa::signing::SigningKey::<NistP384>::to_bytes": (("P384SK-from_slice",), 48),
    "lc::SigningKey::encode": (("lc::SigningKey::from_sec1_bytes",), 48),
}

def _unok(t):
    while isinstance(t, tuple) and t and t[0] == "ok":
        t = t[1]
    return t

def strip_roundtrip(nm, t):
    """Rewrite serialise(parse(x)) -> x for the listed library pairs, bottom-up."""
    if not isinstance(t, tuple) or not t:
        return t
    t = tuple(strip_roundtrip(nm, x) for x in t)
    u = _unok(t)
    if isinstance(u, tuple) and u and u[0] == "call" and u[1] in PRESERVING and len(u[2]) == 1:
        x = _unok(u[2][0])
        return x[1] if isinstance(x, tuple) and x and x[0] == "tryarray" else x
    if isinstance(u, tuple) and u and u[0] == "tryarray":
        return u[1]
    if isinstance(u, tuple) and u and u[0] == "ENCPUB":
        k = _unok(u[1])
        if isinstance(k, tuple) and k[0] == "call" and k[1] in INVERSE_PAIRS["ENCPUB"][0]:
            return k[2][0]
    if isinstance(u, tuple) and u and u[0] == "call" and u[1] == "ecdsa::signing::SigningKey::<NistP384>::to_bytes":
        k = _unok(u[2][0])
        # SigningKey::from(SecretKey::from_slice(b))
        if isinstance(k, tuple) and k[0] == "call" and "Into<SigningKey<NistP384>>" in k[1] or (isinstance(k, tuple) and k[0] == "call" and "From<SecretKey<NistP384>>" in k[1]):
            inner = _unok(k[2][0])
            if isinstance(inner, tuple) and inner[0] == "call" and inner[1] == "elliptic_curve::secret_key::SecretKey::<NistP384>::from_slice":
                return inner[2][0]
    if isinstance(u, tuple) and u and u[0] == "call" and u[1] == "lc::SigningKey::encode":
        k = _unok(u[2][0])
        if isinstance(k, tuple) and k[0] == "call" and k[1] == "lc::SigningKey::from_sec1_bytes":
            return k[2][0]
    if t[0] == "ok" and isinstance(u, tuple) and u and u[0] in ("in", "sl", "cat"):
        t = u
    if isinstance(u, tuple) and u and u[0] == "cat":
        # merge adjacent slices of the same buffer
        parts = list(u[1])
        out = []
        for p in parts:
            if out and isinstance(p, tuple) and p[0] == "sl" and isinstance(out[-1], tuple) and out[-1][0] == "sl" and out[-1][1] == p[1] and out[-1][3] == p[2]:
                out[-1] = ("sl", p[1], out[-1][2], p[3])
            else:
                out.append(p)
        if len(out) == 1:
            o = out[0]
            if isinstance(o, tuple) and o[0] == "sl" and o[2] == (0, 0) and o[3] == (0, 1):
                return o[1]
            return o
        return ("cat", tuple(out))
    return t

def subst_term(t, old, new):
    if t == old:
        return new
    if isinstance(t, tuple):
        return tuple(subst_term(x, old, new) for x in t)
    return t

def path_equalities(run_, r):
    """Pairs (a, b) of normalised terms that a success path has established to be equal: a std PartialEq eq/ne call or a
    primitive ==/!= whose EQUAL edge the path took (reference operands are dereferenced)."""
    out = []
    for g in r.path.guards:
        raw, v = g["cond"], g["value"]
        if not (isinstance(raw, tuple) and raw):
            continue
        if raw[0] == "call" and len(raw[2]) == 2 and "PartialEq" in raw[1] and raw[1].rsplit("::", 1)[-1] in ("eq", "ne"):
            equal = (v == 1) if raw[1].endswith("::eq") else (v == 0)
            ops_ = raw[2]
        elif raw[0] == "binop" and len(raw) == 4 and raw[1] in ("Eq", "Ne"):
            equal = (v == 1) if raw[1] == "Eq" else (v == 0)
            ops_ = raw[2:4]
        else:
            continue
        if equal:
            a, b = (run_.norm.n(run_.interp.argval(r.path, x)) for x in ops_)
            out.append((a, b))
    return out

def encode_decode_identity(world, crate, kind):
    """For every success path of HasKey<kind>::decode: HasKey<kind>::encode of the resulting key yields the input bytes."""
    from interp import Path
    from norm import fn as fmt_n
    d = find_impl_fn(world, crate, "::HasKey", "decode", kind)
    e = find_impl_fn(world, crate, "::HasKey", "encode", kind)
    if d is None or e is None:
        return False, "anchor missing: HasKey encode/decode", d
    drun = Run(world, d)
    probs = []
    if not drun.ok_paths:
        probs.append("decode has no success path")
    for r in drun.ok_paths:
        key = drun.interp.okv(None, r.path, r.ret)
        keyv = drun.interp.argval(r.path, key)
        erun = Run(world, e, args=[("ptr", ("T", keyv))], path=Path())
        erun.norm.input_widths.update(drun.norm.input_widths)
        rets = [x for x in erun.results if x.kind == "return"]
        if len(rets) != 1:
            probs.append(f"encode has {len(rets)} return paths")
            continue
        out = erun.norm.n(erun.interp.argval(rets[0].path, rets[0].ret))
        # equalities established by decode's guards (e.g. derived public key == embedded public key), in any spelling
        eqs = path_equalities(drun, r)
        def close(o):
            prev = None
            while prev != o:
                prev = o
                o = strip_roundtrip(erun.norm, o)
            return o
        cands = [out]
        for a, b in eqs:
            nxt = []
            for o in cands:
                for x, y in ((a, b), (b, a)):
                    o2 = subst_term(subst_term(o, x, y), ("ENCPUB", x), ("ENCPUB", y))
                    if o2 not in nxt:
                        nxt.append(o2)
            cands = (cands + [o for o in nxt if o not in cands])[:16]
        outs = [close(o) for o in cands]
        out = ("in", "bytes") if ("in", "bytes") in outs else outs[0]
        if out != ("in", "bytes"):
            probs.append("encode(decode(bytes)) is not bytes (the key does not keep the supplied encoding): " + fmt_n(out)[:300])
    return (not probs), "; ".join(sorted(set(probs))), d
