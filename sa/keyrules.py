"""Shared key-decoding rules (C01 anchor, C08, C10)."""
from ops import find_impl_fn, Run
from norm import fn as fmt_n

def modulus_guard(world, crate, kind, bits):
    """Every success path of HasKey<kind>::decode passes `n.bits() == bits` for the key it returns."""
    f = find_impl_fn(world, crate, "::HasKey", "decode", kind)
    if f is None:
        return False, f"anchor missing: HasKey<{kind}>::decode in {crate}", None
    run = Run(world, f)
    oks = run.ok_paths
    if not oks:
        return False, "no success path", f
    probs = []
    for r in oks:
        found = False
        for g in r.path.guards:
            c = run.norm.n(g["cond"])
            if isinstance(c, tuple) and c[0] == "binop" and c[1] in ("Ne", "Eq") and "BigUint::bits" in repr(c[2]) and c[3] == ("int", bits):
                taken_eq = (c[1] == "Ne" and g["value"] == 0) or (c[1] == "Eq" and g["value"] == 1)
                if taken_eq:
                    found = True
        if not found:
            conds = [fmt_n(run.norm.n(g["cond"]))[:120] for g in r.path.guards if "bits" in repr(run.norm.n(g["cond"]))]
            probs.append(f"a success path is not guarded by modulus bits == {bits} (size tests on the path: {conds})")
    return (not probs), "; ".join(sorted(set(probs))), f

# ---------------------------------------------------------------- accepted byte widths of HasKey::decode
LIB_EXACT = {   # library parsers applied to the (remaining) byte slice, with the lengths they accept
    "libsodium_rs::crypto_sign::PublicKey::from_bytes": {32},
    "libsodium_rs::crypto_sign::SecretKey::from_bytes": {64},
    "ecdsa::verifying::VerifyingKey::<NistP384>::from_sec1_bytes": {49, 97},
    "lc::VerifyingKey::from_sec1_bytes": {49, 97},
    "elliptic_curve::secret_key::SecretKey::<NistP384>::from_slice": {48},   # (p384 zero-pads shorter input: the caller must test the length)
}

def accepted_widths(run, r, param="bytes"):
    """Set of total input lengths a success path of a decoder accepts, or ('open', min) when nothing closes the length."""
    from norm import fn as fmt_n
    base = ("in", param)
    consumed = 0
    rem_lo = (0, 0)
    nm = run.norm
    # whole-length guards
    for g in r.path.guards:
        c = nm.n(g["cond"])
        if isinstance(c, tuple) and c[0] == "binop" and c[1] in ("Ne", "Eq") and c[2] == ("len", base) and c[3][0] == "int":
            if (c[1] == "Ne" and g["value"] == 0) or (c[1] == "Eq" and g["value"] == 1):
                return {c[3][1]}
    for e in r.path.events:
        k = e["kind"]
        tgt = e.get("target")
        if k in ("split", "exactlen") and tgt is not None:
            tn = nm.loc_in(tgt)
            cur = base if rem_lo == (0, 0) else ("sl", base, rem_lo, (0, 1))
            if tn != cur:
                continue
            if k == "exactlen":
                return {consumed + e["n"]}
            if k == "split" and e.get("how") in ("first",):
                consumed += e["n"]
                rem_lo = (rem_lo[0] + e["n"], 0)
            elif k == "split" and e.get("how") in ("first1",):
                return ("open", consumed + e["n"])
        if k == "call":
            p = e["name"].split("::<&")[0]
            for lib, ws in LIB_EXACT.items():
                if e["name"].startswith(lib) and e["vals"]:
                    a0 = nm.n(e["vals"][0])
                    cur = base if rem_lo == (0, 0) else ("sl", base, rem_lo, (0, 1))
                    if a0 == cur:
                        if lib.endswith("from_slice"):
                            continue     # not an exact-length parser
                        return {consumed + w for w in ws}
    return ("open", consumed)
