"""Shared key-decoding rules (C01 anchor, C08, C10)."""
from ops import find_impl_fn, Run
from norm import fn as fmt_n

def modulus_guard(world, crate, kind, bits):
    """Every success path of HasKey<kind>::decode passes `n.bits() == bits` for the key it returns."""
    f = find_impl_fn(world, crate, "::HasKey", "decode", kind)
    if f is None:
        return False, f"anchor missing: HasKey<{kind}>::decode in {crate}", None
    run = Run(world, f)
    oks = run.ok_paths
    if not oks:
        return False, "no success path", f
    probs = []
    for r in oks:
        found = False
        for g in r.path.guards:
            c = run.norm.n(g["cond"])
            if isinstance(c, tuple) and c[0] == "binop" and c[1] in ("Ne", "Eq") and "BigUint::bits" in repr(c[2]) and c[3] == ("int", bits):
                taken_eq = (c[1] == "Ne" and g["value"] == 0) or (c[1] == "Eq" and g["value"] == 1)
                if taken_eq:
                    found = True
        if not found:
            conds = [fmt_n(run.norm.n(g["cond"]))[:120] for g in r.path.guards if "bits" in repr(run.norm.n(g["cond"]))]
            probs.append(f"a success path is not guarded by modulus bits == {bits} (size tests on the path: {conds})")
    return (not probs), "; ".join(sorted(set(probs))), f
