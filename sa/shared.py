"""Rule sharing between property checks: a property often depends on a structural condition that another property's module
already decides.  share() runs the other module on a scratch context (same world / facts) and re-reports the selected findings
under the borrowing property's own rule id, so that each check stands on its own."""
import importlib

_cache = {}

class Scratch:
    def __init__(self, ctx):
        self.findings = []
        self.world, self.crates = ctx.world, ctx.crates
        self.analysed = {"functions": 0, "paths": 0, "call_sites": 0}
        self.notes, self.tier = [], getattr(ctx, 'tier', 'quick')
        self.facts_dir = getattr(ctx, "facts_dir", None)
        self.repo = getattr(ctx, "repo", None)
        self.prop = getattr(ctx, "prop", None)
    def add(self, rule, k, ok, detail="", site=None, facts=None):
        self.findings.append((rule, k, ok, detail, site))
    def sample(self, x):
        pass

def findings_of(ctx, module):
    """All findings of `module`.run on this context's facts (memoised per facts dir within one process)."""
    key = (module, getattr(ctx, "facts_dir", None), id(ctx.world))
    if key not in _cache:
        sc = Scratch(ctx)
        importlib.import_module(module).run(sc)
        _cache[key] = sc.findings
    return _cache[key]

def share(ctx, module, select, rule, prefix):
    n = 0
    for (r, k, ok, detail, site) in findings_of(ctx, module):
        if select(r, k):
            ctx.add(rule, prefix + k.split("/", 1)[-1], ok, detail, site)
            n += 1
    return n
