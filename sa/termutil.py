"""Helpers over normalised terms."""
def subterms(t, pred, out=None, seen=None):
    if out is None:
        out = []
    if seen is None:
        seen = set()
    if isinstance(t, tuple):
        if id(t) in seen:
            return out
        seen.add(id(t))
        if pred(t):
            out.append(t)
        for x in t:
            if isinstance(x, tuple):
                subterms(x, pred, out, seen)
    return out

def contains(t, needle):
    if t == needle:
        return True
    if isinstance(t, tuple):
        return any(contains(x, needle) for x in t if isinstance(x, tuple))
    return False

def payload_slices(t, name="payload"):
    """All slices of the input buffer `name` occurring in t, plus ('whole',) if used unsliced."""
    base = ("in", name)
    sl = []
    whole = [False]
    def walk(x, parent_is_slice=False):
        if not isinstance(x, tuple):
            return
        if x == base:
            if not parent_is_slice:
                whole[0] = True
            return
        if x and x[0] == "sl" and x[1] == base:
            sl.append((x[2], x[3]))
            return
        for y in x:
            if isinstance(y, tuple):
                walk(y)
    walk(t)
    return sorted(set(sl), key=lambda b: (b[0][1], b[0][0], b[1][1], b[1][0])), whole[0]

def tiles(slices):
    """Do the (lo,hi) slices tile [0,len) exactly (no gap, no overlap)? Returns (ok, reason)."""
    if not slices:
        return False, "no region of the buffer is used"
    cur = (0, 0)
    for lo, hi in slices:
        if lo != cur:
            return False, f"gap or overlap at {cur} -> {lo}"
        cur = hi
    if cur != (0, 1):
        return False, f"regions end at {cur}, not at the end of the buffer"
    return True, ""

def pae_terms(t):
    return subterms(t, lambda x: x and x[0] == "PAE")

def pin_of(c, value, arms=None):
    """A guard `c == value` that compares an expression with an integer constant, in any spelling:
         binop Eq/Ne(expr, k) with the branch taken, or a switch/match directly on expr (arm k, or the default arm of a
         one-arm match).  -> (expr, k, holds) meaning `expr == k` is known to hold / not to hold on this edge; None otherwise."""
    if isinstance(c, tuple) and len(c) == 4 and c[0] == "binop" and c[1] in ("Eq", "Ne") and value in (0, 1):
        a, b = c[2], c[3]
        if isinstance(a, tuple) and a and a[0] == "int" and not (isinstance(b, tuple) and b and b[0] == "int"):
            a, b = b, a
        if isinstance(b, tuple) and b and b[0] == "int":
            return a, b[1], (c[1] == "Eq") == (value == 1)
        return None
    if isinstance(c, tuple) and c and (c[0] in ("discr", "unop") or (c[0] == "binop" and len(c) == 4 and c[1] in ("Lt", "Le", "Gt", "Ge", "Eq", "Ne"))):
        return None
    if isinstance(value, int) and not isinstance(value, bool):
        return c, value, True
    if value == "otherwise" and arms and len(arms) == 1 and isinstance(arms[0], int):
        return c, arms[0], False
    return None
