"""Loader for the JSON facts written by /verif/driver and a MIR pretty-printer."""
import json, os, re

class Crate:
    def __init__(self, path):
        with open(path) as f:
            d = json.load(f)
        self.raw = d
        self.name = d["crate"]
        self.nonce = d.get("nonce")
        self.types = d["types"]
        self.fns = {}
        for f in d["fns"]:
            f["crate"] = self.name
            f["_crate"] = self
            # closures of the same parent share a def-path prefix; keep unique keys
            key = f["path"]
            if key in self.fns:
                n = 1
                while f"{key}#{n}" in self.fns:
                    n += 1
                key = f"{key}#{n}"
            f["key"] = key
            self.fns[key] = f
        self.impls = d["impls"]
        self.adts = {a["path"]: a for a in d["adts"]}
        self.statics = d["statics"]
        self.traits = {t["path"]: t for t in d["traits"]}
        self.foreign = {f["path"]: f for f in d["foreign"]}
        self.features = d.get("cfg", [])

    def ty(self, tid):
        return self.types[tid]

    def ty_s(self, tid):
        return self.types[tid]["s"]

LIB_CRATES = ["paseto_core", "paseto_json", "paseto_v1", "paseto_v2", "paseto_v3",
              "paseto_v3_aws_lc", "paseto_v4", "paseto_v4_sodium"]

def load_all(facts_dir):
    out = {}
    for c in LIB_CRATES:
        p = os.path.join(facts_dir, f"{c}.lib.json")
        if os.path.exists(p):
            out[c] = Crate(p)
    return out

# ---------------------------------------------------------------- typenum
_TN = re.compile(r"(?:[a-z_0-9]+::)*(UInt|UTerm|B0|B1)")
def typenum(s):
    """Decode a printed typenum unsigned (`UInt<UInt<UTerm, B1>, B0>`) to int, else None."""
    s = re.sub(r"(?:[A-Za-z_0-9]+::)+", "", s).replace(" ", "")
    def parse(i):
        if s.startswith("UTerm", i):
            return 0, i + 5
        if s.startswith("UInt<", i):
            v, j = parse(i + 5)
            if v is None or s[j] != ",":
                return None, j
            j += 1
            if s.startswith("B0", j):
                b = 0
            elif s.startswith("B1", j):
                b = 1
            else:
                return None, j
            j += 2
            if s[j] != ">":
                return None, j
            return v * 2 + b, j + 1
        return None, i
    try:
        v, j = parse(0)
        if j != len(s):
            return None
        return v
    except IndexError:
        return None

_ALIASES = [
    (re.compile(r"CoreWrapper<CtVariableCoreWrapper<Sha512VarCore, U48, OidSha384>>"), "Sha384"),
    (re.compile(r"CoreWrapper<CtVariableCoreWrapper<Sha512VarCore, U64, OidSha512>>"), "Sha512"),
    (re.compile(r"CoreWrapper<HmacCore<Sha384>>"), "Hmac<Sha384>"),
    (re.compile(r"CoreWrapper<CtVariableCoreWrapper<Blake2bVarCore, (U\d+)>>"), r"Blake2b<\1>"),
    (re.compile(r"StreamCipherCoreWrapper<XChaChaCore<U10>>"), "XChaCha20"),
    (re.compile(r"StreamCipherCoreWrapper<CtrCore<Aes256, (Ctr\d+[BL]E)>>"), r"\1<Aes256>"),
    (re.compile(r"ChaChaPoly1305<XChaCha20, U24>"), "XChaCha20Poly1305"),
]
_SHORT_CACHE = {}
def short(s):
    """Shorten a fully-qualified type/path string for display; typenums decoded, RustCrypto aliases folded."""
    r = _SHORT_CACHE.get(s)
    if r is not None:
        return r
    s2 = re.sub(r"(?<![A-Za-z0-9_])(?:[a-z_][a-z_0-9]*::)+(?=[A-Za-z_]|<impl)", "", s)
    pat = re.compile(r"UInt<(?:UTerm|U\d+), ?B[01]>")
    s2 = s2.replace("UTerm", "U0")
    prev = None
    while prev != s2:
        prev = s2
        def rep(m):
            mm = re.match(r"UInt<U(\d+), ?B([01])>", m.group(0))
            return f"U{int(mm.group(1))*2+int(mm.group(2))}"
        s2 = pat.sub(rep, s2)
    for rx, to in _ALIASES:
        s2 = rx.sub(to, s2)
    _SHORT_CACHE[s] = s2
    return s2

def qshort(full):
    """Like short() but keeps the module path of the item itself (only generic arguments are shortened),
    so `aws_lc_rs::hmac::Context::update` and `aws_lc_rs::digest::Context::update` stay distinct."""
    if full.startswith("<"):
        return short(full)
    out, depth, buf = [], 0, []
    for ch in full:
        if ch == "<":
            if depth == 0:
                buf = []
            else:
                buf.append(ch)
            depth += 1
            continue
        elif ch == ">" and depth > 0:
            depth -= 1
            if depth == 0:
                out.append("<" + short("".join(buf)) + ">")
                continue
            buf.append(ch)
            continue
        if depth > 0:
            buf.append(ch)
        else:
            out.append(ch)
    return "".join(out)

# ---------------------------------------------------------------- pretty printer
def fmt_place(cr, p):
    s = f"_{p['l']}"
    for e in p["p"]:
        if e == "*":
            s = f"(*{s})"
        elif isinstance(e, dict) and "f" in e:
            s = f"{s}.{e['f']}"
        elif isinstance(e, dict) and "idx" in e:
            s = f"{s}[_{e['idx']}]"
        elif isinstance(e, dict) and "cidx" in e:
            s = f"{s}[{'-' if e['end'] else ''}{e['cidx']} of {e['min']}]"
        elif isinstance(e, dict) and "sub" in e:
            s = f"{s}[{e['sub'][0]}..{'-' if e['end'] else ''}{e['sub'][1]}]"
        elif isinstance(e, dict) and "variant" in e:
            s = f"({s} as {e['name'] or e['variant']})"
        else:
            s = f"{s}.{e}"
    return s

def fmt_const(cr, c):
    if "fndef" in c:
        return f"fn {short(c['fndef'])}"
    v = c.get("val")
    t = short(cr.ty_s(c["ty"]))
    if v is None:
        if "uneval" in c:
            a = ",".join(short(cr.ty_s(x["t"])) if "t" in x else str(x.get("c", "'_")) for x in c.get("uneval_args", []))
            pr = f" promoted[{c['promoted']}]" if "promoted" in c else ""
            return f"const <{a}>::{short(c['uneval'])}{pr}"
        return f"const ?:{t}"
    if "int" in v:
        return f"{v['int']}_{t}"
    if "bytes" in v:
        b = bytes(v["bytes"])
        return f"const {b!r}:{t}"
    if "zst" in v:
        return f"zst:{t}"
    return f"const {v}:{t}"

def fmt_op(cr, o):
    if "copy" in o:
        return fmt_place(cr, o["copy"])
    if "move" in o:
        return "move " + fmt_place(cr, o["move"])
    if "const" in o:
        return fmt_const(cr, o["const"])
    return str(o)

def fmt_rv(cr, rv):
    k = rv["k"]
    if k == "use":
        return fmt_op(cr, rv["op"])
    if k == "ref":
        return ("&mut " if rv["mut"] else "&") + fmt_place(cr, rv["place"])
    if k == "rawptr":
        return f"&raw {rv['kind']} " + fmt_place(cr, rv["place"])
    if k == "cast":
        return f"{fmt_op(cr, rv['op'])} as {short(cr.ty_s(rv['to']))} ({rv['ck']})"
    if k == "binop":
        return f"{rv['op']}({fmt_op(cr, rv['a'])}, {fmt_op(cr, rv['b'])})"
    if k == "unop":
        return f"{rv['op']}({fmt_op(cr, rv['a'])})"
    if k == "discr":
        return f"discriminant({fmt_place(cr, rv['place'])})"
    if k == "agg":
        ak = rv["ak"]
        name = ak["a"]
        if name == "adt":
            name = short(ak["path"]) + "::" + ak["vname"]
        return f"{name}{{" + ", ".join(fmt_op(cr, o) for o in rv["ops"]) + "}"
    if k == "repeat":
        return f"[{fmt_op(cr, rv['op'])}; {rv['n']}]"
    if k == "copyforderef":
        return "deref_copy " + fmt_place(cr, rv["place"])
    return str(rv)

def fmt_callee(cr, c):
    if "indirect" in c:
        return "indirect " + fmt_op(cr, c["indirect"])
    s = short(c["full"])
    if c.get("r_path") and c["r_full"] != c["full"]:
        s += "  => " + short(c["r_full"])
    elif not c.get("r_path"):
        s += "  => ?"
    return s

def dump_fn(f, out=None):
    import sys
    out = out or sys.stdout
    cr = f["_crate"]
    b = f["body"]
    print(f"fn {f['key']}  [{f['span']['f']}:{f['span']['l']}]", file=out)
    for i, l in enumerate(b["locals"]):
        nm = l.get("name", "")
        print(f"    let _{i}: {short(cr.ty_s(l['ty']))}  {('// '+nm) if nm else ''}{' (arg)' if 'arg' in l else ''}", file=out)
    for bi, blk in enumerate(b["blocks"]):
        print(f"  bb{bi}{' (cleanup)' if blk['cleanup'] else ''}:", file=out)
        for st in blk["stmts"]:
            if st["k"] == "assign":
                print(f"    {fmt_place(cr, st['place'])} = {fmt_rv(cr, st['rv'])}   // L{st['sp']['l']}", file=out)
            else:
                print(f"    {st}", file=out)
        t = blk["term"]
        k = t["k"]
        if k == "call":
            print(f"    {fmt_place(cr, t['dest'])} = call {fmt_callee(cr, t['callee'])}({', '.join(fmt_op(cr, a) for a in t['args'])}) -> bb{t['t']}   // L{blk['sp']['l']}", file=out)
        elif k == "switch":
            print(f"    switch {fmt_op(cr, t['discr'])} {[(a[0], 'bb%d' % a[1]) for a in t['arms']]} otherwise bb{t['otherwise']}", file=out)
        elif k == "goto":
            print(f"    goto bb{t['t']}", file=out)
        elif k == "drop":
            print(f"    drop {fmt_place(cr, t['place'])} -> bb{t['t']}", file=out)
        elif k == "assert":
            print(f"    assert({fmt_op(cr, t['cond'])} == {t['expected']}, {t['msg']}) -> bb{t['t']}", file=out)
        else:
            print(f"    {k}", file=out)

if __name__ == "__main__":
    import sys
    crates = load_all(sys.argv[1])
    pat = sys.argv[2]
    for c in crates.values():
        for k, f in c.fns.items():
            if pat in f"{c.name}::{k}":
                dump_fn(f)
                print()
