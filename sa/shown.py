import sys; sys.path.insert(0,'/verif/sa')
from facts import *; from interp import *; from pretty import *; from norm import *
def main():
    cs=load_all('/verif/.cache/facts/default')
    w=World(cs)
    crate, pat = sys.argv[1], sys.argv[2]
    for k,f in cs[crate].fns.items():
        if pat in k and '{closure' not in k:
            print('#####', crate, k)
            it=Interp(w, inline_filter=lambda f: not (f["crate"]=="paseto_v3_aws_lc" and f["key"].startswith("lc::")))
            res=it.run(f)
            nm=Norm()
            for r in res:
                if r.okness is False: continue
                print('==',r.kind,r.okness)
                print('  RET', fn(nm.n(r.ret)) if r.ret else None)
                for e in r.path.events:
                    if e['kind'] in ('call',) and ('verify' in e['name'] or 'compare' in e['name']):
                        t=('call', e['name'], tuple(e['vals']))
                        print('  CHECK', fn(nm.n(t)))
main()
