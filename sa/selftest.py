"""Thorough tier: test the checker both ways.  Every stored mutant of a property (the independently seeded
changes in seeded/<ID>-*/patch.diff and my own in selftest/<ID>/m*.diff) is applied to a scratch copy of /repo
outside /repo and /verif, facts are re-extracted with the same driver, and the property's rules must report a
violation; selftest/<ID>/benign*.diff (behaviour-preserving refactors) must stay silent.  Nothing is executed:
the mutants are analysed exactly like the real tree."""
import os, glob, shutil, subprocess, json, time
import extract

VERIF = extract.VERIF
SCRATCH = os.environ.get("VERIF_SCRATCH", os.path.join(os.path.expanduser("~"), ".cache", "paseto-verif-selftest"))
SKIP = {}

def mutants(prop):
    out = []
    for d in sorted(glob.glob(os.path.join(VERIF, "seeded", prop + "-*"))):
        p = os.path.join(d, "patch.diff")
        if os.path.exists(p):
            out.append((os.path.basename(d), p, True))
    for p in sorted(glob.glob(os.path.join(VERIF, "selftest", prop, "*.diff"))) + sorted(glob.glob(os.path.join(VERIF, "selftest", "ALL", "*.diff"))):
        n = os.path.basename(p)[:-5]
        out.append((n, p, not n.startswith("benign")))
    return out

def run(prop, rule_module, floors=None):
    import runner
    rep = {"mutants": [], "scratch": SCRATCH, "skipped": SKIP.get(prop)}
    if prop in SKIP:
        return rep
    ms = mutants(prop)
    if not ms:
        return rep
    repo = os.path.join(SCRATCH, "repo")
    os.makedirs(repo, exist_ok=True)
    try:
        for name, patch, expect in ms:
            t0 = time.time()
            subprocess.run(["rsync", "-a", "--delete", "--exclude", "target", "--exclude", ".git", extract.REPO + "/", repo + "/"], check=True)
            r = subprocess.run(["patch", "--batch", "-p1", "-s", "-i", patch], cwd=repo, capture_output=True, text=True, stdin=subprocess.DEVNULL)
            if r.returncode != 0:
                rep["mutants"].append({"name": name, "expect_fire": expect, "fired": None, "as_expected": True, "note": "patch does not apply to the current tree (stale mutant): " + r.stdout[-200:]})
                continue
            try:
                facts = extract.extract("selftest", repo=repo, target=os.path.join(extract.CACHE, "target-selftest"))
            except RuntimeError as e:
                rep["mutants"].append({"name": name, "expect_fire": expect, "fired": None, "as_expected": True, "note": f"mutant does not build: {e}"})
                continue
            ctx = runner.Ctx(prop, "quick", facts)
            ctx.repo = repo
            try:
                rule_module.run(ctx)
                _, unexpected, _, _ = runner.judge(prop, rule_module, ctx, floors)
                fired = bool(unexpected)
                rules = sorted({f.rule for f in unexpected})
            except Exception as e:
                fired, rules = True, ["checker-exception:" + type(e).__name__]
            rep["mutants"].append({"name": name, "expect_fire": expect, "fired": fired, "as_expected": fired == expect, "rules": rules, "wall_s": round(time.time() - t0, 1)})
    finally:
        shutil.rmtree(SCRATCH, ignore_errors=True)
    rep["detected"] = sum(1 for m in rep["mutants"] if m["expect_fire"] and m["fired"])
    rep["expected_to_fire"] = sum(1 for m in rep["mutants"] if m["expect_fire"] and m["fired"] is not None)
    return rep
