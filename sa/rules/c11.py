"""C11 — claims are released only if the validator accepts; built-in validators and combinators are exact."""
import itertools
from ops import *
from norm import fn as fmt_n
from runner import site_of
from termutil import *
from interp import peel

EXPLANATION = (
    "Decision-table extraction. Each built-in leaf validator body is a loop-free DAG: all MIR paths are enumerated, branch "
    "conditions are mapped to semantic atoms by the origin of their operands (presence of a claim, the 3-valued order between "
    "two timestamps such as exp vs now-leeway, equality of a claim with the expected string), and for EVERY assignment of the "
    "atoms the verdict of the code (the unique path consistent with the assignment) is compared with the specification "
    "predicate (Time, TimeWithLeeway, HasExpiry, ForSubject, FromIssuer, ForAudience): exhaustive over the finite atom space. "
    "Combinators are checked structurally on their path sets: and_then runs both validators on the same claims and propagates "
    "either error; slices/Vec validate every element and return Err on the first failure, Ok only on exhaustion; Box/Arc/Rc/Vec "
    "delegate once and return the result unchanged; map applies the inner validator to the projection; NoValidation has a single "
    "Ok path. Gate: SealedToken::unseal returns Ok only on the validator's success edge and moves the validated message into the "
    "result. Does not decide jiff's ordering/arithmetic (overflow of now±leeway is jiff's documented panic/saturation behaviour).")
ASSUMPTIONS = ["rustc type checking / MIR construction are correct", "jiff::Timestamp ordering is a total order and Add/Sub Duration are exact",
               "str equality is byte equality"]
FLOORS = {"R11.1": 6, "R11.2": 8, "R11.3": 1, "R11.4": 3}
EXHAUSTIVE = True

def field_names(ctx, crate, adt_path):
    a = ctx.crates[crate].adts.get(adt_path)
    return [f["name"] for f in a["variants"][0]["fields"]] if a else None

CMP_FUNCS = {"lt": lambda c: c == "<", "le": lambda c: c in "<=", "gt": lambda c: c == ">", "ge": lambda c: c in ">=",
             "eq": lambda c: c == "=", "ne": lambda c: c != "="}

class Atomizer:
    """Maps normalised condition terms to semantic atoms."""
    def __init__(self, claim_fields, self_fields):
        self.cf = claim_fields
        self.sf = self_fields

    def operand(self, t):
        # ok($claims.i) / $claims.i  -> claim name ; $self.i -> validator field ; Add/Sub(now, leeway)
        if isinstance(t, tuple) and t and t[0] == "ok":
            t = t[1]
        if isinstance(t, tuple) and len(t) == 2 and t[0] == "ptr" and isinstance(t[1], tuple) and t[1] and t[1][0] == "fld":
            t = t[1]      # a reference to / string view of the field (comparisons are by value)
        if isinstance(t, tuple) and t and t[0] == "fld" and t[1] == ("in", "claims") and t[2] < len(self.cf):
            return "claims." + self.cf[t[2]]
        if isinstance(t, tuple) and t and t[0] == "fld" and t[1] == ("in", "self") and self.sf and t[2] < len(self.sf):
            return "self." + self.sf[t[2]]
        if isinstance(t, tuple) and t and t[0] == "call":
            m = re.match(r"<Timestamp as (Add|Sub)<Duration>>::(add|sub)$", t[1])
            if m and len(t[2]) == 2:
                a, b = self.operand(t[2][0]), self.operand(t[2][1])
                if a and b:
                    return f"({a}{'+' if m.group(1) == 'Add' else '-'}{b})"
            if t[1].endswith("Option::<String>::as_deref") and len(t[2]) == 1:
                return self.operand(t[2][0])
        if isinstance(t, tuple) and t and t[0] == "agg" and t[1].endswith("Option::Some") and len(t[2]) == 1:
            x = self.operand(t[2][0])
            return f"Some({x})" if x else None
        if isinstance(t, tuple) and t and t[0] == "call" and t[1].endswith("AsRef<str>>::as_ref") and len(t[2]) == 1:
            return self.operand(t[2][0])
        return None

    def atom(self, cond):
        """-> (state variables read, fn(env) -> the integer the switch sees); or None.
        State variables: ('present', claim) in {False, True}; ('cmp', (a, b)) in {'<', '=', '>'} for two timestamps;
        ('streq', (claim, other)) in {False, True}: the claim's string, when present, equals `other`."""
        c = cond
        if isinstance(c, tuple) and c and c[0] == "discr":
            x = self.operand(c[1])
            if x and x.startswith("claims."):
                k = ("present", x)
                return ((k,), lambda env, k=k: 1 if env[k] else 0)
        if isinstance(c, tuple) and c and c[0] == "call":
            m = re.match(r"(?:<(Timestamp|Option<&str>|&?str|String) as Partial(?:Ord|Eq)>|core::cmp::impls::<impl Partial(?:Ord|Eq) for (&?str)>)::(lt|le|gt|ge|eq|ne)$", c[1])
            if m and len(c[2]) == 2:
                a, b = self.operand(c[2][0]), self.operand(c[2][1])
                if a and b:
                    op = m.group(3)
                    if m.group(1) == "Timestamp":
                        key = (a, b) if a <= b else (b, a)
                        flip = (a, b) != key
                        k = ("cmp", key)
                        def f(env, op=op, flip=flip, k=k):
                            v = env[k]
                            vv = {"<": ">", ">": "<", "=": "="}[v] if flip else v
                            return 1 if CMP_FUNCS[op](vv) else 0
                        return ((k,), f)
                    if op not in ("eq", "ne"):
                        return None
                    # Option-level (claims.x == Some(other)) or inner-level (the Some payload of claims.x == other)
                    inner = self.is_payload(c[2][0]) or self.is_payload(c[2][1])
                    cl, other = (a, b) if a.startswith("claims.") else (b, a)
                    if not cl.startswith("claims.") or other.startswith("claims."):
                        return None
                    if inner:
                        if other.startswith("Some("):
                            return None
                        ks = ("streq", (cl, other))
                        return ((ks,), lambda env, op=op, ks=ks: 1 if (env[ks] if op == "eq" else not env[ks]) else 0)
                    if not other.startswith("Some("):
                        return None
                    kp, ks = ("present", cl), ("streq", (cl, other[5:-1]))
                    return ((kp, ks), lambda env, op=op, kp=kp, ks=ks: 1 if ((env[kp] and env[ks]) if op == "eq" else not (env[kp] and env[ks])) else 0)
            m = re.match(r"core::option::Option::<.*>::(is_none|is_some)$", c[1])
            if m and len(c[2]) == 1:
                x = self.operand(c[2][0])
                if x:
                    k = ("present", x)
                    return ((k,), (lambda env, kk=m.group(1), k=k: 1 if (env[k] if kk == "is_some" else not env[k]) else 0))
        return None

    def is_payload(self, t):
        """t is the Some-payload of a claim (possibly through as_deref / as_ref plumbing), not the Option itself."""
        while isinstance(t, tuple) and t:
            if t[0] == "ok":
                return True
            if t[0] == "call" and len(t[2]) == 1 and (t[1].endswith("as_deref") or t[1].endswith("as_ref") or t[1].endswith("::deref") or t[1].endswith("as_str")):
                t = t[2][0]
                continue
            return False
        return False

import re

def leaf_spec(name):
    """name -> (state variables the validator may read, predicate(env) -> bool). env maps state variables to values."""
    P = lambda f: ("present", "claims." + f)
    def time_like(lo, hi):
        # accept iff (no exp or not exp < lo) and (no nbf or not hi < nbf)
        ce = tuple(sorted(("claims.exp", lo)))
        cn = tuple(sorted((hi, "claims.nbf")))
        def lt(env, a, b):
            k = tuple(sorted((a, b)))
            v = env[("cmp", k)]
            if (a, b) != k:
                v = {"<": ">", ">": "<", "=": "="}[v]
            return v == "<"
        def pred(env):
            ok1 = (not env[P("exp")]) or (not lt(env, "claims.exp", lo))
            ok2 = (not env[P("nbf")]) or (not lt(env, hi, "claims.nbf"))
            return ok1 and ok2
        return {P("exp"), P("nbf"), ("cmp", ce), ("cmp", cn)}, pred
    if name == "Time":
        return time_like("self.now", "self.now")
    if name == "TimeWithLeeway":
        return time_like("(self.now-self.leeway)", "(self.now+self.leeway)")
    if name == "HasExpiry":
        return {P("exp")}, (lambda env: env[P("exp")])
    for vname, fld in (("ForSubject", "sub"), ("FromIssuer", "iss"), ("ForAudience", "aud")):
        if name == vname:
            kp, ks = P(fld), ("streq", ("claims." + fld, "self.0"))
            return {kp, ks}, (lambda env, kp=kp, ks=ks: env[kp] and env[ks])
    return None

def domain(var):
    return ["<", "=", ">"] if var[0] == "cmp" else [False, True]

def _closure_test_atom(run, r, raw, az):
    """`opt.is_some_and(|x| test(x))` / `opt.is_none_or(|x| test(x))` on a claim: the claim's presence combined with the
    closure's own test, evaluated on the claim's Some payload."""
    if not (isinstance(raw, tuple) and raw and raw[0] == "call" and len(raw[2]) == 2):
        return None
    m = re.search(r"Option::<.*>::(is_some_and|is_none_or)(::<.*>)?$", raw[1])
    if not m:
        return None
    opt, clo = raw[2]
    x = az.operand(run.norm.n(run.interp.argval(r.path, opt)))
    if not (x and x.startswith("claims.")):
        return None
    inner_raw = run.interp.apply_fn(r.path, clo, ("okv", run.interp.argval(r.path, opt)))
    if isinstance(inner_raw, tuple) and inner_raw and inner_raw[0] == "call":
        # comparisons of references compare the referents
        inner_raw = ("call", inner_raw[1], tuple(run.interp.argval(r.path, a_) for a_ in inner_raw[2]))
    ia = az.atom(run.norm.n(inner_raw))
    if ia is None:
        return None
    kp = ("present", x)
    if m.group(1) == "is_some_and":
        return ((kp,) + tuple(ia[0]), lambda env, kp=kp, f=ia[1]: 1 if (env[kp] and f(env) == 1) else 0)
    return ((kp,) + tuple(ia[0]), lambda env, kp=kp, f=ia[1]: 1 if ((not env[kp]) or f(env) == 1) else 0)

def check_leaf(ctx, name, fnkey):
    cr = ctx.crates["paseto_json"]
    f = cr.fns.get(fnkey)
    key = f"C11/leaf/{name}"
    if f is None:
        ctx.add("R11.1", key, False, "anchor missing: " + fnkey)
        return
    run = Run(ctx.world, f)
    ctx.analysed["functions"] += 1
    ctx.analysed["paths"] += len(run.results)
    cf = field_names(ctx, "paseto_json", "RegisteredClaims")
    sf = field_names(ctx, "paseto_json", "claims_impls::" + name)
    if name in ("ForSubject", "FromIssuer", "ForAudience"):
        sf = ["0"]
    az = Atomizer(cf, sf)
    probs = []
    paths = []
    for r in run.results:
        if r.kind != "return":
            probs.append(f"non-returning path ({r.kind}) in a validator")
            continue
        gs = []
        for g in r.path.guards:
            c = run.norm.n(g["cond"])
            a = az.atom(c) or _closure_test_atom(run, r, g["cond"], az)
            if a is None:
                probs.append("branch on a condition that is not a recognised claim test: " + fmt_n(c)[:200])
                continue
            gs.append((a, g["value"], g["arms"]))
        verdict = r.okness
        if verdict is None:
            # the function returns an Option/Result built from a claim through Some/Ok-preserving plumbing
            # (x.map(..).ok_or(..)): the verdict is the presence of that claim
            root = peel(r.ret)
            x = az.operand(run.norm.n(root)) if root is not None else None
            if x and x.startswith("claims.") and not x.startswith("Some("):
                k = ("present", x)
                a = ((k,), lambda env, k=k: 1 if env[k] else 0)
                paths.append((gs + [(a, 1, [0, 1])], True))
                paths.append((gs + [(a, 0, [0, 1])], False))
                continue
            probs.append("path with undetermined verdict: " + fmt_n(run.norm.n(r.ret))[:100])
        paths.append((gs, verdict))
    sp = leaf_spec(name)
    if sp is None:
        probs.append("no specification for validator " + name)
    if not probs:
        want_vars, pred = sp
        code_vars = {v for gs, _ in paths for (a, _, _) in gs for v in a[0]}
        extra = code_vars - want_vars
        if extra:
            probs.append(f"validator tests conditions outside its specification: {sorted(map(str, extra))}")
        atoms = sorted(want_vars | code_vars, key=str)
        n_assign = 0
        for vals in itertools.product(*[domain(a) for a in atoms]):
            env = dict(zip(atoms, vals))
            n_assign += 1
            consistent = []
            for gs, verdict in paths:
                ok = True
                for (a, val, arms) in gs:
                    seen = a[1](env)
                    taken = val if val != "otherwise" else None
                    if taken is None:
                        if seen in arms:
                            ok = False
                    elif seen != taken:
                        ok = False
                    if not ok:
                        break
                if ok:
                    consistent.append(verdict)
            if len(consistent) != 1:
                probs.append(f"{len(consistent)} paths are consistent with assignment {env} (decision is not a function of the tested conditions)")
                break
            if consistent[0] != pred(env):
                shown = {f"{k[0]}:{k[1]}": v for k, v in env.items()}
                probs.append(f"for {shown} the code {'accepts' if consistent[0] else 'rejects'} but the specification {'accepts' if pred(env) else 'rejects'}")
                break
        ctx.analysed["call_sites"] += n_assign
        if not probs:
            ctx.sample({"validator": name, "atoms": [f"{a[0]}:{a[1]}" for a in atoms], "assignments_checked": n_assign, "paths": len(paths)})
    ctx.add("R11.1", key, not probs, "; ".join(probs)[:1500], site_of(f))

def _slice_try_for_each(w, run):
    """The slice combinator written as `self.iter().try_for_each(|v| v.validate(claims))`: one straight-line path returning
    std's try_for_each (first Err stops and is returned, Ok(()) on exhaustion) over the WHOLE slice, whose closure is exactly the
    element's verdict on the captured claims."""
    rs = run.results
    if len(rs) != 1 or rs[0].kind != "return" or rs[0].path.guards:
        return False
    raw = rs[0].ret
    if not (isinstance(raw, tuple) and raw and raw[0] == "call" and len(raw[2]) == 2
            and re.match(r"<(core::slice::iter::)?Iter<'_, T> as Iterator>::try_for_each::<.*Result<\(\), PasetoError>>$", raw[1])):
        return False
    it, clo = raw[2]
    nit = run.norm.n(it)
    if nit not in (("call", "core::slice::<impl [T]>::iter", (("in", "self"),)),
                   ("call", "<&[T] as IntoIterator>::into_iter", (("in", "self"),))):
        return False
    if not (isinstance(clo, tuple) and clo[0] == "agg" and clo[1].startswith("closure:") and [run.norm.n(x) for x in clo[2]] == [("in", "claims")]):
        return False
    cf = None
    for c in w.crates.values():
        cf = cf or c.fns.get(clo[1][len("closure:"):])
    if cf is None:
        return False
    cr = Run(w, cf)
    if len(cr.results) != 1 or cr.results[0].kind != "return" or cr.results[0].path.guards:
        return False
    evs = [e for e in cr.results[0].path.events if e["kind"] == "call"]
    ret = cr.norm.n(cr.results[0].ret)
    params = [l.get("name") for l in cf["body"]["locals"][1:1 + cf["body"]["argc"]]]
    elem = ("in", params[1]) if len(params) == 2 and params[1] else ("in", "arg2")
    return (len(evs) == 1 and isinstance(ret, tuple) and ret[0] == "call" and ret[1].endswith("Validate>::validate")
            and ret[2] == (elem, ("fld", ("in", "arg1"), 0)))

def validate_calls(run, r):
    return [e for e in r.path.events if e["kind"] == "call" and e["name"].endswith("Validate>::validate")]

def check_combinators(ctx):
    w = ctx.world
    core = ctx.crates["paseto_core"]
    def get(k):
        return core.fns.get(k)
    # ValidateThen
    f = get("<validation::ValidateThen<T, U> as validation::Validate>::validate")
    probs = []
    if f is None:
        probs.append("anchor missing")
    else:
        run = Run(w, f)
        oks = run.ok_paths
        sure = [r for r in oks if True]
        # success requires both validators to have accepted the same claims, in order
        full = [r for r in run.results if r.kind == "return" and len(validate_calls(run, r)) == 2]
        if not full:
            probs.append("no path runs both validators")
        for r in run.results:
            if r.kind != "return":
                probs.append(f"non-returning path {r.kind}")
                continue
            vc = validate_calls(run, r)
            vals = [[run.norm.n(v) for v in e["vals"]] for e in vc]
            for i, v in enumerate(vals):
                if v != [("fld", ("in", "self"), i), ("in", "claims")]:
                    probs.append(f"validate call {i} has arguments {[fmt_n(x) for x in v]}, expected (self.{i}, claims)")
            if r.okness is True or (r.okness is None and len(vc) == 2):
                # the result must be the second validator's result, reached only after the first accepted
                firstok = any("validate" in repr(run.norm.n(g["cond"])) and g["value"] == 0 for g in r.path.guards)
                ret = run.norm.n(r.ret)
                if len(vc) != 2 or not firstok or not (isinstance(ret, tuple) and ret[0] == "call" and ret[1].endswith("Validate>::validate") and ret[2][0] == ("fld", ("in", "self"), 1)):
                    if r.okness is True:
                        probs.append("an accepting path does not go through both validators")
                    elif r.okness is None:
                        probs.append("result is not the second validator's verdict after the first accepted: " + fmt_n(ret)[:120])
            if r.okness is False:
                # must be the first validator's error
                if len(vc) != 1:
                    probs.append("an early Err exit is not directly after the first validator")
    ctx.add("R11.2", "C11/combinator/ValidateThen", not probs, "; ".join(sorted(set(probs))), site_of(f) if f else None)
    # slice
    f = get("<[T] as validation::Validate>::validate")
    probs = []
    if f is None:
        probs.append("anchor missing")
    else:
        run = Run(w, f)
        shapes = {"ok": 0, "loop": 0, "err": 0}
        if _slice_try_for_each(w, run):
            run = None
            shapes = {"ok": 1, "loop": 1, "err": 1}
        for r in (run.results if run is not None else ()):
            vc = validate_calls(run, r)
            gs = [(run.norm.n(g["cond"]), g["value"]) for g in r.path.guards]
            nexts = [g for g in gs if "Iterator>::next" in repr(g[0]) and "validate" not in repr(g[0])[:60]]
            if r.kind == "return" and r.okness is True:
                shapes["ok"] += 1
                if vc or not nexts or nexts[-1][1] != 0:
                    probs.append("Ok exit not taken from iterator exhaustion")
                if run.norm.n(r.ret) != ("agg", "adt:Result::Ok", (("agg", "tuple", ()),)):
                    probs.append("Ok exit does not return the constant Ok(()): " + fmt_n(run.norm.n(r.ret))[:100])
            elif r.kind == "loop":
                shapes["loop"] += 1
                if len(vc) != 1 or not any("Validate>::validate" in repr(c) and v == 0 for c, v in gs):
                    probs.append("loop continues without having branched on the element's verdict")
                elif [run.norm.n(x) for x in vc[0]["vals"]][1] != ("in", "claims"):
                    probs.append("element validator is not applied to the claims")
            elif r.kind == "return" and r.okness is False:
                shapes["err"] += 1
                if len(vc) != 1 or not any("Validate>::validate" in repr(c) and v != 0 for c, v in gs):
                    probs.append("Err exit is not the propagation of an element's rejection")
            else:
                probs.append(f"unexpected path: kind={r.kind} okness={r.okness} ret={fmt_n(run.norm.n(r.ret))[:100] if r.ret else None}")
        if shapes != {"ok": 1, "loop": 1, "err": 1}:
            probs.append(f"path shapes {shapes}, expected one exhaustion-Ok, one continue, one propagate-Err")
    ctx.add("R11.2", "C11/combinator/slice", not probs, "; ".join(sorted(set(probs))), site_of(f) if f else None)
    # delegating wrappers
    for nm, k, argpat in (("Vec", "<alloc::vec::Vec<T> as validation::Validate>::validate", "self"),
                          ("Box", "<alloc::boxed::Box<T> as validation::Validate>::validate", "self"),
                          ("Arc", "<alloc::sync::Arc<T> as validation::Validate>::validate", "self"),
                          ("Rc", "<alloc::rc::Rc<T> as validation::Validate>::validate", "self"),
                          ("Map", "<validation::Map<Claims, F, T> as validation::Validate>::validate", "map")):
        f = get(k)
        probs = []
        if f is None:
            probs.append("anchor missing")
        else:
            run = Run(w, f, inline=False)
            rets = [r for r in run.results if r.kind == "return"]
            if len(rets) != 1 or len(run.results) != 1:
                probs.append(f"expected a single straight-line path, found {len(run.results)}")
            else:
                r = rets[0]
                vc = validate_calls(run, r)
                ret = run.norm.n(r.ret)
                if len(vc) != 1:
                    probs.append(f"{len(vc)} validate calls")
                else:
                    v = [run.norm.n(x) for x in vc[0]["vals"]]
                    if not (isinstance(ret, tuple) and ret[0] == "call" and ret[1] == vc[0]["name"] and list(ret[2]) == v):
                        probs.append("result is not the delegated call's result unchanged: " + fmt_n(ret)[:160])
                    if argpat == "self":
                        inner = v[0]
                        okself = contains(inner, ("in", "self"))
                        if not okself or v[1] != ("in", "claims"):
                            probs.append(f"delegated call arguments {[fmt_n(x)[:60] for x in v]} are not (inner of self, claims)")
                    else:
                        if v[0] != ("fld", ("in", "self"), 2) or not (isinstance(v[1], tuple) and contains(v[1], ("in", "claims")) and contains(v[1], ("fld", ("in", "self"), 1))):
                            probs.append(f"Map does not validate f(claims) with the inner validator: {[fmt_n(x)[:80] for x in v]}")
        ctx.add("R11.2", f"C11/combinator/{nm}", not probs, "; ".join(probs), site_of(f) if f else None)
    # NoValidation
    f = get("<validation::NoValidation<Claims> as validation::Validate>::validate")
    probs = []
    if f is None:
        probs.append("anchor missing")
    else:
        run = Run(w, f)
        if len(run.results) != 1 or run.results[0].okness is not True:
            probs.append("NoValidation is not a single Ok path")
    ctx.add("R11.2", "C11/combinator/NoValidation", not probs, "; ".join(probs), site_of(f) if f else None)

def check_gate(ctx):
    w = ctx.world
    g = core_fn(w, "tokens::SealedToken::<V, P, M, F>::unseal")
    probs = []
    if g is None:
        probs.append("anchor missing")
    else:
        run = Run(w, g)
        oks = [r for r in run.results if r.kind == "return" and r.okness is not False]
        if len(oks) != 1:
            probs.append(f"{len(oks)} success paths")
        for r in oks:
            vc = validate_calls(run, r)
            if len(vc) != 1:
                probs.append("success path without exactly one validate call")
                continue
            took = any("Validate>::validate" in repr(run.norm.n(gd["cond"])) and gd["value"] == 0 for gd in r.path.guards)
            # or the function returns the validator's own verdict through Ok-preserving plumbing (`v.validate(&m).map(|()| token)`)
            root = peel(r.ret)
            if r.okness is None and isinstance(root, tuple) and root and root[0] == "call" and root[1].endswith("Validate>::validate"):
                took = True
            if not took:
                probs.append("success path does not take the validator's success edge")
            msg = run.norm.n(vc[0]["vals"][1])
            res = run.norm.n(run.ret_value(r))
            claims = res[2][0] if isinstance(res, tuple) and res[0] == "agg" and res[2] else None
            if claims != msg:
                probs.append("the claims released are not the message that was validated")
            if run.norm.n(vc[0]["vals"][0]) != ("in", "v"):
                probs.append("the validator invoked is not the caller's")
    ctx.add("R11.3", "C11/gate/core-unseal", not probs, "; ".join(probs), site_of(g) if g else None)

LEAVES = {"Time": "<claims_impls::Time as paseto_core::validation::Validate>::validate",
          "TimeWithLeeway": "<claims_impls::TimeWithLeeway as paseto_core::validation::Validate>::validate",
          "HasExpiry": "<claims_impls::HasExpiry as paseto_core::validation::Validate>::validate",
          "ForSubject": "<claims_impls::ForSubject<T> as paseto_core::validation::Validate>::validate",
          "FromIssuer": "<claims_impls::FromIssuer<T> as paseto_core::validation::Validate>::validate",
          "ForAudience": "<claims_impls::ForAudience<T> as paseto_core::validation::Validate>::validate"}

VALIDATOR_TYPES = ("Time", "TimeWithLeeway", "HasExpiry", "ForSubject", "FromIssuer", "ForAudience")

def check_constructors(ctx):
    """R11.4: every library function that RETURNS a time/claim validator (directly or by delegating to another constructor)
    returns an aggregate whose fields are the caller's arguments (or fields of `self`) passed through unmodified, or the current
    time: the leeway applied is exactly the leeway the caller gave, `valid_at(t)` checks against t."""
    cr = ctx.crates["paseto_json"]
    n = 0
    for k, f in sorted(cr.fns.items()):
        if not f.get("body") or f.get("kind") == "Closure" or "{closure" in k:
            continue
        rt = cr.ty(f["body"]["locals"][0]["ty"])
        if rt.get("k") != "adt" or rt["path"].split("::")[-1] not in VALIDATOR_TYPES:
            continue
        run = Run(ctx.world, f)
        probs = []
        if not run.results or any(r.kind != "return" for r in run.results):
            probs.append("constructor has non-returning paths")
        for r in run.results:
            if r.kind != "return":
                continue
            v = run.norm.n(run.interp.argval(r.path, r.ret))
            if not (isinstance(v, tuple) and v[0] == "agg" and v[1].startswith("adt:")):
                probs.append("does not return a validator aggregate: " + fmt_n(v)[:120])
                continue
            for i, t in enumerate(v[2]):
                ok = (isinstance(t, tuple) and t and (t[0] == "in" or (t[0] == "fld" and isinstance(t[1], tuple) and t[1][0] == "in")
                                                      or (t[0] == "call" and t[1] in ("jiff::timestamp::Timestamp::now", "Timestamp::now") and not t[2])))
                if not ok:
                    probs.append(f"field {i} of {v[1][4:].split('::')[-1]} is computed ({fmt_n(t)[:160]}) instead of being the caller's value passed through")
        n += 1
        ctx.add("R11.4", f"C11/constructor/{k}", not probs, "; ".join(sorted(set(probs))), site_of(f))
    return n

def run(ctx):
    check_constructors(ctx)
    for name, k in LEAVES.items():
        check_leaf(ctx, name, k)
    check_combinators(ctx)
    check_gate(ctx)
    # census: every Validate impl in the workspace is covered by a rule above
    known = set(LEAVES.values()) | {"<validation::ValidateThen<T, U> as validation::Validate>::validate", "<[T] as validation::Validate>::validate",
            "<alloc::vec::Vec<T> as validation::Validate>::validate", "<alloc::boxed::Box<T> as validation::Validate>::validate",
            "<alloc::sync::Arc<T> as validation::Validate>::validate", "<alloc::rc::Rc<T> as validation::Validate>::validate",
            "<validation::Map<Claims, F, T> as validation::Validate>::validate", "<validation::NoValidation<Claims> as validation::Validate>::validate"}
    extra = []
    for c in ctx.crates.values():
        for k, f in c.fns.items():
            if f.get("name") == "validate" and (f.get("impl_trait") or "").endswith("validation::Validate") and k not in known:
                extra.append(f"{c.name}::{k}")
    ctx.add("R11.2", "C11/combinator/census", not extra, f"Validate impls without a rule: {extra}" if extra else "")
