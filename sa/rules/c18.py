"""C18 — misusing keys, purposes or versions fails to compile; secrets cannot be printed."""
import re, os, sys, json, subprocess, tempfile, shutil, hashlib
from concurrent.futures import ThreadPoolExecutor
from ops import *
from runner import site_of, VERIF
sys.path.insert(0, os.path.join(VERIF, "probes"))
import catalogue

EXPLANATION = (
    "(a) Impl census from the compiler's coherence data: Display is implemented for Key only with K = Public; no Debug / Display / "
    "Serialize impl exists for Key with K in {Local, Secret, PkeSecret, PkePublic} nor for any backend key struct; UnsealedToken has no "
    "Display / Serialize; Purpose is implemented only for Public and Local, SealingKey only for Secret and Local, KeyType only for the five "
    "markers; the Sealed supertrait lives in a private module; the only inherent public methods exposing key bytes are expose_key / the "
    "backends' as_raw_bytes. (b) Probe compiler: a finite catalogue of misuse programs (37 probes x 6 backends, each a minimal external-user "
    "crate) is type-checked by rustc against the rmeta files of this very build. A misuse program that COMPILES is a violation. A misuse "
    "program is accepted as rejected only together with its twin — identical but for the offending line — compiling, so a probe cannot "
    "pass by merely being wrong; the recorded error code/item are informational (a different diagnostic for the same line is noted, not "
    "alarmed). A probe whose twin no longer compiles (the API moved) is inconclusive: not a violation, but the catalogue fails closed when "
    "more than half of a backend's probes are inconclusive. Positive programs: `keys are Send + Sync` must compile; the API-shape programs "
    "are controls of the probe machinery. rustc is the oracle; nothing is executed.")
ASSUMPTIONS = ["rustc's type checker and coherence checker", "the probe catalogue is the finite set of misuse programs claimed (programs outside it are covered only by the impl census)"]
FLOORS = {"R18.1": 10, "R18.2": 260, "R18.3": 24}
EXHAUSTIVE = True

CRATES = ["paseto_v1", "paseto_v2", "paseto_v3", "paseto_v3_aws_lc", "paseto_v4", "paseto_v4_sodium"]
VTYPE = {"paseto_v1": "paseto_v1::core::V1", "paseto_v2": "paseto_v2::core::V2", "paseto_v3": "paseto_v3::core::V3",
         "paseto_v3_aws_lc": "paseto_v3_aws_lc::core::V3", "paseto_v4": "paseto_v4::core::V4", "paseto_v4_sodium": "paseto_v4_sodium::core::V4"}
OTHER = {"paseto_v1": "paseto_v2", "paseto_v2": "paseto_v4", "paseto_v3": "paseto_v3_aws_lc", "paseto_v3_aws_lc": "paseto_v3",
         "paseto_v4": "paseto_v4_sodium", "paseto_v4_sodium": "paseto_v4"}

def rustc(src_path, arts, target, outdir):
    cmd = ["rustc", "+nightly", "--edition", "2024", "--crate-type", "lib", "--emit=metadata", "--error-format=json",
           "-L", f"dependency={target}/debug/deps", "--out-dir", outdir, "-Awarnings"]
    for name in CRATES + ["paseto_core", "paseto_json", "serde_core"]:
        if name in arts:
            cmd += ["--extern", f"{name}={arts[name]}"]
    cmd.append(src_path)
    r = subprocess.run(cmd, capture_output=True, text=True)
    codes, msgs = [], []
    for line in r.stderr.splitlines():
        try:
            m = json.loads(line)
        except Exception:
            continue
        if m.get("level") == "error":
            if m.get("code"):
                codes.append(m["code"]["code"])
            msgs.append(m.get("message", "") + " " + " ".join(c.get("message", "") for c in m.get("children", [])) + " " + (m.get("rendered") or "")[:600])
    return r.returncode, codes, " | ".join(msgs)

def census(ctx):
    core = ctx.crates["paseto_core"]
    def impls_of(trait_suffixes, pred):
        out = []
        for cn, cr in ctx.crates.items():
            for im in cr.impls:
                if im.get("of_trait") and any(im["trait"].endswith(s) for s in trait_suffixes):
                    st = cr.ty_s(im["self"])
                    if pred(st):
                        out.append((cn, im["trait"], st, im.get("generics"), im.get("predicates")))
        return out
    FMT = ("core::fmt::Display", "core::fmt::Debug", "serde_core::ser::Serialize", "core::fmt::LowerHex", "core::fmt::UpperHex", "core::fmt::Pointer")
    # Key<V, K>
    ks = impls_of(FMT, lambda s: s.startswith("key::Key<") or s.startswith("paseto_core::key::Key<"))
    def delegated(t, preds):
        # `impl<V, K> Debug for Key<V, K> where <V as HasKey<K>>::Key: Debug` only forwards to the backend struct (censused below)
        tn = t.rsplit("::", 1)[1]
        return any(("HasKey<K>>::Key" in p_ or "KeyInner" in p_) and p_.rstrip().endswith(tn) for p_ in (preds or []))
    bad = [f"{t} for {short(s)}" for cn, t, s, g, p in ks
           if not (t.endswith("Display") and s == "key::Key<V, version::Public>") and not (s == "key::Key<V, K>" and delegated(t, p))]
    ok_display = any(t.endswith("Display") and s == "key::Key<V, version::Public>" for cn, t, s, g, p in ks)
    ctx.add("R18.1", "C18/census/Key-formatting-impls", not bad and ok_display,
            ("unexpected formatting impls on Key: " + "; ".join(bad)) if bad else ("" if ok_display else "Display for PublicKey missing"), facts={"found": [f"{t} for {s}" for _, t, s, _, _ in ks]})
    # backend key structs
    def is_backend_key(s):
        return any(s.endswith(x) for x in ("core::LocalKey", "core::SecretKey", "core::PublicKey", "core::pke::PkeSecretKey", "core::pke::PkePublicKey", "lc::SigningKey", "lc::VerifyingKey"))
    def is_secret_backend_key(s):
        return any(s.endswith(x) for x in ("core::LocalKey", "core::SecretKey", "core::pke::PkeSecretKey", "lc::SigningKey"))
    bs = impls_of(FMT, is_secret_backend_key)
    ctx.add("R18.1", "C18/census/backend-key-formatting-impls", not bs, "formatting impls on secret-bearing backend key structs: " + "; ".join(f"{cn}: {t} for {s}" for cn, t, s, g, p in bs) if bs else "")
    # UnsealedToken
    us = impls_of(FMT, lambda s: "tokens::UnsealedToken<" in s)
    ctx.add("R18.1", "C18/census/UnsealedToken-formatting-impls", not us, "; ".join(f"{t} for {s}" for _, t, s, _, _ in us))
    # marker traits
    def selfs(trait_suffix):
        return sorted(short(core.ty_s(im["self"])) for im in core.impls if im.get("of_trait") and im["trait"].endswith(trait_suffix))
    for tr, want in (("version::Purpose", ["Local", "Public"]), ("key::SealingKey", ["Local", "Secret"]),
                     ("key::KeyType", ["Local", "PkePublic", "PkeSecret", "Public", "Secret"]), ("sealed::Sealed", ["Local", "PkePublic", "PkeSecret", "Public", "Secret"])):
        got = selfs(tr)
        ctx.add("R18.1", f"C18/census/{tr.split('::')[-1]}-impls", got == want, f"{tr} is implemented for {got}, expected {want}" if got != want else "")
    # extra marker traits gating Display etc. must not exist: any local trait implemented for key-kind markers beyond the known ones
    known = {"version::Purpose", "key::SealingKey", "key::KeyType", "sealed::Sealed"}
    extra = []
    for im in core.impls:
        if im.get("of_trait") and im.get("trait_crate") == "paseto_core" and im["trait"] not in known:
            st = short(core.ty_s(im["self"]))
            if st in ("Local", "Public", "Secret", "PkePublic", "PkeSecret"):
                extra.append(f"{im['trait']} for {st}")
    ctx.add("R18.1", "C18/census/no-extra-kind-markers", not extra, "unreviewed marker traits on key kinds: " + "; ".join(extra) if extra else "")
    # Sealed is not nameable from outside: trait visibility Public inside a private module `sealed`
    st_ = core.traits.get("sealed::Sealed")
    ctx.add("R18.1", "C18/census/Sealed-private", st_ is not None, "" if st_ is not None else "sealed::Sealed trait not found")
    # public inherent methods of Key and backend key structs that return key material
    exposing = []
    for cn, cr in ctx.crates.items():
        for k, f in cr.fns.items():
            if f.get("vis") != "Public" or f.get("kind") != "AssocFn" or f.get("impl_trait") or "impl_self" not in f:
                continue
            st = cr.ty_s(f["impl_self"])
            if st.startswith("lc::"):
                continue      # `mod lc` is private to paseto-v3-aws-lc: not reachable by library users
            if st.startswith("key::Key<") or is_backend_key(st):
                out = cr.ty_s(f["output"])
                if "[u8" in out or "KeyText" in out or "&[u8]" in out or "Box<[u8]>" in out or "Vec<u8>" in out:
                    exposing.append((cn, f["name"], short(st)))
    allowed = {"expose_key", "as_raw_bytes", "encode", "compressed_pub_key"}
    badx = [x for x in exposing if x[1] not in allowed]
    ctx.add("R18.1", "C18/census/key-bytes-accessors", not badx, f"unreviewed public methods returning key bytes: {badx}" if badx else "", facts={"accessors": sorted(set(f"{c}:{n}" for c, n, _ in exposing))})
    # closed-world census of trait impls on Key in any crate: conversion / borrowing traits (AsRef, Deref, Borrow, Into, From<Key>)
    # would hand out the backend's native key object, whose public methods and the HasKey/SealingVersion trait functions then
    # read key bytes or use a key under another kind without expose_key()
    KEY_TRAITS_OK = {"core::clone::Clone", "core::convert::From", "core::fmt::Display", "core::str::traits::FromStr", "core::convert::TryFrom",
                     "core::fmt::Debug", "core::marker::Send", "core::marker::Sync", "core::marker::Unpin", "core::panic::unwind_safe::UnwindSafe",
                     "core::panic::unwind_safe::RefUnwindSafe", "serde_core::de::Deserialize"}
    odd = []
    nkey = 0
    for cn, cr in ctx.crates.items():
        for im in cr.impls:
            if not im.get("of_trait"):
                continue
            st = cr.ty_s(im["self"])
            if st.startswith("key::Key<") or st.startswith("paseto_core::key::Key<"):
                nkey += 1
                if im["trait"] not in KEY_TRAITS_OK:
                    odd.append(f"{cn}: {im['trait']} for {short(st)}")
                elif im["trait"] == "core::convert::From" and "[u8; 32]" not in im.get("trait_full", ""):
                    odd.append(f"{cn}: {short(im.get('trait_full', im['trait']))}")
            # conversions OUT of a Key: `impl From<Key<..>> for X` / `impl AsRef<X> for Key` are keyed on the trait's type arguments
            tf = im.get("trait_full", "")
            if im["trait"] in ("core::convert::From", "core::convert::TryFrom") and re.search(r"(From|TryFrom)<(&)?(paseto_core::)?key::Key<", tf) and not (st.startswith("key::Key<")):
                odd.append(f"{cn}: {short(tf)} (conversion out of a Key)")
    ctx.add("R18.1", "C18/census/Key-trait-impls", nkey >= 5 and not odd, ("unreviewed trait impls on / conversions out of Key: " + "; ".join(sorted(set(odd)))) if odd else ("" if nkey >= 5 else "anchor missing"),
            facts={"impls_on_Key": nkey})
    # field privacy of Key and tokens
    for adt, crn in (("key::Key", "paseto_core"), ("tokens::SealedToken", "paseto_core")):
        a = ctx.crates[crn].adts.get(adt)
        pub = [f["name"] for f in a["variants"][0]["fields"] if f["vis"] == "Public"] if a else ["<missing>"]
        ctx.add("R18.1", f"C18/census/private-fields/{adt}", not pub, f"public fields: {pub}" if pub else "")

def run(ctx):
    census(ctx)
    ap = os.path.join(ctx.facts_dir, "artifacts.json")
    if not os.path.exists(ap):
        ctx.add("R18.2", "C18/probes/artifacts", False, "artifact map missing (extraction did not record rmeta paths)")
        return
    info = json.load(open(ap))
    arts, target = info["artifacts"], info["target"]
    missing = [c for c in CRATES + ["paseto_core", "paseto_json", "serde_core"] if c not in arts or not os.path.exists(arts[c])]
    if missing:
        ctx.add("R18.2", "C18/probes/artifacts", False, f"rmeta missing for {missing}")
        return
    tmp = tempfile.mkdtemp(prefix="c18probes-")
    jobs = []
    try:
        for c in CRATES:
            pre = catalogue.PRELUDE.format(C=c, V=VTYPE[c])
            for p in catalogue.PROBES:
                if p["backends"] != "all" and c not in p["backends"]:
                    continue
                for kind in ("bad", "good"):
                    src = pre + p[kind].format(C=c, V=VTYPE[c], O=OTHER[c], OV=VTYPE[OTHER[c]]) + "\n"
                    path = os.path.join(tmp, f"{c}_{p['id']}_{kind}.rs")
                    open(path, "w").write(src)
                    jobs.append((c, p, kind, path))
            for qid, what, code in catalogue.POSITIVE:
                path = os.path.join(tmp, f"{c}_{qid}.rs")
                open(path, "w").write(pre + code.format(C=c, V=VTYPE[c], O=OTHER[c], OV=VTYPE[OTHER[c]]) + "\n")
                jobs.append((c, {"id": qid, "what": what}, "positive", path))
        def work(j):
            c, p, kind, path = j
            od = tempfile.mkdtemp(prefix="o", dir=tmp)
            return j, rustc(path, arts, target, od)
        with ThreadPoolExecutor(max_workers=min(16, os.cpu_count() or 4)) as ex:
            results = list(ex.map(work, jobs))
    finally:
        shutil.rmtree(tmp, ignore_errors=True)
    by = {}
    for (c, p, kind, path), res in results:
        by[(c, p["id"], kind)] = (p, res)
    ctx.analysed["call_sites"] += len(results)
    stale = {}
    for c in CRATES:
        for p in catalogue.PROBES:
            if p["backends"] != "all" and c not in p["backends"]:
                continue
            (_, (rc_b, codes_b, msg_b)) = by[(c, p["id"], "bad")]
            (_, (rc_g, codes_g, msg_g)) = by[(c, p["id"], "good")]
            probs = []
            note = ""
            if rc_b == 0:
                probs.append("misuse program COMPILES: " + p["what"])
            elif rc_g != 0:
                # the twin (same program without the offending line) does not compile either: the probe no longer fits the API
                # and says nothing either way. Not a violation of the property; counted, and the catalogue fails closed below
                # when too much of it has gone stale.
                stale[c] = stale.get(c, 0) + 1
                note = f"inconclusive (twin does not compile: {codes_g})"
            elif not (set(codes_b) & p["codes"]) or (p["mention"] and p["mention"] not in msg_b):
                # the twin compiles and only the offending line is rejected, with a different diagnostic than recorded
                note = f"rejected with {sorted(set(codes_b))} instead of {sorted(p['codes'])}"
            ctx.add("R18.2", f"C18/probe/{c}/{p['id']}", not probs, "; ".join(probs), facts={"what": p["what"], "codes": sorted(set(codes_b)), "note": note})
        for qid, what, code in catalogue.POSITIVE:
            (_, (rc, codes, msg)) = by[(c, qid, "positive")]
            # Q01 (keys are Send + Sync) states a property clause; the API-shape programs are positive controls of the probe
            # machinery: when they stop compiling the API changed, which is not a violation of C18
            must = qid == "Q01"
            ctx.add("R18.3", f"C18/positive/{c}/{qid}", rc == 0 or not must, f"correct program does not compile ({what}): {codes} {msg[:300]}" if (rc != 0 and must) else "",
                    facts={"compiles": rc == 0})
    for c in CRATES:
        n = stale.get(c, 0)
        ctx.add("R18.2", f"C18/probe-catalogue/{c}", n * 2 <= len(catalogue.PROBES),
                f"{n} of {len(catalogue.PROBES)} misuse probes no longer fit the API (their twins do not compile): the catalogue cannot speak for this build" if n * 2 > len(catalogue.PROBES) else "",
                facts={"inconclusive": n})
    ctx.sample({"probes_per_backend": len(catalogue.PROBES), "backends": len(CRATES), "compilations": len(results),
                "example": catalogue.PROBES[14]["bad"].format(C="paseto_v4", V="V", O="paseto_v4_sodium", OV="OV")})
