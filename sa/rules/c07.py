"""C07 — PASERK wraps, seals and password-wraps are bit-exact per spec and interoperate across sibling backends."""
from ops import *
from norm import fn as fmt_n
from runner import site_of
from termutil import *
import spec

EXPLANATION = (
    "T-SPEC/T-SIB on the symbolic blob term each backend produces (through paseto-core's generic wrap/seal entry points, with "
    "the recipient public key derived from the secret key so that Diffie-Hellman / RSA-KEM terms are in normal form). "
    "R07.1: PIE, PBKW and PKE blobs of all 6 backends equal the hand-transcribed PASERK specification term of their version "
    "(domain-separation bytes 0x80/0x81, 0xFF/0xFE, 0x01/0x02; KDF identities and split points; cipher identity including "
    "the full-width CTR counter; MAC transcript order incl. version literal and kind header; PBKW parameter field order, "
    "widths and big-endianness from the zerocopy layout; field layout of the blob). R07.2: the two v3 and the two v4 backends "
    "produce identical normalised blob terms (listed spec-neutral deltas only: libsodium fixes Argon2 parallelism to 1 and "
    "rejects other values; aws-lc rejects 0 PBKDF2 iterations), and v1≡v3, v2≡v4 up to the version literal. "
    "R07.3: every Err exit of an unwrap/unseal-key function is controlled by a condition the format states. "
    "Key-id construction is decided under C13. Does not decide that a library's primitive computes the standard function.")
ASSUMPTIONS = ["rustc type checking / MIR construction are correct", "the specification tables in sa/spec.py", "library primitives named X compute the standard function X", "contract table for lc::*"]
FLOORS = {"R07.1": 18, "R07.2": 11, "R07.3": 18}
VERSION_OF = {"v1": "v1", "v2": "v2", "v3": "v3", "v3-aws-lc": "v3", "v4": "v4", "v4-sodium": "v4"}

def keydata(blob):
    if isinstance(blob, tuple) and blob[0] == "agg" and blob[2]:
        return blob[2][0]
    return None

def find_one(t, pred):
    xs = subterms(t, pred)
    return xs[0] if xs else None

def spec_for(be, op, kd):
    """Specification term for this blob, parametrised by the roles found in the code's own term."""
    ver = VERSION_OF[be]
    parts = list(kd[1]) if kd[0] == "cat" else [kd]
    if op == "pie":
        enc = find_one(kd, lambda x: x and x[0] == "call" and x[1].endswith("HasKey<K>>::encode"))
        n = parts[1] if len(parts) == 3 else None
        return spec.pie_blob(ver, enc, n=n, wk=("fld", ("fld", ("in", "with"), 0), 0), header=("aconst", "SealingKey::PIE_WRAP_HEADER", "K"))
    if op == "pbkw":
        enc = find_one(kd, lambda x: x and x[0] == "call" and x[1].endswith("HasKey<K>>::encode"))
        s = parts[0] if len(parts) == 5 else None
        n = parts[2] if len(parts) == 5 else None
        return spec.pbkw_blob(ver, enc, header=("aconst", "SealingKey::PW_WRAP_HEADER", "K"), s=s, n=n)
    if op == "pke":
        pdk = ("fld", ("fld", ("in", "self"), 0), 0)
        if ver in ("v2", "v4"):
            if len(parts) != 3:
                return None
            epk = parts[1]
            dh = find_one(kd, lambda x: x and x[0] == "DH" and x[1] == "X25519")
            if not (isinstance(epk, tuple) and epk[0] == "XPUB" and dh):
                return None
            others = [s_ for s_ in dh[2] if s_ != epk[1]]
            if len(others) != 1:
                return None
            return spec.pke_blob(ver, pdk, epk[1], ("XPUB", others[0]), dh, epk)
        if ver == "v3":
            if len(parts) != 3:
                return None
            epk = parts[1]
            dh = find_one(kd, lambda x: x and x[0] == "DH" and x[1] == "P-384")
            if not (isinstance(epk, tuple) and epk[0] == "ENCPUB" and dh):
                return None
            eid = epk[1][2] if isinstance(epk[1], tuple) and epk[1][0] == "PUB" else None
            others = [s_ for s_ in dh[2] if s_ != eid]
            if len(others) != 1:
                return None
            pk = ("ENCPUB", ("PUB", "ECDSA-P384-SHA384", others[0]))
            return spec.pke_blob(ver, pdk, eid, pk, dh, epk)
        if ver == "v1":
            if len(parts) != 3:
                return None
            c = parts[2]
            r = find_one(kd, lambda x: x and x[0] == "SETBYTE")
            # r must be 512 random bytes with the top bits forced to 01
            return spec.pke_blob(ver, pdk, None, None, None, None, c_rsa=c, r=r)
    return None

def check_v1_kem(kd):
    """k1.seal specifics: c = LEFTPAD(512, r^e mod n), r = 512 random bytes with r[0] = (r[0] & 0x7f) | 0x40."""
    probs = []
    parts = list(kd[1]) if kd[0] == "cat" else [kd]
    c = parts[2] if len(parts) == 3 else None
    if not (isinstance(c, tuple) and c[0] == "LEFTPAD" and c[1] == 512 and isinstance(c[2], tuple) and c[2][0] == "TOBE"
            and isinstance(c[2][1], tuple) and c[2][1][0] == "RSAENC"):
        probs.append("RSA-KEM ciphertext is not the 512-byte left-padded big-endian r^e mod n: " + fmt_n(c)[:200])
        return probs
    m = c[2][1][2]
    r = m[1] if isinstance(m, tuple) and m[0] == "INT" else None
    # canonical form (the evaluator folds `x[0] &= 0x7f; x[0] |= 0x40` and `x[0] = (x[0] & 0x7f) | 0x40` into one store)
    ok = False
    if isinstance(r, tuple) and r[0] == "SETBYTE" and r[2] == ("int", 0) and isinstance(r[1], tuple) and r[1][0] == "RNG" and r[1][1] == 512:
        v = r[3]
        ok = (isinstance(v, tuple) and v[0] == "binop" and v[1] == "BitOr" and v[3] == ("int", 64)
              and v[2] == ("binop", "BitAnd", ("index", r[1], ("int", 0)), ("int", 127)))
    if not ok:
        probs.append("r is not 512 random bytes with r[0] = (r[0] & 0x7f) | 0x40: " + fmt_n(r)[:300])
    return probs

def abstract(t):
    """Neutralise library-specific key identifiers and spec-neutral deltas for sibling comparison."""
    if isinstance(t, tuple):
        if t and t[0] in ("dalek-esk", "sodium-sk", "p384-sk", "lc-sk", "rsa-sk"):
            return ("SK", abstract(t[1]) if len(t) > 1 else None)
        if t and t[0] == "ok" and isinstance(t[1], tuple) and t[1][0] == "call" and t[1][1].startswith("core::num::nonzero::NonZero::<u32>::new"):
            return abstract(t[1][2][0])          # aws-lc: zero iterations rejected (listed delta)
        if t and t[0] == "RNG":
            return ("RNG", t[1])
        if t and t[0] in ("XSCALAR", "BOXSK", "CLAMP"):
            return ("ESK",)                       # ephemeral X25519 secret: generated differently, same role
        if t and t[0] == "call" and t[1].endswith("<impl SecretKey>::random"):
            return ("ESK",)
        if t and t[0] == "XSK":
            return ("XSK", ("SK",))
        if t and t[0] == "fld" and t[1] == ("fld", ("fld", ("in", "with"), 0), 1):
            return ("XSK", ("SK",))               # dalek: with.0.1.scalar is the X25519 form of the secret key
        if t and t[0] == "call" and re.search(r"<V\d as HasKey<K>>::encode", t[1]):
            return ("ENCODED-KEY",)
        return tuple(abstract(x) for x in t)
    if isinstance(t, bytes) and len(t) >= 2 and t[:1] in (b"k", b"\x01", b"\x02") :
        return t
    return t
import re

def relabel(t, a, b):
    """Replace version literal bytes kA by kB inside constants."""
    if isinstance(t, tuple):
        if t and t[0] == "b":
            return ("b", t[1].replace(a, b))
        return tuple(relabel(x, a, b) for x in t)
    return t

para_guarded_cache = {}
def para_guarded(wraprun):
    """Does the (single) success path of the wrap pass `para == 1`?"""
    P = ("BE", 32, ("sl", ("in", "params"), (12, 0), (16, 0)))
    for r in wraprun.ok_paths:
        for g in r.path.guards:
            pin = pin_of(wraprun.norm.n(g["cond"]), g["value"], g.get("arms"))
            if pin and pin[0] == P and pin[1] == 1 and pin[2]:
                para_guarded_cache["v4-sodium"] = True
                return True
    para_guarded_cache["v4-sodium"] = False
    return False

def fixw_lc(ctx):
    """R07.4 (T-FIXW): every BN_bn2bin in the aws-lc wrapper writes right-aligned into a zeroed fixed-width buffer
    (destination = buf[W - BN_num_bytes(bn)..]) — otherwise a value with leading zero bytes is emitted left-aligned."""
    from interp import Interp
    from norm import Norm
    cr = ctx.crates["paseto_v3_aws_lc"]
    n_sites = 0
    for k, f in cr.fns.items():
        if not k.startswith("lc::") or "{closure" in k:
            continue
        has = any(b["term"]["k"] == "call" and (b["term"]["callee"].get("path") or "").endswith("::BN_bn2bin") for b in f["body"]["blocks"])
        if not has:
            continue
        it = Interp(ctx.world)
        res = it.run(f)
        nm = Norm()
        seen = {}
        for r in res:
            for e in r.path.events:
                if e["kind"] == "call" and (e.get("path") or "").endswith("::BN_bn2bin"):
                    dst = e["args"][1]
                    bn = nm.n(e["vals"][0])
                    ok = False
                    why = "destination is " + repr(dst)[:160]
                    if isinstance(dst, tuple) and dst[0] == "ptr" and dst[1][0] == "R?":
                        _, base, lo, hi = dst[1]
                        off = lo[1] if isinstance(lo, tuple) and lo[0] == "sym" else None
                        offn = nm.n(off) if off is not None else None
                        basec = it.content(r.path, base)
                        wv = basec[1] if isinstance(basec, tuple) and basec[0] == "zeros" else None
                        if wv is not None and isinstance(offn, tuple) and offn[0] == "binop" and offn[1] in ("Sub", "SubUnchecked") and offn[2] == ("int", wv) \
                                and "BN_num_bytes" in repr(offn[3]) and contains(offn[3], bn):
                            ok = True
                        else:
                            why = f"destination offset {fmt_n(offn)[:160] if offn else None} into a buffer {fmt_n(nm.n(basec))[:60]} is not W - BN_num_bytes(bn)"
                    seen[(e["fn"], e["bb"])] = (ok, why)
        for (fnk, bb), (ok, why) in sorted(seen.items()):
            n_sites += 1
            ordinal = sorted(x for x in seen if x[0] == fnk).index((fnk, bb))
            ctx.add("R07.4", f"C07/fixw/{fnk}#{ordinal}", ok, "" if ok else "BN_bn2bin output is not right-aligned in a fixed-width zeroed buffer: " + why, site_of(f))
    if n_sites == 0:
        ctx.notes.append("no BN_bn2bin call sites remain in lc:: (padded encoder used everywhere)")

def run(ctx):
    w = ctx.world
    fixw_lc(ctx)
    blobs = {}
    for be in BACKENDS:
        for op in ("pie", "pbkw", "pke"):
            key = f"{op}/{be}"
            c = compose_paserk(w, be, op)
            wrapf = exact_core_fn(w, PASERK_OPS[op][0])
            kd = keydata(c.get("blob")) if c.get("blob") else None
            if kd is None:
                ctx.add("R07.1", f"C07/spec/{key}", False, "no blob term: " + "; ".join(c["problems"]))
                continue
            blobs[(be, op)] = kd
            want = spec_for(be, op, kd)
            probs = []
            kd_cmp = kd
            if op == "pbkw" and be == "v3-aws-lc":
                kd_cmp = strip_nonzero(kd)       # listed delta: aws-lc's PBKDF2 takes NonZeroU32 (0 iterations rejected)
            if op == "pbkw" and be == "v4-sodium" and want is not None:
                # listed delta: libsodium's pwhash has no parallelism parameter. Admissible only while the wrap path itself
                # refuses para != 1 (otherwise the blob would authenticate a parallelism that was not used).
                if para_guarded(c["wrap"]):
                    want = subst_argon_para(want)
                    sodium_para_ok = True
                else:
                    sodium_para_ok = False
                    probs.append("wrap path does not reject parallelism != 1 although libsodium always uses 1 lane")
            if want is None:
                probs.append("blob does not have the role structure of the format (cannot identify ephemeral key / DH / parts): " + fmt_n(kd)[:300])
            elif kd_cmp != want:
                probs += spec.diff(kd_cmp, want)
            if be == "v1" and op == "pke":
                probs += check_v1_kem(kd)
            ctx.add("R07.1", f"C07/spec/{key}", not probs, "; ".join(probs)[:1500], None, {"code": fmt_n(kd)[:700]})
            if not probs:
                ctx.sample({"op": op, "backend": be, "blob": fmt_n(kd)[:500]})
    # siblings
    pairs = [("v3", "v3-aws-lc", None), ("v4", "v4-sodium", None), ("v1", "v3", (b"k1", b"k3")), ("v2", "v4", (b"k2", b"k4"))]
    for a, b, rel in pairs:
        for op in ("pie", "pbkw", "pke"):
            if rel is not None and op == "pke" and a == "v1":
                continue      # k1 PKE is RSA-KEM, k3 is ECDH: different constructions by specification
            ka, kb = blobs.get((a, op)), blobs.get((b, op))
            if ka is None or kb is None:
                ctx.add("R07.2", f"C07/sibling/{a}~{b}/{op}", False, "blob term missing")
                continue
            na, nb = abstract(ka), abstract(kb)
            if rel:
                na = relabel(na, rel[0], rel[1])
                na = relabel_types(na, a, b)
            if b == "v4-sodium" and op == "pbkw" and para_guarded_cache.get("v4-sodium", False):
                # listed delta: libsodium fixes parallelism = 1 (other values are rejected before the KDF runs)
                na = subst(na, ("BE", 32, ("sl", ("in", "params"), (12, 0), (16, 0))), ("int", 1))
            d = spec.diff(na, nb)
            ctx.add("R07.2", f"C07/sibling/{a}~{b}/{op}", na == nb,
                    "; ".join(x.replace("code has", a + " has").replace("spec has", b + " has") for x in d)[:1200])
    # R07.3 unwrap exits
    import c06
    for be in BACKENDS:
        for op in ("pie", "pbkw", "pke"):
            tail, meth, secret = c06.UNDO[op]
            f = find_impl_fn(w, BACKENDS[be], tail, meth)
            key = f"{op}/{be}"
            if f is None:
                ctx.add("R07.3", f"C07/unwrap-exits/{key}", False, "anchor missing")
                continue
            run_ = Run(w, f)
            bad, classes = [], {}
            for r in run_.err_paths:
                cls = classify_unwrap_exit(run_, r, be, op)
                classes[cls[0]] = classes.get(cls[0], 0) + 1
                if cls[0] == "unstated":
                    bad.append(cls[1])
            ctx.add("R07.3", f"C07/unwrap-exits/{key}", not bad, "; ".join(sorted(set(bad)))[:1200], site_of(f), {"classes": classes})

def strip_nonzero(t):
    if isinstance(t, tuple):
        if t and t[0] == "ok" and isinstance(t[1], tuple) and t[1][0] == "call" and t[1][1].startswith("core::num::nonzero::NonZero::<u32>::new"):
            return strip_nonzero(t[1][2][0])
        return tuple(strip_nonzero(x) for x in t)
    return t

def subst_argon_para(t):
    if isinstance(t, tuple):
        if t and t[0] == "ARGON2ID13":
            return t[:5] + (("int", 1),) + t[6:]
        return tuple(subst_argon_para(x) for x in t)
    return t

def relabel_types(t, a, b):
    return t

def subst(t, old, new):
    if t == old:
        return new
    if isinstance(t, tuple):
        return tuple(subst(x, old, new) for x in t)
    return t

def unwrap_param_rejections(be):
    """The reviewed parameter rejections of C05 (canonical atoms), re-expressed over the blob (params live behind the salt)."""
    import c05, paramcanon
    if be in ("v1", "v3", "v3-aws-lc"):
        f = lambda x: x.replace("$params)", "$key_data[32..36])")
    else:
        f = lambda x: x.replace("$params[0..8]", "$key_data[16..24]").replace("$params[8..12]", "$key_data[24..28]").replace("$params[12..16]", "$key_data[28..32]")
    return paramcanon.rename(c05.PARAM_REJECTIONS.get(be, ()), f)

def _pure_length_test(c):
    """c compares the length of the input blob with an integer constant and mentions nothing else."""
    L = ("len", ("in", "key_data"))
    if isinstance(c, tuple) and len(c) == 4 and c[0] == "binop" and c[1] in ("Eq", "Ne", "Lt", "Le", "Gt", "Ge"):
        a, b = c[2], c[3]
        return (a == L and isinstance(b, tuple) and b[0] == "int") or (b == L and isinstance(a, tuple) and a[0] == "int")
    return c == L          # `match key_data.len() { N => .., _ => Err }`

def classify_unwrap_exit(run, r, be, op):
    import c05
    cause = r.path.err_cause
    g = r.path.guards[-1] if r.path.guards else None
    if cause is None:
        c = run.norm.n(g["cond"]) if g else None
        s = fmt_n(c) if c is not None else "?"
        if "VERIFY" in repr(c):
            return ("verification", "")
        if _pure_length_test(c):
            return ("length", "")          # an explicit comparison of the blob's length with a constant
        from errclass import static_edge
        if g is not None and static_edge(run, c, g["value"]) is False:
            return ("statically-impossible", "")      # e.g. `if tag.len() != 48` on a 48-byte library output
        if op == "pbkw" and g is not None:
            import paramcanon
            atoms = paramcanon.canon(c, g["value"], g.get("arms"))
            if atoms and atoms <= unwrap_param_rejections(be):
                return ("param-validation", s)
        return ("unstated", "Err exit under condition " + s[:200])
    n = run.norm.n(cause)
    s = fmt_n(n)
    if isinstance(cause, tuple) and cause[0] in ("split", "tryarray"):
        return ("length", "")
    from textforms import exact_len_conv_name
    if isinstance(n, tuple) and n and n[0] == "call" and exact_len_conv_name(n[1]) is not None:
        return ("length", "")          # whole-buffer -> [u8; N] conversion: fails on the length only
    if isinstance(n, tuple) and n and n[0] in ("VERIFY", "VERIFYSIG"):
        return ("verification", "")
    if op == "pbkw":
        import paramcanon
        atoms = paramcanon.canon(n, None)
        if atoms and atoms <= unwrap_param_rejections(be):
            return ("param-validation", s)
    if isinstance(cause, tuple) and cause[0] == "fallible":
        return ("library-reported", cause[2])
    if isinstance(n, tuple) and n and n[0] in ("ARGON2ID13", "ARGON2", "PBKDF2", "H", "HST", "MAC", "MACST", "CIPHER", "DH", "ENC", "ok", "PARSEPT", "RSAENC", "INT"):
        return ("library-reported", n[0])
    if isinstance(n, tuple) and n and n[0] == "call":
        lib = ("aws_lc_rs::", "libsodium_rs::", "argon2::", "lc::", "rsa::", "sec1::", "<AffinePoint", "elliptic_curve::", "curve25519")
        if any(n[1].startswith(p) for p in lib):
            return ("library-reported", n[1])
    if isinstance(n, tuple) and n and n[0] in ("sl", "PUB", "XPUB", "XSK"):
        return ("library-reported", "point/parse of " + n[0])
    return ("unstated", "Err exit caused by " + s[:200])
