"""C10 — a token or PASERK of one version / purpose / kind is never accepted as another."""
from ops import *
from norm import fn as fmt_n
from runner import site_of
from termutil import *
from textforms import *
import keyrules

EXPLANATION = (
    "Exhaustive census over the finite set of impls and constants. R10.1: each of the 6 Version impls defines HEADER='vN' and "
    "overrides PASERK_HEADER='kN' for the same N (the trait default is a trap), sibling backends agree. R10.2: the set of text "
    "prefixes {token: HEADER+SUFFIX+purpose; key: kN+kind; id: kN+id-kind; pie/pw wrap: kN+wrap-kind; seal: kN+'.seal.'} over all "
    "versions and kinds, computed from the evaluated constants, is prefix-free across distinct (version, kind) — PKE kinds share "
    "the public/secret text kinds by specification and are separated by R10.3. R10.3: every HasKey::decode success path is closed "
    "by an exact-length test giving exactly the width of the requested kind (32 local; 32/64 Ed25519; 48 P-384 secret; SEC1 "
    "point encodings for P-384 public), and v1's RSA decoders test the modulus for exactly 2048 (token keys) / 4096 (PKE keys) bits. "
    "R10.4: the version/kind header is part of every authenticated transcript (shared with C02 R02.2 and C06 R06.2). R10.5: every "
    "FromStr strips exactly the trait constants of its own version and kind. Does not decide that distinct MAC inputs give distinct tags.")
ASSUMPTIONS = ["rustc const evaluation of the associated consts", "library parsers accept exactly the lengths listed in keyrules.LIB_EXACT"]
FLOORS = {"R10.1": 6, "R10.2": 1, "R10.3": 30, "R10.4": 30, "R10.5": 6}
EXHAUSTIVE = True

KINDS = ["Local", "Public", "Secret", "PkePublic", "PkeSecret"]
WIDTHS = {("v1", "Local"): {32}, ("v2", "Local"): {32}, ("v3", "Local"): {32}, ("v3-aws-lc", "Local"): {32}, ("v4", "Local"): {32}, ("v4-sodium", "Local"): {32},
          ("v2", "Public"): {32}, ("v4", "Public"): {32}, ("v4-sodium", "Public"): {32}, ("v2", "Secret"): {64}, ("v4", "Secret"): {64}, ("v4-sodium", "Secret"): {64},
          ("v3", "Secret"): {48}, ("v3-aws-lc", "Secret"): {48}, ("v3", "Public"): {49}, ("v3-aws-lc", "Public"): {49}}
for be in ("v2", "v4", "v4-sodium", "v3", "v3-aws-lc"):
    WIDTHS[(be, "PkePublic")] = WIDTHS[(be, "Public")]
    WIDTHS[(be, "PkeSecret")] = WIDTHS[(be, "Secret")]
RSA_BITS = {"Public": 2048, "Secret": 2048, "PkePublic": 4096, "PkeSecret": 4096}

def const_of(impls, trait_tail, self_contains, name):
    for im in impls:
        if im.get("trait", "").endswith(trait_tail) and self_contains in im["trait_full"].split(" as ")[0] + "|":
            pass
    return None

def impl_consts(crate, trait_tail):
    """{self type string: {const name: bytes}} for impls of a trait in a crate."""
    out = {}
    for im in crate.impls:
        if not im.get("of_trait") or not im["trait"].endswith(trait_tail):
            continue
        st = crate.ty_s(im["self"])
        d = {}
        for it in im["items"]:
            if it["kind"].startswith("AssocConst"):
                v = it.get("value")
                d[it["name"]] = bytes(v["bytes"]) if v and "bytes" in v else None
        out[st] = d
    return out

def run(ctx):
    core = ctx.crates["paseto_core"]
    kt = impl_consts(core, "key::KeyType")
    sk = impl_consts(core, "key::SealingKey")
    kinds = {k.split("::")[-1]: v for k, v in kt.items()}
    skinds = {k.split("::")[-1]: v for k, v in sk.items()}
    # ---------------- R10.1
    vers = {}
    for be, cn in BACKENDS.items():
        cr = ctx.crates[cn]
        vc = impl_consts(cr, "version::Version")
        probs = []
        if len(vc) != 1:
            probs.append(f"{len(vc)} Version impls")
        else:
            d = list(vc.values())[0]
            n = be[1:2].encode()
            if d.get("HEADER") != b"v" + n:
                probs.append(f"HEADER = {d.get('HEADER')!r}, expected {b'v'+n!r}")
            if "PASERK_HEADER" not in d:
                probs.append("PASERK_HEADER is not overridden (trait default 'k3' would apply)")
            elif d.get("PASERK_HEADER") != b"k" + n:
                probs.append(f"PASERK_HEADER = {d.get('PASERK_HEADER')!r}, expected {b'k'+n!r}")
            vers[be] = d
        ctx.add("R10.1", f"C10/version-consts/{be}", not probs, "; ".join(probs))
    # ---------------- R10.2 prefix-freeness
    entries = []     # (prefix bytes, label, class) where class identifies what may legitimately share the prefix
    for be, d in vers.items():
        ver = be.split("-")[0]
        H, K = d.get("HEADER") or b"?", d.get("PASERK_HEADER") or b"?"
        for p in ("Local", "Public"):
            if p in kinds and kinds[p].get("HEADER"):
                entries.append((H + kinds[p]["HEADER"], f"{ver} token {p}", (ver, "token", kinds[p]["HEADER"])))
        for k, c in kinds.items():
            if c.get("HEADER"):
                entries.append((K + c["HEADER"], f"{ver} key {k}", (ver, "key", c["HEADER"])))
            if c.get("ID_HEADER"):
                entries.append((K + c["ID_HEADER"], f"{ver} id {k}", (ver, "id", c["ID_HEADER"])))
        for k, c in skinds.items():
            for nm in ("PIE_WRAP_HEADER", "PW_WRAP_HEADER"):
                if c.get(nm):
                    entries.append((K + c[nm], f"{ver} {nm} {k}", (ver, nm, c[nm])))
        entries.append((K + b".seal.", f"{ver} seal", (ver, "seal", b".seal.")))
    probs = []
    uniq = {}
    for pre, label, cls in entries:
        uniq.setdefault(cls, (pre, label))
    items = list(uniq.items())
    for i, (c1, (p1, l1)) in enumerate(items):
        for c2, (p2, l2) in items[i + 1:]:
            if p1.startswith(p2) or p2.startswith(p1):
                probs.append(f"prefix clash: {l1} {p1!r} vs {l2} {p2!r}")
    if len(kinds) != 5:
        probs.append(f"expected 5 KeyType impls, found {sorted(kinds)}")
    if sorted(skinds) != ["Local", "Secret"]:
        probs.append(f"SealingKey impls are {sorted(skinds)}, expected Local and Secret")
    # PKE kinds share text kinds with Public/Secret by specification
    for a, b in (("PkePublic", "Public"), ("PkeSecret", "Secret")):
        if kinds.get(a) != kinds.get(b):
            probs.append(f"{a} headers {kinds.get(a)} differ from {b} {kinds.get(b)}")
    ctx.add("R10.2", "C10/prefix-free", not probs, "; ".join(probs)[:1500], facts={"prefixes": len(items)})
    ctx.sample({"prefixes": sorted(p.decode() for p, _ in uniq.values())[:40]})
    # ---------------- R10.3 exact widths / modulus sizes
    w = ctx.world
    for be, cn in BACKENDS.items():
        for kind in KINDS:
            f = find_impl_fn(w, cn, "::HasKey", "decode", kind)
            key = f"C10/decode-width/{be}/{kind}"
            if f is None:
                ctx.add("R10.3", key, False, "anchor missing: HasKey::decode")
                continue
            if be == "v1" and kind != "Local":
                ok, why, _ = keyrules.modulus_guard(w, cn, kind, RSA_BITS[kind])
                ctx.add("R10.3", key, ok, why, site_of(f))
                continue
            run_ = Run(w, f)
            probs = []
            if not run_.ok_paths:
                probs.append("no success path")
            for r in run_.ok_paths:
                ws = keyrules.accepted_widths(run_, r)
                want = WIDTHS[(be, kind)]
                if isinstance(ws, tuple):
                    probs.append(f"a success path accepts any length >= {ws[1]} (no exact-length test closes the input)")
                elif not ws <= want:
                    probs.append(f"accepts lengths {sorted(ws)}, the kind is {sorted(want)} bytes")
            ctx.add("R10.3", key, not probs, "; ".join(sorted(set(probs))), site_of(f))
    # ---------------- R10.4 header in authentication (shared rules)
    import c02, c06
    class Scratch:
        def __init__(s): s.f = []; s.world = ctx.world; s.analysed = {"functions": 0, "paths": 0, "call_sites": 0}; s.crates = ctx.crates
        def add(s, rule, k, ok, detail="", site=None, facts=None): s.f.append((rule, k, ok, detail, site))
        def sample(s, x): pass
    sc = Scratch()
    for be in BACKENDS:
        for purpose in ("Local", "Public"):
            c02.check_backend(sc, be, purpose)
        for op in ("pie", "pbkw", "pke"):
            c06.check(sc, be, op)
    for rule, k, ok, detail, site in sc.f:
        if rule in ("R02.2", "R06.2"):
            ctx.add("R10.4", "C10/header-authenticated/" + k.split("/", 2)[2], ok, detail, site)
    # ---------------- R10.5 FromStr constants
    want = {"SealedToken": [("aconst", "Version::HEADER", "V"), ("aconst", "Payload::SUFFIX", "M"), ("aconst", "KeyType::HEADER", "P")],
            "KeyText": [("aconst", "Version::PASERK_HEADER", "V"), ("aconst", "KeyType::HEADER", "K")],
            "KeyId": [("aconst", "Version::PASERK_HEADER", "V"), ("aconst", "KeyType::ID_HEADER", "K")],
            "PieWrappedKey": [("aconst", "Version::PASERK_HEADER", "V"), ("aconst", "SealingKey::PIE_WRAP_HEADER", "K")],
            "PasswordWrappedKey": [("aconst", "Version::PASERK_HEADER", "V"), ("aconst", "SealingKey::PW_WRAP_HEADER", "K")],
            "SealedKey": [("aconst", "Version::PASERK_HEADER", "V"), ("b", b".seal.")]}
    for tname, (dk, fk) in TYPES.items():
        ff, fs = fromstr_summaries(w, fk)
        probs = []
        if ff is None or not fs or not fs[0]:
            probs.append("anchor missing or no success path")
        else:
            for v, guards in fs[0]:
                chains = [strip_chain(x)[0] for x in subterms(v, lambda x: x and x[0] == "call" and x[1].startswith("core::str::<impl str>::strip_prefix"))]
                longest = max(chains, key=len) if chains else []
                if longest != want[tname]:
                    probs.append(f"strips {[fmt_n(x) for x in longest]}, expected {[fmt_n(x) for x in want[tname]]}")
        ctx.add("R10.5", f"C10/fromstr-consts/{tname}", not probs, "; ".join(sorted(set(probs))), site_of(ff) if ff else None)

# ---- R10.6 (shared with C18 probes P35–P40): the crates' public type aliases name the kind/purpose/version they say they name
# (a `PieWrappedSecretKey` that is really `PieWrappedKey<V, Local>` parses the other kind's strings under the wrong name).
_run_c10 = run
def run(ctx):
    _run_c10(ctx)
    import c18
    class Scratch:
        def __init__(s): s.findings = []; s.world = ctx.world; s.crates = ctx.crates; s.analysed = {"functions": 0, "paths": 0, "call_sites": 0}; s.notes = []; s.tier = ctx.tier; s.facts_dir = ctx.facts_dir
        def add(s, rule, k, ok, detail="", site=None, facts=None): s.findings.append((rule, k, ok, detail, site))
        def sample(s, x): pass
    sc = Scratch()
    c18.run(sc)
    for (rule, k, ok, detail, site) in sc.findings:
        if rule == "R18.2" and re.search(r"/P(3[5-9]|40)[a-c]?$", k):
            ctx.add("R10.6", "C10/alias-kind/" + k.split("/", 2)[-1], ok, detail, site)
FLOORS["R10.6"] = 40

# ---- R10.7 (shared with C09 R09.5): the serde form of every PASERK / token type is its text form — the version/kind header is
# the only thing that ties the phantom type parameters to the data, so no header-less binary representation may exist
_run_c10b = run
def run(ctx):
    _run_c10b(ctx)
    import shared
    shared.share(ctx, "c09", lambda r, k: r == "R09.5", "R10.7", "C10/serde-is-text/")
FLOORS["R10.7"] = 6
