"""C05 — PASERK wrap / password-wrap / seal round trip (static necessary conditions)."""
from ops import *
from norm import fn as fmt_n
from runner import site_of
from errclass import classify_paths
from termutil import *

EXPLANATION = (
    "Summary composition through paseto-core's generic code with each backend's trait impls substituted: "
    "R05.1 wrap_pie∘unwrap and password_wrap_with_params∘unwrap (6 backends each) must cancel symbolically — the tag "
    "verification compares identical constructions and the bytes handed to HasKey::decode are exactly HasKey::encode's "
    "output; R05.4 every Err exit of a wrap/seal path is environmental (RNG, library-reported), a reviewed parameter rejection in canonical form, or statically impossible under a stated library length contract; "
    "R05.6 the produced blob is a concatenation of fixed-width fields plus exactly one field as long as the encoded key, "
    "with the overhead the PASERK format prescribes; R05.3 no variable-length big-integer encoding reaches a fixed-width "
    "output field unpadded (T-FIXW). PKE (seal∘unseal) composition is decided up to the Diffie-Hellman / RSA-KEM algebra "
    "(see R05.2: transcript symmetry with DH terms normalised). Does not decide that primitives invert.")
ASSUMPTIONS = ["rustc type checking / MIR construction are correct",
               "dependency primitives are deterministic functions of their inputs",
               "HasKey::decode(HasKey::encode(k)) = k (C08)",
               "Display/FromStr of the wrapped-key types are mirror images (C09)"]
FLOORS = {"R05.1": 18, "R05.4": 18, "R05.6": 18, "R05.3": 6}

OVERHEAD = {("pie", "v1"): 80, ("pie", "v3"): 80, ("pie", "v3-aws-lc"): 80, ("pie", "v2"): 64, ("pie", "v4"): 64, ("pie", "v4-sodium"): 64,
            ("pbkw", "v1"): 100, ("pbkw", "v3"): 100, ("pbkw", "v3-aws-lc"): 100, ("pbkw", "v2"): 88, ("pbkw", "v4"): 88, ("pbkw", "v4-sodium"): 88,
            ("pke", "v1"): 560, ("pke", "v3"): 97, ("pke", "v3-aws-lc"): 97, ("pke", "v2"): 64, ("pke", "v4"): 64, ("pke", "v4-sodium"): 64}
G8 = "(BE 64 $params[0..8])"
P4 = "(BE 32 $params[12..16])"
# reviewed rejections of caller-supplied PBKW parameters, in the canonical form of paramcanon.py (any spelling of these tests is
# accepted; anything else derived from `params` is a violation)
PARAM_REJECTIONS = {
    "v1": set(), "v3": set(),
    "v3-aws-lc": {("eq", "(BE 32 $params)", 0)},          # 0 iterations: not a conforming blob
    "v2": {("not-multiple", G8, 1024),                      # argon2 crate takes KiB
           ("narrow", f"(binop Div {G8} 1024)"),            # > 4 TiB
           # lane count outside argon2's own bounds 1..=2^24-1 (checked up front since the D10 fix; argon2 rejects it anyway)
           ("below", P4, 1), ("above", P4, 16777215)},
    "v4-sodium": {("narrow", G8),
                  ("ne", P4, 1)},    # libsodium fixes parallelism = 1
}
PARAM_REJECTIONS["v4"] = PARAM_REJECTIONS["v2"]
KDF_CALLS = ("ARGON2", "argon2::", "PBKDF2", "libsodium_rs::crypto_pwhash")

def param_rejections(run):
    """Canonical atoms (paramcanon) of the Err exits that depend on the caller's `params` but are not the KDF's own verdict."""
    import paramcanon
    out = []
    for r in run.err_paths:
        cause = r.path.err_cause
        g = r.path.guards[-1] if r.path.guards else None
        t = run.norm.n(cause) if cause is not None else (run.norm.n(g["cond"]) if g else None)
        if t is None or not contains(t, ("in", "params")):
            continue
        s = fmt_n(t)
        if s.startswith("(discr "):
            s = s[7:-1]
        if any(s.startswith(k) or s.startswith("(" + k) for k in KDF_CALLS) or s.startswith("ENC<"):
            continue
        if subterms(t, lambda x: x and x[0] in ("PBKDF2", "ARGON2", "H", "MAC", "ENC", "HKDF", "HST", "MACST")):
            continue    # downstream of the KDF: the library's verdict on derived material, not a parameter test
        atoms = paramcanon.canon(t, None if cause is not None else g["value"], None if cause is not None else g.get("arms"))
        if atoms is None:
            out.append(("unrecognised", s))
        else:
            out.extend(sorted(atoms))
    return out

VARLEN_ENCODERS = ("num_bigint_dig::biguint::BigUint::to_bytes_be", "BN_bn2bin")

def blob_parts(blob):
    """key_data field of the wrapped-key aggregate, as a list of concatenated parts."""
    if not (isinstance(blob, tuple) and blob[0] == "agg" and blob[2]):
        return None
    kd = blob[2][0]
    if isinstance(kd, tuple) and kd[0] == "cat":
        return list(kd[1])
    return [kd]

def run(ctx):
    w = ctx.world
    for be in BACKENDS:
        for op in ("pie", "pbkw", "pke"):
            key = f"{op}/{be}"
            c = compose_paserk(w, be, op)
            ctx.analysed["functions"] += 2
            for k in ("wrap", "undo"):
                if k in c:
                    ctx.analysed["paths"] += len(c[k].results)
            wrapf = exact_core_fn(w, PASERK_OPS[op][0])
            # ---- R05.1 round trip
            if op == "pke":
                probs = list(c["problems"])
                if "verifications" in c:
                    if len(c["verifications"]) != 1:
                        probs.append(f"expected one verification on the unseal success path, found {len(c['verifications'])}")
                    for (_, _, t) in c["verifications"]:
                        if not verify_holds(t):
                            probs.append("verification does not compare identical constructions: " + fmt_n(t)[:700])
                    res = c.get("result")
                    k0 = ("fld", ("fld", ("in", "self"), 0), 0)
                    inner = res[2][0] if (isinstance(res, tuple) and res[0] == "agg" and res[2]) else None
                    inner = inner[2][0] if (isinstance(inner, tuple) and inner[0] == "agg" and inner[2]) else None
                    # libsodium's stream_xor returns a Vec of its input's length; Vec -> [u8;32] conversion is then total
                    from textforms import exact_len_conv_name
                    if isinstance(inner, tuple) and inner[0] == "ok" and inner[1][0] == "call" and exact_len_conv_name(inner[1][1]) == 32:
                        inner = inner[1][2][0]
                    if inner != k0 and not probs:
                        probs.append("unsealed key is not the sealed key: " + fmt_n(res)[:500])
                ctx.add("R05.1", f"C05/roundtrip/{key}", not probs, "; ".join(probs))
                if not probs:
                    ctx.sample({"op": op, "backend": be, "blob": fmt_n(c["blob"])[:600]})
            if op in ("pie", "pbkw"):
                probs = list(c["problems"])
                if "verifications" in c:
                    if len(c["verifications"]) != 1:
                        probs.append(f"expected one verification on the unwrap success path, found {len(c['verifications'])}")
                    for (_, _, t) in c["verifications"]:
                        if not verify_holds(t):
                            probs.append("verification does not compare identical constructions: " + fmt_n(t)[:700])
                    res = c.get("result")
                    enc = subterms(c.get("blob"), lambda x: x and x[0] == "call" and x[1].endswith("HasKey<K>>::encode"))
                    okres = (isinstance(res, tuple) and res[0] == "agg" and len(res[2]) == 1 and isinstance(res[2][0], tuple)
                             and res[2][0][0] == "ok" and res[2][0][1][0] == "call" and re.search(r"HasKey(<\w+>>)?::decode$", res[2][0][1][1])
                             and enc and res[2][0][1][2] == (enc[0],))
                    if not okres and not probs:
                        probs.append("unwrapped key is not decode(encode(key)): " + fmt_n(res)[:500])
                ctx.add("R05.1", f"C05/roundtrip/{key}", not probs, "; ".join(probs))
                if not probs:
                    ctx.sample({"op": op, "backend": be, "blob": fmt_n(c["blob"])[:600]})
            # ---- R05.4 err exits
            if "wrap" in c:
                classes, bad = classify_paths(c["wrap"])
                if op == "pbkw":
                    for s in param_rejections(c["wrap"]):
                        if s not in PARAM_REJECTIONS[be]:
                            bad.append("unreviewed rejection of caller-supplied parameters: " + str(s)[:300])
                ctx.add("R05.4", f"C05/wrap-err-exits/{key}", not bad, "; ".join(bad)[:1200], facts={"classes": classes})
            # ---- R05.6 fixed length, R05.3 T-FIXW
            parts = blob_parts(c.get("blob")) if c.get("blob") else None
            if parts is None:
                ctx.add("R05.6", f"C05/fixed-length/{key}", False, "no blob term: " + "; ".join(c["problems"]))
                continue
            nm = c["wrap"].norm
            var = []
            fixed = 0
            for p in parts:
                wv = nm.width(p)
                if wv is None:
                    var.append(p)
                else:
                    fixed += wv
            probs6 = []
            keyfield = None
            def is_local_key(inner):
                return isinstance(inner, tuple) and inner[0] == "fld" and inner[1] == ("fld", ("in", "self"), 0)
            for p in var:
                inner = p[2] if (isinstance(p, tuple) and p[0] == "ENC") else p
                if isinstance(inner, tuple) and inner[0] == "call" and inner[1].endswith("HasKey<K>>::encode"):
                    keyfield = p
                elif is_local_key(inner):
                    keyfield = p   # PKE: the 32-byte local key array itself (width not known to the evaluator)
                    fixed += 32
                else:
                    probs6.append("variable-width field in the blob: " + fmt_n(p)[:200])
            if op == "pke" and keyfield is None:
                # the evaluator learnt the key array's width from its type: the field is among the fixed-width ones
                for p in parts:
                    inner = p[2] if (isinstance(p, tuple) and p[0] == "ENC") else p
                    if is_local_key(inner) and nm.width(p) == 32:
                        keyfield = p
            if keyfield is None:
                probs6.append("no field carrying the encrypted encoded key")
            if fixed != OVERHEAD[(op, be)] + (32 if op == "pke" else 0) and not probs6:
                probs6.append(f"fixed-width fields sum to {fixed}, the format prescribes {OVERHEAD[(op, be)]}" + (" + 32" if op == "pke" else ""))
            ctx.add("R05.6", f"C05/fixed-length/{key}", not probs6, "; ".join(probs6), site_of(wrapf) if wrapf else None,
                    {"parts": [fmt_n(p)[:80] + f" :{nm.width(p)}" for p in parts]})
            if op == "pke":
                bad3 = []
                for p in parts:
                    if isinstance(p, tuple) and p[0] == "call" and any(p[1].endswith(v) or v in p[1] for v in VARLEN_ENCODERS):
                        bad3.append("variable-length integer encoding used directly as an output field: " + fmt_n(p)[:160])
                ctx.add("R05.3", f"C05/fixw/{key}", not bad3, "; ".join(bad3), site_of(wrapf) if wrapf else None)

# ---- R05.7 (shared with C08 R08.1b / R08.8): the undo side hands the recovered bytes to HasKey::decode, which must parse exactly
# what HasKey::encode produced: byte-preserving decoders for v2–v4, and for v1 the DER parser applied to the unmodified bytes.
_run_c05 = run
def run(ctx):
    _run_c05(ctx)
    import c08
    class Scratch:
        def __init__(s): s.findings = []; s.world = ctx.world; s.crates = ctx.crates; s.analysed = {"functions": 0, "paths": 0, "call_sites": 0}; s.notes = []; s.tier = ctx.tier; s.facts_dir = ctx.facts_dir
        def add(s, rule, k, ok, detail="", site=None, facts=None): s.findings.append((rule, k, ok, detail, site))
        def sample(s, x): pass
    sc = Scratch()
    c08.run(sc)
    for (rule, k, ok, detail, site) in sc.findings:
        if rule in ("R08.1b", "R08.8") and ("/Local" in k or "/Secret" in k or "/PkeSecret" in k):
            ctx.add("R05.7", "C05/decode-of-encoded/" + k.split("/", 1)[-1], ok, detail, site)
FLOORS["R05.7"] = 12

# ---- R05.8 (shared with C09 R09.1 / R09.2 / R09.3): "parsing the serialised result" — the text form of a wrapped / sealed key is
# a mirror pair (Display writes exactly the constants FromStr strips, and base64-prints the stored bytes; FromStr decodes the whole
# remainder), and base64 decode_vec / the encoder are exact. Without it a blob that unwraps correctly in memory would not survive
# to_string() / parse().
_run_c05b = run
def run(ctx):
    _run_c05b(ctx)
    import shared
    TYPES_ = ("PieWrappedKey", "PasswordWrappedKey", "SealedKey")
    n = shared.share(ctx, "c09", lambda r, k: (r in ("R09.1", "R09.2") and k.rsplit("/", 1)[-1] in TYPES_)
                     or (r in ("R09.3", "R09.4", "R09.7") and "/b64/" in k), "R05.8", "C05/text-form/")
FLOORS["R05.8"] = 10
