"""Canonical form of a rejection condition on an integer parameter.

A parameter test can be written in many equivalent ways (`!(lo..=hi).contains(&x)`, `x < lo || x > hi`, `!x.is_multiple_of(m)`,
`x % m != 0`, `NonZero::new(x)` being None, `x == 0`). The reviewed-rejection tables of C05/C06/C07 are kept in the canonical form
below, so that any spelling of a reviewed test is accepted and any other test is reported:

    ("below", X, c)         rejects X < c
    ("above", X, c)         rejects X > c
    ("eq", X, c) / ("ne", X, c)
    ("multiple", X, m) / ("not-multiple", X, m)
    ("inside", X, lo, hi)   rejects lo <= X <= hi           (its negation is {below lo, above hi})
    ("narrow", X)           rejects X that does not fit the narrower integer type of a TryFrom
X is the printed normalised term of the tested expression.
"""
import re
from norm import fn as fmt_n

_NEG = {"Lt": "Ge", "Ge": "Lt", "Gt": "Le", "Le": "Gt", "Eq": "Ne", "Ne": "Eq"}
_FLIP = {"Lt": "Gt", "Gt": "Lt", "Le": "Ge", "Ge": "Le", "Eq": "Eq", "Ne": "Ne"}

def _int(t):
    return isinstance(t, tuple) and len(t) == 2 and t[0] == "int"

def _rel(op, x, c):
    xs = fmt_n(x)
    # X % m ==/!= 0
    if isinstance(x, tuple) and x and x[0] == "binop" and x[1] == "Rem" and _int(x[3]) and c == 0 and op in ("Eq", "Ne"):
        return {("multiple" if op == "Eq" else "not-multiple", fmt_n(x[2]), x[3][1])}
    return {"Lt": {("below", xs, c)}, "Le": {("below", xs, c + 1)}, "Gt": {("above", xs, c)}, "Ge": {("above", xs, c - 1)},
            "Eq": {("eq", xs, c)}, "Ne": {("ne", xs, c)}}[op]

def _range_const(t):
    """RangeInclusive<u32> constant as printed bytes: start, end little-endian u32 + exhausted flag; or the same range built at
    run time with RangeInclusive::new(lo, hi) from two integer constants."""
    if isinstance(t, tuple) and len(t) == 3 and t[0] == "call" and re.search(r"RangeInclusive::<u(32|64)>::new$", t[1]) and len(t[2]) == 2 \
            and _int(t[2][0]) and _int(t[2][1]):
        return t[2][0][1], t[2][1][1]
    if isinstance(t, tuple) and len(t) == 2 and t[0] in ("b", "bytes") and isinstance(t[1], (bytes, bytearray)) and len(t[1]) >= 8:
        b = bytes(t[1])
        return int.from_bytes(b[0:4], "little"), int.from_bytes(b[4:8], "little")
    return None

def canon(t, value=None, arms=None):
    """t: normalised condition (with the branch `value` that leads to the Err: 1 = condition true, 0 = false) or, with
    value None, the normalised fallible cause whose failure is the Err. -> set of canonical atoms, or None if not a parameter test."""
    if not (isinstance(t, tuple) and t):
        return None
    if t[0] == "discr" and len(t) == 2:
        return canon(t[1], None)
    if t[0] == "ok" and len(t) == 2 and value is None:
        return canon(t[1], None)
    if t[0] == "NARROW" and value is None:
        return {("narrow", fmt_n(t[1]))}
    if t[0] == "binop" and len(t) == 4 and t[1] in _NEG and value in (0, 1):
        op, a, b = t[1], t[2], t[3]
        if _int(a) and not _int(b):
            op, a, b = _FLIP[op], b, a
        if not _int(b) or _int(a):
            return None
        if value == 0:
            op = _NEG[op]
        return _rel(op, a, b[1])
    if (t[0] == "BE" and value is not None) or (t[0] == "binop" and len(t) == 4 and t[1] not in _NEG and value is not None) \
            or t[0] in ("call", "sl", "fld", "index") and (isinstance(value, int) and value not in (0, 1) or value == "otherwise" or (arms and any(a not in (0, 1) for a in arms))):
        # `match x { k => .., _ => .. }` directly on the integer expression
        from termutil import pin_of
        pin = pin_of(t, value, arms)
        if pin is not None:
            return _rel("Eq" if pin[2] else "Ne", pin[0], pin[1])
    if t[0] == "call" and len(t) == 3:
        name, args = t[1], t[2]
        if re.search(r"core::num::<impl u(32|64|size)>::is_multiple_of$", name) and len(args) == 2 and _int(args[1]) and value in (0, 1):
            return {("multiple" if value == 1 else "not-multiple", fmt_n(args[0]), args[1][1])}
        if re.search(r"RangeInclusive::<u(32|64)>::contains::<u(32|64)>$", name) and len(args) == 2 and value in (0, 1):
            rc = _range_const(args[0])
            if rc is None:
                return None
            lo, hi = rc
            xs = fmt_n(args[1])
            if value == 1:
                return {("inside", xs, lo, hi)}
            return {("below", xs, lo), ("above", xs, hi)}
        if name.startswith("core::num::nonzero::NonZero::<u32>::new") and len(args) == 1 and value is None:
            return {("eq", fmt_n(args[0]), 0)}      # None iff zero
    return None

def rename(atoms, f):
    return {(a[0], f(a[1])) + tuple(a[2:]) for a in atoms}
