"""C12 — nothing from an unauthenticated token is decoded, validated or reported."""
from ops import *
from norm import fn as fmt_n
from runner import site_of
from termutil import *
import c02

EXPLANATION = (
    "Path rules over the resolved program. R12.1: in paseto-core's SealedToken::unseal every path that reaches the payload "
    "decoder has first taken the success edge of the backend's unseal, and every path that reaches the validator has taken the "
    "success edge of the decoder; no decoder/validator call exists on a path where authentication failed. R12.2: in each of "
    "the 12 backend unseal functions the verification's success precedes in-place decryption and every Ok exit (shared with "
    "C02 R02.4). R12.3: every error value a backend unseal can return is one of the unit variants InvalidToken / CryptoError / "
    "ClaimsError (so it carries no payload-derived data), and PayloadError is constructed only at the reviewed sites in "
    "paseto-core. R12.4: the only public way to reach a sealed token's footer is `unverified_footer`; its fields are not public. "
    "R12.5/R12.6 (shared with C02 R02.5/R02.7): a wrong implicit assertion is rejected (v1/v2) or authenticated (v3/v4), and what is authenticated is the token as received (stored footer bytes, not a re-encoding), so a token that should fail authentication does fail it. These are pure ordering/census properties, so nothing value-dependent remains once they hold.")
ASSUMPTIONS = ["rustc type checking / MIR construction are correct", "path enumeration covers every acyclic MIR path of the analysed functions (they are loop-free; a loop is reported)"]
FLOORS = {"R12.1": 1, "R12.2": 12, "R12.3": 13, "R12.4": 4, "R12.5": 12, "R12.6": 1, "R12.7": 24, "R12.8": 1}
ALLOWED_ERR = {"InvalidToken", "CryptoError", "ClaimsError"}
PAYLOADERROR_SITES = {
    ("paseto_core", "tokens::SealedToken::<V, P, M, F>::unseal"): "decode error of an authenticated payload (behind the R12.1 gate)",
    ("paseto_core", "tokens::UnsealedToken::<V, P, M, F>::dangerous_seal_with_nonce"): "encoder errors on the sealing side",
    ("paseto_core", "encodings::<impl core::str::traits::FromStr for tokens::SealedToken<V, P, M, F>>::from_str"): "footer decode while parsing (footer bytes are public by design)",
}
SEALEDTOKEN_PUBLIC_API = {"unverified_footer", "unseal", "decrypt", "decrypt_with_aad", "verify", "verify_with_aad"}

def err_variant(t):
    """Variant name of the PasetoError inside an Err(...) / from_residual(Err(..)) term."""
    while isinstance(t, tuple) and t and t[0] in ("from_residual",):
        t = t[1]
    if isinstance(t, tuple) and t and t[0] == "agg" and t[1] == "adt:Result::Err" and t[2]:
        e = t[2][0]
        if isinstance(e, tuple) and e and e[0] == "agg" and e[1].startswith("adt:PasetoError::"):
            return e[1].rsplit("::", 1)[-1], e
        return None, e
    return None, t

def _returns_verdict_of(r, suffix):
    """The path returns the named call's own Result through Ok-preserving plumbing (map / map_err): Ok exactly when it is Ok."""
    from interp import peel
    root = peel(r.ret)
    return r.okness is None and isinstance(root, tuple) and bool(root) and root[0] == "call" and root[1].endswith(suffix)

def run(ctx):
    w = ctx.world
    # ---------------- R12.1
    g = core_fn(w, "tokens::SealedToken::<V, P, M, F>::unseal")
    probs = []
    if g is None:
        probs.append("anchor missing: SealedToken::unseal")
    else:
        run = Run(w, g)
        ctx.analysed["paths"] += len(run.results)
        saw_decode = saw_validate = False
        for r in run.results:
            if r.kind == "loop":
                probs.append("loop in SealedToken::unseal")
            evs = r.path.events
            def idx(pred):
                for i, e in enumerate(evs):
                    if e["kind"] == "call" and pred(e["name"]):
                        return i
                return None
            iu = idx(lambda n: n.endswith("UnsealingVersion<P>>::unseal"))
            idd = idx(lambda n: n.endswith("Payload>::decode"))
            iv = idx(lambda n: n.endswith("Validate>::validate"))
            def took_ok(callname_suffix, before):
                for gd in r.path.guards:
                    c = gd["cond"]
                    if isinstance(c, tuple) and c[0] == "discr" and callname_suffix in repr(c)[:4000] and gd["nev"] <= before:
                        from interp import peel
                        root = peel(c[1])
                        if isinstance(root, tuple) and root[0] == "call" and root[1].endswith(callname_suffix):
                            return gd["value"] == 0
                return False
            if idd is not None:
                saw_decode = True
                if iu is None or iu > idd:
                    probs.append("payload decoder reached before/without the backend unseal call")
                elif not took_ok("UnsealingVersion<P>>::unseal", idd):
                    probs.append("payload decoder reached without taking the success edge of V::unseal")
            if iv is not None:
                saw_validate = True
                if idd is None or idd > iv:
                    probs.append("validator reached before/without the payload decoder")
                elif not took_ok("Payload>::decode", iv):
                    probs.append("validator reached without taking the success edge of the decoder")
            if r.kind == "return" and r.okness is not False:
                if iu is None or idd is None or iv is None:
                    probs.append("an Ok exit does not pass through unseal, decode and validate")
                elif not took_ok("Validate>::validate", len(evs)) and not _returns_verdict_of(r, "Validate>::validate"):
                    probs.append("an Ok exit does not take the success edge of the validator")
        if not saw_decode or not saw_validate:
            probs.append("decode / validate calls not found (anchor changed)")
    ctx.add("R12.1", "C12/R12.1/core-unseal-order", not probs, "; ".join(sorted(set(probs))), site_of(g) if g else None)
    # ---------------- R12.2 (shared gate rule) and R12.3 error kinds
    for be in BACKENDS:
        for purpose in ("Local", "Public"):
            key = f"{be}/{purpose.lower()}"
            sub = type("S", (), {})()
            tmp = type(ctx)(ctx.prop, ctx.tier, ctx.facts_dir) if False else None
            # reuse C02's implementation on a scratch context sharing the world
            class Scratch:
                def __init__(s): s.findings = []; s.world = ctx.world; s.analysed = {"functions": 0, "paths": 0, "call_sites": 0}
                def add(s, rule, k, ok, detail="", site=None, facts=None): s.findings.append((rule, k, ok, detail, site))
                def sample(s, x): pass
            sc = Scratch()
            c02.check_backend(sc, be, purpose)
            for (rule, k, ok, detail, site) in sc.findings:
                if rule == "R02.4":
                    ctx.add("R12.2", f"C12/R12.2/{key}", ok, detail, site)
                if rule in ("R02.1", "R02.3"):
                    # a verification that covers only part of the token, or compares fewer bytes than the tag, is not an authentication
                    ctx.add("R12.7", f"C12/R12.7/{key}/{rule}", ok, detail, site)
                if rule == "R02.5":
                    # a wrong implicit assertion is an authentication failure: v1/v2 must reject a non-empty one first, v3/v4 must authenticate it
                    ctx.add("R12.5", f"C12/R12.5/{key}", ok, detail, site)
            f, run = c02.unseal_run(w, be, purpose)
            if f is None:
                ctx.add("R12.3", f"C12/R12.3/{key}", False, "anchor missing")
                continue
            bad = []
            kinds = {}
            for r in run.err_paths:
                v, e = err_variant(r.ret)
                kinds[v] = kinds.get(v, 0) + 1
                if v not in ALLOWED_ERR:
                    bad.append(f"error value {fmt_n(run.norm.n(e))[:160]} is not one of {sorted(ALLOWED_ERR)}")
            ctx.add("R12.3", f"C12/R12.3/{key}", not bad, "; ".join(sorted(set(bad))), site_of(f), {"kinds": {str(k): v for k, v in kinds.items()}})
    # R12.6 (shared with C02 R02.7): what is authenticated is the token as received (payload, stored footer bytes, assertion, key unmodified)
    class Scratch2:
        def __init__(s): s.findings = []; s.world = ctx.world; s.crates = ctx.crates; s.analysed = {"functions": 0, "paths": 0, "call_sites": 0}
        def add(s, rule, k, ok, detail="", site=None, facts=None): s.findings.append((rule, k, ok, detail, site))
        def sample(s, x): pass
    sc2 = Scratch2()
    c02.check_core_plumbing(sc2)
    for (rule, k, ok, detail, site) in sc2.findings:
        ctx.add("R12.6", "C12/R12.6/core-passes-received-bytes", ok, detail, site)
    sc3 = Scratch2()
    sc3.repo = getattr(ctx, "repo", None)
    c02.check_manifest_features(sc3)
    for (rule, k, ok, detail, site) in sc3.findings:
        # R12.8 (shared with C02 R02.9): the verifier is not configured (dependency feature) to accept re-encoded signatures
        ctx.add("R12.8", "C12/R12.8/manifest-features", ok, detail, site)
    # PayloadError construction census (aggregate or constructor fn item)
    sites = set()
    for c in ctx.crates.values():
        for k, f in c.fns.items():
            s = None
            for b in f["body"]["blocks"]:
                for st in b["stmts"]:
                    if st["k"] == "assign" and st["rv"]["k"] == "agg" and st["rv"]["ak"].get("a") == "adt" \
                            and st["rv"]["ak"].get("path", "").endswith("PasetoError") and st["rv"]["ak"].get("vname") == "PayloadError":
                        s = True
                t = b["term"]
                if t["k"] == "call":
                    for a in t["args"]:
                        cst = a.get("const")
                        if cst and cst.get("fndef", "").endswith("PasetoError::PayloadError"):
                            s = True
            if s and not k.endswith("PasetoError::PayloadError") and "PasetoError" not in k.split("::")[0:1]:
                root = k.split("::{closure")[0]
                sites.add((c.name, root))
    unexpected = sorted(s for s in sites if s not in PAYLOADERROR_SITES and "<impl core::fmt::Display for PasetoError>" not in s[1]
                        and "PasetoError as" not in s[1] and "for PasetoError" not in s[1])
    ctx.add("R12.3", "C12/R12.3/payloaderror-sites", not unexpected,
            "PayloadError constructed at unreviewed site(s): " + str(unexpected) if unexpected else "", facts={"sites": sorted(map(str, sites))})
    # ---------------- R12.4 accessor census
    core = ctx.crates["paseto_core"]
    adt = core.adts.get("tokens::SealedToken")
    probs = []
    if adt is None:
        probs.append("anchor missing: tokens::SealedToken")
    else:
        for fld in adt["variants"][0]["fields"]:
            if fld["vis"] == "Public":
                probs.append(f"field {fld['name']} of SealedToken is public")
    ctx.add("R12.4", "C12/R12.4/fields-private", not probs, "; ".join(probs))
    # census of every function that READS the footer fields of a SealedToken (any crate, trait impls and closures included)
    adt = core.adts.get("tokens::SealedToken")
    fidx = {fl["name"]: i for i, fl in enumerate(adt["variants"][0]["fields"])} if adt else {}
    ALLOWED_READERS = {"footer": ("::unverified_footer", "::unseal"), "encoded_footer": ("::unseal", "core::fmt::Display for tokens::SealedToken<V, P, M, F>>::fmt")}
    readers = {"footer": set(), "encoded_footer": set()}
    for c in ctx.crates.values():
        for k, f in c.fns.items():
            if not f.get("body"):
                continue
            locs = f["body"]["locals"]
            def scan(pl, is_dest=False):
                ty = locs[pl["l"]]["ty"]
                projs = pl["p"]
                for i, e in enumerate(projs):
                    t = c.types[ty]
                    if e == "*":
                        ty = t.get("inner", ty)
                        continue
                    if isinstance(e, dict) and "f" in e:
                        if t["k"] == "adt" and t["path"].endswith("tokens::SealedToken"):
                            for nm, ix in fidx.items():
                                if nm in readers and e["f"] == ix and not (is_dest and i == len(projs) - 1):
                                    readers[nm].add(k)
                        ty = e["ty"]
                    else:
                        break
            def visit(o, is_dest=False):
                if isinstance(o, dict):
                    if "l" in o and "p" in o:
                        scan(o, is_dest)
                        return
                    for kk, v in o.items():
                        visit(v, is_dest=(kk in ("place", "dest") and o.get("k") in ("assign", "call") and kk != "rv"))
                elif isinstance(o, list):
                    for v in o:
                        visit(v)
            for b in f["body"]["blocks"]:
                for st in b["stmts"]:
                    if st["k"] == "assign":
                        scan(st["place"], True)
                        visit(st["rv"])
                t = b["term"]
                if t["k"] == "call":
                    for a in t["args"]:
                        visit(a)
                elif t["k"] in ("switch",):
                    visit(t["discr"])
    for nm, who in readers.items():
        bad = sorted(k for k in who if not any(k.endswith(sfx) or sfx in k for sfx in ALLOWED_READERS[nm]))
        ctx.add("R12.4", f"C12/R12.4/readers-of-{nm}", bool(fidx) and bool(who) and not bad,
                (f"the {nm} of a sealed (unverified) token is also read by: {bad}" if bad else ("anchor missing" if not who else "")), facts={"readers": sorted(who)})
    pubs = set()
    for k, f in core.fns.items():
        if f.get("kind") == "AssocFn" and "impl" in f and not f.get("impl_trait") and "{closure" not in k:
            st = core.ty_s(f["impl_self"])
            if st.startswith("tokens::SealedToken<") and f.get("vis") == "Public":
                pubs.add(f["name"])
    extra = sorted(pubs - SEALEDTOKEN_PUBLIC_API)
    ctx.add("R12.4", "C12/R12.4/public-api", not extra,
            f"unreviewed public inherent method(s) on SealedToken: {extra}" if extra else "", facts={"public": sorted(pubs)})
    ctx.sample({"public_api": sorted(pubs), "payloaderror_sites": sorted(map(str, sites))})

# ---- R12.9 (shared with C17 R17.4 / C16 R16.3): no static or thread-local state in the library crates — a key-derived value
# cannot be cached across calls, so the key that verifies is the key that was passed.
# ---- R12.10 (shared with C04 R04.1): a failing token yields an error: no undischarged panic site inside any backend unseal.
_run_c12 = run
def run(ctx):
    _run_c12(ctx)
    import shared
    shared.share(ctx, "c17", lambda r, k: r == "R17.4", "R12.9", "C12/no-shared-state/")
    n = shared.share(ctx, "c04", lambda r, k: r == "R04.1" and "UnsealingVersion<" in k and ">::unseal/" in k, "R12.10", "C12/unseal-no-panic/")
    if n == 0:
        ctx.add("R12.10", "C12/unseal-no-panic/none", False, "no panic-capable site found in any unseal function (anchor changed?)")
FLOORS["R12.9"] = 8
FLOORS["R12.10"] = 10

# ---- R12.11 (shared with C09 R09.1 / R09.2 and C10 R10.5): the backends authenticate the version / purpose header from TYPE-LEVEL
# constants, not from the received text — so the text parser must strip exactly those constants, whole, and decode the whole
# remainder; otherwise a token whose header was altered still authenticates and reaches the decoder and the validator.
_run_c12b = run
def run(ctx):
    _run_c12b(ctx)
    import shared
    shared.share(ctx, "c09", lambda r, k: r in ("R09.1", "R09.2") and k.endswith("/SealedToken"), "R12.11", "C12/parser-header/")
    shared.share(ctx, "c10", lambda r, k: r == "R10.5" and k.endswith("/SealedToken"), "R12.11", "C12/parser-header/")
FLOORS["R12.11"] = 3
