"""R09.3 / R09.4 — base64 internals."""
import re
from ops import *
from norm import Norm, fn as fmt_n
from runner import site_of
from interp import peel
import cfg

ALPHABET = "ABCDEFGHIJKLMNOPQRSTUVWXYZabcdefghijklmnopqrstuvwxyz0123456789-_"     # RFC 4648 §5

def runs_of(alpha):
    """maximal runs of consecutive code points: [(first_char_code, last_char_code, first_value)]"""
    out = []
    i = 0
    while i < len(alpha):
        j = i
        while j + 1 < len(alpha) and ord(alpha[j + 1]) == ord(alpha[j]) + 1:
            j += 1
        out.append((ord(alpha[i]), ord(alpha[j]), i))
        i = j + 1
    return out

def strip_cast(t):
    while isinstance(t, tuple) and t and t[0] == "cast" and t[1] == "IntToInt":
        t = t[2]
    return t

def flatten_add(t):
    t = strip_cast(t)
    if isinstance(t, tuple) and t and t[0] == "binop" and t[1] == "Add":
        return flatten_add(t[2]) + flatten_add(t[3])
    return [t]

def is_src(t, name="src"):
    return strip_cast(t) == ("in", name)

def summary(ctx, fname):
    f = ctx.crates["paseto_core"].fns.get(fname)
    if f is None:
        return None, None, None
    it = Interp(ctx.world, inline=False)
    res = [r for r in it.run(f) if r.kind == "return"]
    if len(res) != 1:
        return f, None, None
    nm = Norm()
    outs = {k[2]: nm.n(v) for k, v in res[0].path.store.items() if k[0] == "P"}
    return f, nm.n(res[0].ret), outs

def check_decode6(ctx):
    f, ret, _ = summary(ctx, "base64::decode_6bits")
    probs = []
    if ret is None:
        ctx.add("R09.4", "C09/b64/decode_6bits", False, "anchor missing or not straight-line", site_of(f) if f else None)
        return None
    terms = flatten_add(ret)
    consts = [t for t in terms if isinstance(t, tuple) and t[0] == "int"]
    rng = []
    for t in terms:
        if isinstance(t, tuple) and t[0] == "int":
            continue
        # ((A - src) & (src - B)) >> 8) & X
        ok = False
        if isinstance(t, tuple) and t[0] == "binop" and t[1] == "BitAnd":
            m, x = t[2], t[3]
            if isinstance(m, tuple) and m[0] == "binop" and m[1] == "Shr" and m[3] == ("int", 8):
                inner = m[2]
                if isinstance(inner, tuple) and inner[0] == "binop" and inner[1] == "BitAnd":
                    l, r = inner[2], inner[3]
                    if (isinstance(l, tuple) and l[0] == "binop" and l[1] == "Sub" and l[2][0] == "int" and is_src(l[3])
                            and isinstance(r, tuple) and r[0] == "binop" and r[1] == "Sub" and is_src(r[2]) and r[3][0] == "int"):
                        a, b = l[2][1], r[3][1]
                        xs = strip_cast(x)
                        if isinstance(xs, tuple) and xs[0] == "int":
                            rng.append((a + 1, b - 1, ("const", xs[1]))); ok = True
                        elif isinstance(xs, tuple) and xs[0] == "binop" and xs[1] == "Add" and is_src(xs[2]) and xs[3][0] == "int":
                            rng.append((a + 1, b - 1, ("src+", xs[3][1]))); ok = True
                        elif isinstance(xs, tuple) and xs[0] == "binop" and xs[1] == "Add" and is_src(xs[3]) and xs[2][0] == "int":
                            rng.append((a + 1, b - 1, ("src+", xs[2][1]))); ok = True      # c + src
                        elif isinstance(xs, tuple) and xs[0] == "binop" and xs[1] == "Sub" and is_src(xs[2]) and xs[3][0] == "int":
                            rng.append((a + 1, b - 1, ("src+", -xs[3][1]))); ok = True     # src - c
        if not ok:
            probs.append("term not of the range-mask form ((lo-1 - src) & (src - (hi+1))) >> 8 & value: " + fmt_n(t)[:160])
    base = sum(c[1] for c in consts)
    # expected from the RFC alphabet: a character c in run (lo,hi,v0) decodes to v0 + (c - lo); everything else to base (<0 -> error bit)
    want = []
    for lo, hi, v0 in runs_of(ALPHABET):
        if lo == hi:
            want.append((lo, hi, ("const", v0 - base)))
        else:
            want.append((lo, hi, ("src+", v0 - lo - base)))
    if base >= 0:
        probs.append(f"value for characters outside the alphabet is {base}, must be negative so that bit 8 flags the error")
    if sorted(rng) != sorted(want) and not probs:
        probs.append(f"alphabet ranges {sorted(rng)} differ from RFC 4648 §5 {sorted(want)}")
    ctx.add("R09.4", "C09/b64/decode_6bits", not probs, "; ".join(probs), site_of(f), {"ranges": str(sorted(rng)), "base": base})
    return rng

def check_encode6(ctx):
    f, ret, _ = summary(ctx, "base64::encode_6bits")
    probs = []
    if ret is None:
        ctx.add("R09.4", "C09/b64/encode_6bits", False, "anchor missing or not straight-line", site_of(f) if f else None)
        return
    terms = flatten_add(ret)
    base = 0
    have_src = False
    steps = []
    for t in terms:
        if isinstance(t, tuple) and t[0] == "int":
            base += t[1]
        elif is_src(t):
            have_src = True
        elif (isinstance(t, tuple) and t[0] == "binop" and t[1] == "BitAnd" and t[3][0] == "int"
              and isinstance(t[2], tuple) and t[2][0] == "binop" and t[2][1] == "Shr" and t[2][3] == ("int", 8)
              and isinstance(t[2][2], tuple) and t[2][2][0] == "binop" and t[2][2][1] == "Sub" and t[2][2][2][0] == "int" and is_src(t[2][2][3])):
            steps.append((t[2][2][2][1], t[3][1]))      # (threshold T: applies when src > T, delta)
        else:
            probs.append("term not of the threshold form ((T - src) >> 8) & delta: " + fmt_n(t)[:160])
    if not have_src:
        probs.append("result does not depend linearly on the 6-bit value")
    # expected: value v in run k encodes to lo_k + (v - v0_k) = v + (lo_k - v0_k)
    rs = runs_of(ALPHABET)
    want_base = rs[0][0] - rs[0][2]
    want_steps = []
    prev = want_base
    for lo, hi, v0 in rs[1:]:
        off = lo - v0
        want_steps.append((v0 - 1, off - prev))
        prev = off
    if not probs and (base != want_base or sorted(steps) != sorted(want_steps)):
        probs.append(f"encoder constants base={base} steps={sorted(steps)} differ from RFC 4648 §5 base={want_base} steps={sorted(want_steps)}")
    ctx.add("R09.4", "C09/b64/encode_6bits", not probs, "; ".join(probs), site_of(f), {"base": base, "steps": str(sorted(steps))})

def d6(i):
    return ("call", "base64::decode_6bits", (("index", ("in", "src"), ("int", i)),))

def check_3bytes(ctx):
    # decode: 4 sextets -> 3 bytes, big-endian packing; error bit = bit 8 of the OR of all sextets
    f, ret, outs = summary(ctx, "base64::decode_3bytes")
    probs = []
    if ret is None:
        probs.append("anchor missing or not straight-line")
    else:
        def B(op, a, b): return ("binop", op, a, b)
        want_ret = B("BitAnd", B("Shr", B("BitOr", B("BitOr", B("BitOr", d6(0), d6(1)), d6(2)), d6(3)), ("int", 8)), ("int", 1))
        # accept any association/order of the OR
        def orset(t):
            if isinstance(t, tuple) and t[0] == "binop" and t[1] == "BitOr":
                return orset(t[2]) | orset(t[3])
            return {t}
        okret = (isinstance(ret, tuple) and ret[0] == "binop" and ret[1] == "BitAnd" and ret[3] == ("int", 1) and ret[2][0] == "binop" and ret[2][1] == "Shr"
                 and ret[2][3] == ("int", 8) and orset(ret[2][2]) == {d6(0), d6(1), d6(2), d6(3)})
        if not okret:
            probs.append("error flag is not bit 8 of (c0|c1|c2|c3): " + fmt_n(ret)[:200])
        dst = outs.get("dst")
        got = {}
        t = dst
        while isinstance(t, tuple) and t and t[0] == "SETBYTE":
            got.setdefault(t[2], strip_cast(t[3]))
            t = t[1]
        want = {("int", 0): B("BitOr", B("Shl", d6(0), ("int", 2)), B("Shr", d6(1), ("int", 4))),
                ("int", 1): B("BitOr", B("Shl", d6(1), ("int", 4)), B("Shr", d6(2), ("int", 2))),
                ("int", 2): B("BitOr", B("Shl", d6(2), ("int", 6)), d6(3))}
        for k, wv in want.items():
            g = got.get(k)
            if g != wv and not (isinstance(g, tuple) and g[0] == "binop" and g[1] == "BitOr" and (g[3], g[2]) == (wv[2], wv[3])):
                probs.append(f"dst[{k[1]}] = {fmt_n(g)[:120] if g else None}, expected {fmt_n(wv)[:120]}")
        if set(got) != set(want):
            probs.append(f"bytes written {sorted(k[1] for k in got)} != [0,1,2]")
    ctx.add("R09.4", "C09/b64/decode_3bytes", not probs, "; ".join(probs), site_of(f) if f else None)
    f, ret, outs = summary(ctx, "base64::encode_3bytes")
    probs = []
    if outs is None:
        probs.append("anchor missing or not straight-line")
    else:
        def B(op, a, b): return ("binop", op, a, b)
        def b(i): return ("cast", "IntToInt", ("index", ("in", "src"), ("int", i)), "i16")
        def e6(x): return ("call", "base64::encode_6bits", (x,))
        want = {("int", 0): e6(B("Shr", b(0), ("int", 2))),
                ("int", 1): e6(B("BitAnd", B("BitOr", B("Shl", b(0), ("int", 4)), B("Shr", b(1), ("int", 4))), ("int", 63))),
                ("int", 2): e6(B("BitAnd", B("BitOr", B("Shl", b(1), ("int", 2)), B("Shr", b(2), ("int", 6))), ("int", 63))),
                ("int", 3): e6(B("BitAnd", b(2), ("int", 63)))}
        got = {}
        t = outs.get("dst")
        while isinstance(t, tuple) and t and t[0] == "SETBYTE":
            got.setdefault(t[2], t[3])
            t = t[1]
        for k, wv in want.items():
            if got.get(k) != wv:
                probs.append(f"dst[{k[1]}] = {fmt_n(got.get(k))[:140] if got.get(k) else None}, expected {fmt_n(wv)[:140]}")
        if set(got) != set(want):
            probs.append(f"bytes written {sorted(k[1] for k in got)} != [0,1,2,3]")
    ctx.add("R09.4", "C09/b64/encode_3bytes", not probs, "; ".join(probs), site_of(f) if f else None)

def callee_path(t):
    return (t.get("callee") or {}).get("path")

def check_decode_inner(ctx):
    core = ctx.crates["paseto_core"]
    f = core.fns.get("base64::decode_inner")
    probs = []
    if f is None:
        ctx.add("R09.3", "C09/b64/decode_inner", False, "anchor missing")
        return
    body = f["body"]
    dom, pred = cfg.dominators(body)
    lps = cfg.loops(body)
    # the accumulator: the local that receives `x = BitOr(x, y)` assignments
    updates = []      # (block, local, rhs operand description)
    for bi, b in enumerate(body["blocks"]):
        if bi not in dom:
            continue
        for st in b["stmts"]:
            if st["k"] == "assign" and st["rv"]["k"] == "binop" and st["rv"]["op"] == "BitOr" and not st["place"]["p"]:
                a = st["rv"]["a"].get("copy") or st["rv"]["a"].get("move")
                if a and a["l"] == st["place"]["l"] and not a["p"]:
                    updates.append((bi, st["place"]["l"]))
    accs = {l for _, l in updates}
    if len(accs) != 1:
        ctx.add("R09.3", "C09/b64/decode_inner", False, f"expected one error accumulator updated by `|=`, found {len(accs)}", site_of(f))
        return
    acc = accs.pop()
    # final test: a switch whose discriminant is Eq(acc, 0) (or acc itself), one arm reaching validate_last_block
    vlb_blocks = [bi for bi, b in enumerate(body["blocks"]) if b["term"]["k"] == "call" and callee_path(b["term"]) == "base64::validate_last_block" and bi in dom]
    if len(vlb_blocks) != 1:
        probs.append(f"validate_last_block is called at {len(vlb_blocks)} sites in decode_inner, expected 1")
    test_blocks = []
    for bi, b in enumerate(body["blocks"]):
        if bi not in dom or b["term"]["k"] != "switch":
            continue
        d = b["term"]["discr"]
        dl = (d.get("copy") or d.get("move") or {}).get("l")
        # find definition of the discriminant in this block: Eq(acc, 0)
        for st in b["stmts"]:
            if st["k"] == "assign" and st["place"]["l"] == dl and st["rv"]["k"] == "binop" and st["rv"]["op"] in ("Eq", "Ne"):
                a = st["rv"]["a"].get("copy") or st["rv"]["a"].get("move")
                c = st["rv"]["b"].get("const")
                al = a["l"] if a else None
                # one-step copy of the accumulator inside the block
                for st2 in b["stmts"]:
                    if st2["k"] == "assign" and st2["place"]["l"] == al and not st2["place"]["p"] and st2["rv"]["k"] == "use":
                        o = st2["rv"]["op"].get("copy") or st2["rv"]["op"].get("move")
                        if o and o["l"] == acc and not o["p"]:
                            al = acc
                if al == acc and c and (c.get("val") or {}).get("int") == 0:
                    test_blocks.append((bi, st["rv"]["op"]))
        if dl == acc:
            test_blocks.append((bi, "raw"))
    if len(test_blocks) != 1:
        probs.append(f"expected exactly one `err == 0` test, found {len(test_blocks)}")
    else:
        tb, op = test_blocks[0]
        in_loop = set().union(*lps.values()) if lps else set()
        n_loop = n_straight = 0
        for bi, _ in updates:
            if bi in in_loop:
                n_loop += 1
                # loop header must dominate the test
                hdrs = [h for h, blk in lps.items() if bi in blk]
                if not all(cfg.dominates(dom, h, tb) for h in hdrs):
                    probs.append("a loop accumulating chunk verdicts does not dominate the final test")
            else:
                n_straight += 1
                if not cfg.dominates(dom, bi, tb):
                    probs.append(f"an `err |= ...` update (bb{bi}) is conditional: it does not dominate the final `err == 0` test")
        if n_loop < 1:
            probs.append("no per-chunk accumulation inside the decoding loop")
        if n_straight < 2:
            probs.append(f"only {n_straight} unconditional accumulations after the loop (expected the impossible-length test and the tail chunk)")
        # the Ok side: validate_last_block dominated by the test, and every Ok return dominated by it
        if vlb_blocks:
            vb = vlb_blocks[0]
            if not cfg.dominates(dom, tb, vb):
                probs.append("validate_last_block is not guarded by the `err == 0` test")
            for bi, b in enumerate(body["blocks"]):
                if bi in dom:
                    for st in b["stmts"]:
                        if st["k"] == "assign" and st["place"]["l"] == 0 and st["rv"]["k"] == "agg" and st["rv"]["ak"].get("vname") == "Ok":
                            if not cfg.dominates(dom, vb, bi):
                                probs.append("an Ok exit is not dominated by validate_last_block")
    # accumulated operands: decode_3bytes results and the length test
    it = Interp(ctx.world, inline=False)
    res = it.run(f)
    nm = Norm()
    seen_len_test = False
    seen_tail = False
    for r in res:
        for e in r.path.events:
            if e["kind"] == "call" and e["name"] == "base64::decode_3bytes":
                seen_tail = True
        for k, v in r.path.store.items():
            pass
    txt = ""
    for r in res:
        if r.kind == "return":
            for g in r.path.guards:
                c = nm.n(g["cond"])
                s = repr(c)
                if "Eq" in s or "Ne" in s:
                    txt = s
    # impossible length: the accumulated term must mention `len(src_rem) >= 2` or is_empty
    src_txt = " ".join(repr(nm.n(g["cond"])) for r in res for g in r.path.guards)
    if "is_empty" not in src_txt or "Ge" not in src_txt and "Lt" not in src_txt:
        probs.append("the remainder-length test (empty or >= 2 characters) is not part of the function")
    ctx.add("R09.3", "C09/b64/decode_inner", not probs, "; ".join(sorted(set(probs))), site_of(f),
            {"accumulator": acc, "updates": [b for b, _ in updates]})

def check_lengths(ctx):
    """decode / decode_vec size their output with decoded_len(src.len()); decoded_len = 3k + 3l/4 (k = n/4, l = n - 4k)."""
    core = ctx.crates["paseto_core"]
    for name in ("base64::decode_vec", "base64::decode"):
        f = core.fns.get(name)
        probs = []
        if f is None:
            probs.append("anchor missing")
        else:
            it = Interp(ctx.world, inline=False)
            res = it.run(f)
            nm = Norm()
            oks = [r for r in res if r.kind == "return" and r.okness is not False]
            if not oks:
                probs.append("no success path")
            for r in oks:
                calls = [e for e in r.path.events if e["kind"] == "call"]
                dl = [e for e in calls if e["name"] == "base64::decoded_len"]
                di = [e for e in calls if e["name"] == "base64::decode_inner"]
                if len(dl) != 1 or len(di) != 1:
                    probs.append("does not call decoded_len and decode_inner exactly once")
                    continue
                if nm.n(dl[0]["vals"][0]) != ("len", ("in", "src")):
                    probs.append("decoded_len is not applied to the input length")
                if nm.n(di[0]["vals"][0]) != ("in", "src"):
                    probs.append("decode_inner does not receive the whole input string")
                took = any("decode_inner" in repr(nm.n(g["cond"])) and g["value"] == 0 for g in r.path.guards)
                # or the function returns decode_inner's Result itself through Ok-preserving plumbing (map / map_err)
                root = peel(r.ret)
                if isinstance(root, tuple) and root and root[0] in ("call", "fallible") and "decode_inner" in repr(root[:2] if root[0] == "call" else root[2]):
                    took = True
                if not took:
                    probs.append("success does not depend on decode_inner's verdict")
                if name == "base64::decode":
                    # the slice returned must be the `..decoded_len` prefix that was decoded into, not the caller's whole buffer
                    okv = it.okv(None, r.path, r.ret)
                    s = repr(okv)
                    if not (isinstance(okv, tuple) and okv[0] == "ptr" and "get_mut" in s and "RangeTo" in s and "decoded_len" in s):
                        probs.append("decode() does not return the `..decoded_len(src.len())` prefix of the destination: " + fmt_n(nm.n(okv))[:160])
                else:
                    okv = nm.n(it.argval(r.path, it.okv(None, r.path, r.ret)))
                    if "decoded_len" not in repr(okv):
                        probs.append("decode_vec() does not return a buffer of decoded_len(src.len()) bytes: " + fmt_n(okv)[:160])
        ctx.add("R09.3", f"C09/b64/{name.split('::')[1]}", not probs, "; ".join(sorted(set(probs))), site_of(f) if f else None)
    f = core.fns.get("base64::decoded_len")
    probs = []
    if f is None:
        probs.append("anchor missing")
    else:
        it = Interp(ctx.world, inline=False)
        res = [r for r in it.run(f) if r.kind == "return"]
        nm = Norm()
        if len(res) != 1:
            probs.append("not straight-line")
        else:
            n = ("in", "input_len")
            def B(op, a, b): return ("binop", op, a, b)
            k = B("Div", n, ("int", 4))
            l = B("Sub", n, B("Mul", ("int", 4), k))
            want = B("Add", B("Mul", ("int", 3), k), B("Div", B("Mul", ("int", 3), l), ("int", 4)))
            got = nm.n(res[0].ret)
            if got != want:
                probs.append(f"decoded_len computes {fmt_n(got)[:200]}, expected 3*(n/4) + 3*(n - 4*(n/4))/4")
    ctx.add("R09.3", "C09/b64/decoded_len", not probs, "; ".join(probs), site_of(f) if f else None)

def check_encoder(ctx):
    """R09.7: shape of the encoder. write_to_fmt cuts the WHOLE input once with as_chunks::<3>, encodes every full chunk with
    encode_3bytes in one forward loop and the remainder with encode_last, writing each result; nothing else slices or re-chunks
    the input (a second blocking whose size is not a multiple of 3 would emit partial groups mid-string). encode_last maps a
    remainder of 0/1/2/(>=3) bytes to 0/2/3/4 output characters of encode_3bytes applied to the zero-padded bytes."""
    from origins import Origins
    from interp import peel, Interp
    import cfg
    cr = ctx.crates["paseto_core"]
    f = cr.fns.get("base64::write_to_fmt")
    probs = []
    if f is None:
        ctx.add("R09.7", "C09/b64/write_to_fmt", False, "anchor missing")
    else:
        og = Origins(f)
        allowed = {"as_chunks", "into_iter", "next", "encode_3bytes", "encode_last", "from_utf8_unchecked", "write_str", "branch", "from_residual"}
        calls = [(bi, b["term"]) for bi, b in enumerate(f["body"]["blocks"]) if not b.get("cleanup") and b["term"]["k"] == "call" and b["term"].get("callee") and "path" in b["term"]["callee"]]
        extra = sorted({t["callee"]["path"] for _, t in calls if t["callee"]["path"].rsplit("::", 1)[-1] not in allowed})
        if extra:
            probs.append(f"calls outside the one-pass encoder shape: {extra}")
        ac = [(bi, t) for bi, t in calls if t["callee"]["path"].endswith("::as_chunks") and "::<3>" in t["callee"].get("full", "")]
        if len(ac) != 1:
            probs.append(f"expected exactly one as_chunks::<3>() call, found {len(ac)}")
        else:
            o = repr(og.operand(ac[0][1]["args"][0], 0))
            if "('arg', 1, 'bytes')" not in o or "call" in o:
                probs.append("as_chunks::<3>() is not applied to the whole input: " + o[:160])
        lps = cfg.loops(f["body"])
        if len(lps) != 1:
            probs.append(f"expected one loop over the chunks, found {len(lps)}")
        inloop = set().union(*lps.values()) if lps else set()
        e3 = [(bi, t) for bi, t in calls if t["callee"]["path"] == "base64::encode_3bytes"]
        el = [(bi, t) for bi, t in calls if t["callee"]["path"] == "base64::encode_last"]
        if len(e3) != 1 or e3[0][0] not in inloop:
            probs.append("encode_3bytes is not called exactly once, inside the chunk loop")
        elif "as_chunks" not in repr(og.operand(e3[0][1]["args"][0], 0)) or "'next'" not in repr(og.operand(e3[0][1]["args"][0], 0)).replace("Iterator::next", "'next'"):
            probs.append("encode_3bytes does not receive the chunks of as_chunks in iteration order")
        if len(el) != 1 or el[0][0] in inloop:
            probs.append("encode_last is not called exactly once, after the loop")
        else:
            o = repr(og.operand(el[0][1]["args"][0], 0))
            if not ("as_chunks" in o and "('field'," in o and ", 1)" in o):
                probs.append("encode_last does not receive the remainder of as_chunks: " + o[:160])
        ws = [(bi, t) for bi, t in calls if t["callee"]["path"].endswith("Formatter::<'_>::write_str") or t["callee"]["path"].endswith("::write_str")]
        if len(ws) != 2 or sum(1 for bi, _ in ws if bi in inloop) != 1:
            probs.append(f"expected one write per chunk inside the loop and one for the remainder, found {len(ws)} write_str calls")
        ctx.add("R09.7", "C09/b64/write_to_fmt", not probs, "; ".join(probs), site_of(f))
    g = cr.fns.get("base64::encode_last")
    probs = []
    if g is None:
        ctx.add("R09.7", "C09/b64/encode_last", False, "anchor missing")
        return
    from norm import Norm
    nm = Norm()
    want = {0: 0, 1: 2, 2: 3, 3: 4}
    seen = set()
    for r in Interp(ctx.world, inline=False).run(g):
        if r.kind != "return":
            probs.append(f"non-returning path ({r.kind})")
            continue
        cls = None
        for gd in r.path.guards:
            c = nm.n(gd["cond"])
            if isinstance(c, tuple) and c[0] == "binop" and c[2] == ("len", ("in", "bytes")) and c[3][0] == "int" and gd["value"] == 1:
                cls = c[3][1] if c[1] == "Eq" else (3 if c[1] == "Ge" and c[3][1] == 3 else None)
        ret = nm.n(r.ret)
        m = re.search(r"\$dst\[0\.\.(\d+)\]", fmt_n(ret))
        outlen = int(m.group(1)) if m else None
        e3 = [e for e in r.path.events if e["kind"] == "call" and e["name"] == "base64::encode_3bytes"]
        if cls is None or outlen is None or len(e3) != 1:
            probs.append(f"path not understood (remainder class {cls}, output {fmt_n(ret)[:60]})")
            continue
        seen.add(cls)
        if want.get(cls) != outlen:
            probs.append(f"a remainder of {cls}{'+' if cls == 3 else ''} byte(s) yields {outlen} characters, expected {want.get(cls)}")
        arg = fmt_n(nm.n(e3[0]["vals"][0]))
        exp = {0: "(zeros 3)", 1: "array{(index $bytes 0), 0, 0}", 2: "array{(index $bytes 0), (index $bytes 1), 0}", 3: "array{(index $bytes 0), (index $bytes 1), (index $bytes 2)}"}[cls]
        if arg != exp:
            probs.append(f"remainder of {cls} byte(s) is encoded from {arg}, expected {exp}")
    if seen != {0, 1, 2, 3}:
        probs.append(f"remainder classes covered: {sorted(seen)}")
    ctx.add("R09.7", "C09/b64/encode_last", not probs, "; ".join(sorted(set(probs))), site_of(g))

def run(ctx):
    check_encoder(ctx)
    check_decode6(ctx)
    check_encode6(ctx)
    check_3bytes(ctx)
    check_decode_inner(ctx)
    check_lengths(ctx)
