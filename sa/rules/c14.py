"""C14 — registered claims and JSON payloads: writer/reader table agreement and transparency of the Json<T> wrappers."""
from ops import *
from norm import fn as fmt_n
from runner import site_of
from termutil import *
from origins import Origins
from facts import short
import cfg

EXPLANATION = (
    "Writer/reader table agreement, decided on the resolved program. Writer: in Serialize for RegisteredClaims every "
    "serialize_field(name, &x) call has a constant member name, x is the payload of exactly one struct field and the call is "
    "guarded by that same field being Some (nothing is emitted for None). Reader: the member-name -> enum-variant table is "
    "reconstructed from the byte-trie the `match` in visit_bytes compiles to (all MIR paths), visit_str delegates to visit_bytes, "
    "unknown names map to Ignored; in visit_map each variant's arm assigns next_value() to one local, tests that same local for a "
    "duplicate (reporting the same member name) and the final aggregate places each local in one struct field. The two tables "
    "must be the same bijection between 7 member names and the 7 fields. Json<T> payload/footer wrappers: encode is "
    "serde_json::to_writer(Writer(w), &self.0), decode is serde_json::from_slice (footer: empty input is an error) with results "
    "passed through unchanged. Does NOT decide RFC 3339 / nanosecond fidelity of timestamps (jiff), string escaping and number "
    "handling (serde_json), or null-vs-absent — most of the statement; the claim is limited to table agreement and wrapper transparency.")
ASSUMPTIONS = ["rustc type checking / MIR construction are correct", "serde_json and jiff implement JSON / RFC 3339 faithfully", "serde's derive-free visitor protocol (next_key/next_value) behaves as documented"]
FLOORS = {"R14.1": 1, "R14.2": 2, "R14.3": 1, "R14.4": 6, "R14.5": 1, "R14.6": 1, "R14.8": 1}

def strip_refs(t):
    while isinstance(t, tuple) and t and t[0] in ("ref", "deref"):
        t = t[1]
    return t

def writer_table(ctx):
    cr = ctx.crates["paseto_json"]
    f = cr.fns.get("claims_impls::<impl serde_core::ser::Serialize for RegisteredClaims>::serialize")
    if f is None:
        return None, None, ["anchor missing: Serialize for RegisteredClaims"]
    og = Origins(f)
    dom, _ = cfg.dominators(f["body"])
    probs = []
    table = {}
    sites = og.call_sites(lambda ce: ce["path"] == "serde_core::ser::SerializeStruct::serialize_field")
    for bi, t in sites:
        name = og.operand(t["args"][1], 0)
        val = strip_refs(og.operand(t["args"][2], 0))
        nm = name[1].decode() if isinstance(name, tuple) and name[0] == "bytes" else None
        if nm is None:
            probs.append(f"serialize_field with a non-constant member name: {name}")
            continue
        # value = ((self.i) as Some).0
        ok = (isinstance(val, tuple) and val[0] == "field" and val[2] == 0 and isinstance(val[1], tuple) and val[1][0] == "variant" and val[1][2] == "Some")
        fld = strip_refs(val[1][1]) if ok else None
        if not (ok and isinstance(fld, tuple) and fld[0] == "field" and strip_refs(fld[1]) == ("arg", 1, "self")):
            probs.append(f"member {nm!r} is not written from the payload of a field of self: {repr(val)[:200]}")
            continue
        idx = fld[2]
        if nm in table:
            probs.append(f"member {nm!r} written twice")
        table[nm] = idx
        # guard: a switch on discriminant(self.idx) dominating the call with the Some arm
        guarded = False
        for sb, b in enumerate(f["body"]["blocks"]):
            if sb in dom and b["term"]["k"] == "switch" and cfg.dominates(dom, sb, bi) and sb != bi:
                d = og.operand(b["term"]["discr"], 0)
                if isinstance(d, tuple) and d[0] == "discr":
                    g = strip_refs(d[1])
                    if isinstance(g, tuple) and g[0] == "field" and g[2] == idx and strip_refs(g[1]) == ("arg", 1, "self"):
                        arms = {v: tg for v, tg in b["term"]["arms"]}
                        some_t = arms.get(1)
                        if some_t is not None and cfg.dominates(dom, some_t, bi):
                            guarded = True
        if not guarded:
            probs.append(f"member {nm!r} is not guarded by `self.<field {idx}>` being Some")
    return f, table, probs

def _member_local(f, op):
    """The named local variable whose value the operand moves (through compiler temporaries): the per-member accumulator."""
    pl = op.get("move") or op.get("copy")
    seen = 0
    while pl is not None and not pl["p"] and seen < 6:
        l = pl["l"]
        if f["body"]["locals"][l].get("name"):
            return l
        defs = [st for b in f["body"]["blocks"] for st in b["stmts"] if st["k"] == "assign" and st["place"]["l"] == l and not st["place"]["p"]]
        if len(defs) != 1 or defs[0]["rv"]["k"] != "use":
            return None
        o2 = defs[0]["rv"]["op"]
        pl = o2.get("move") or o2.get("copy")
        seen += 1
    return None

def reader_tables(ctx):
    w = ctx.world
    cr = ctx.crates["paseto_json"]
    probs = []
    vb = cr.fns.get("<claims_impls::RegisteredClaimFieldVisitor as serde_core::de::Visitor<'de>>::visit_bytes")
    vs = cr.fns.get("<claims_impls::RegisteredClaimFieldVisitor as serde_core::de::Visitor<'de>>::visit_str")
    vm = cr.fns.get("<claims_impls::RegisteredClaimsVisitor as serde_core::de::Visitor<'de>>::visit_map")
    if vb is None or vs is None or vm is None:
        return None, None, None, ["anchor missing: RegisteredClaimFieldVisitor::visit_bytes / visit_str / RegisteredClaimsVisitor::visit_map"]
    # name -> variant from the byte trie
    run = Run(w, vb)
    name2var = {}
    for r in run.results:
        if r.kind != "return":
            probs.append(f"visit_bytes: non-returning path {r.kind}")
            continue
        ret = run.norm.n(r.ret)
        var = ret[2][0][1].rsplit("::", 1)[-1] if (isinstance(ret, tuple) and ret[0] == "agg" and ret[1].endswith("Result::Ok") and ret[2] and isinstance(ret[2][0], tuple)) else None
        if var is None:
            probs.append("visit_bytes path does not return Ok(variant): " + fmt_n(ret)[:100])
            continue
        length = None
        bytes_ = {}
        exact = True
        for g in r.path.guards:
            c = run.norm.n(g["cond"])
            if isinstance(c, tuple) and c[0] == "binop" and c[1] == "Eq" and c[2] == ("len", ("in", "v")) and c[3][0] == "int":
                if g["value"] == 0:
                    exact = False
                else:
                    length = c[3][1]
            elif isinstance(c, tuple) and c[0] == "index" and c[1] == ("in", "v") and c[2][0] == "int":
                if isinstance(g["value"], int):
                    bytes_[c[2][1]] = g["value"]
                else:
                    exact = False
            elif isinstance(c, tuple) and c[0] == "len":
                if isinstance(g["value"], int):
                    length = g["value"]
                else:
                    exact = False
            else:
                probs.append("visit_bytes branches on something other than the name's length/bytes: " + fmt_n(c)[:120])
        if exact and length is not None and sorted(bytes_) == list(range(length)):
            nm = bytes(bytes_[i] for i in range(length)).decode("utf-8", "replace")
            if var == "Ignored":
                probs.append(f"known-looking name {nm!r} maps to Ignored")
            elif nm in name2var:
                probs.append(f"name {nm!r} matched twice")
            else:
                name2var[nm] = var
        else:
            if var != "Ignored":
                probs.append(f"a name that is not fully matched maps to {var} (prefix / wildcard match)")
    # visit_str delegates
    r2 = Run(w, vs, inline=False)
    evs = [e for x in r2.results for e in x.path.events if e["kind"] == "call"]
    if not (len(r2.results) == 1 and any(e["name"].endswith("visit_bytes::<E>") or "visit_bytes" in e["name"] for e in evs)):
        probs.append("visit_str does not delegate to visit_bytes")
    # variant -> local -> field in visit_map
    enum = cr.adts.get("claims_impls::RegisteredClaimField")
    variants = [v["name"] for v in enum["variants"]] if enum else []
    og = Origins(vm)
    agg_fields = None
    for b in vm["body"]["blocks"]:
        for st in b["stmts"]:
            if st["k"] == "assign" and st["rv"]["k"] == "agg" and st["rv"]["ak"].get("path", "").endswith("RegisteredClaims") and st["rv"]["ak"].get("a") == "adt":
                agg_fields = [_member_local(vm, o) for o in st["rv"]["ops"]]
    if not agg_fields or any(x is None for x in agg_fields):
        probs.append("final RegisteredClaims aggregate is not built from the per-member locals")
        return name2var, {}, None, probs
    local2field = {l: i for i, l in enumerate(agg_fields)}
    if len(local2field) != len(agg_fields):
        probs.append("two struct fields are filled from the same local")
    it = Interp(w, inline=True)        # private helpers that fill a member through `&mut Option<T>` are followed
    res = it.run(vm)
    nm = Norm()
    root_frame = min(k[1] for r in res for k in r.path.store if k[0] == "L")
    var2local = {}
    dupnames = {}
    valty = {}
    for r in res:
        var = None
        for g in r.path.guards:
            c = g["cond"]
            if isinstance(c, tuple) and c[0] == "discr" and "next_key" in repr(c)[:3000] and not isinstance(g["value"], int) and g.get("arms") and len(g["arms"]) >= 6:
                others = sorted(set(range(len(variants))) - {a for a in g["arms"] if isinstance(a, int)})
                if len(others) == 1:
                    var = variants[others[0]]
            if isinstance(c, tuple) and c[0] == "discr" and "next_key" in repr(c)[:3000] and "Validate" not in repr(c)[:10] and isinstance(g["value"], int):
                cn = nm.n(c)
                # discriminant of the key itself (okv of okv of next_key): variant index
                if repr(cn).count("ok") >= 1 and not repr(cn).startswith("('discr', ('call'"):
                    if g["value"] < len(variants) and "MapAccess" in repr(cn) and g["arms"] and len(g["arms"]) >= 6:
                        var = variants[g["value"]]
        if var is None:
            continue
        assigned = [k[2] for k, v in r.path.store.items() if k[0] == "L" and k[1] == root_frame and k[2] in local2field and "next_value" in repr(v)]
        nv = [e["name"] for e in r.path.events if e["kind"] == "call" and "::next_value::<" in e["name"]]
        if r.kind == "loop" and nv:
            valty.setdefault(var, set()).add(nv[-1].split("::next_value::<", 1)[1][:-1])
        if r.kind == "loop" and var == "Ignored":
            if assigned:
                probs.append("an unknown member's value is stored into a member local")
        elif r.kind == "loop":
            if len(assigned) != 1:
                probs.append(f"arm {var}: next_value() is stored into {len(assigned)} member locals")
            else:
                var2local.setdefault(var, set()).add(assigned[0])
        dups = [e for e in r.path.events if e["kind"] == "call" and e["name"].endswith("Error>::duplicate_field")]
        if dups:
            name = nm.n(dups[0]["vals"][0])
            tested = [e["args"][0][1][2] for e in r.path.events if e["kind"] == "call" and e["name"].endswith("is_some") and isinstance(e["args"][0], tuple) and e["args"][0][0] == "ptr" and e["args"][0][1][0] == "L"]
            dupnames[var] = (name[1].decode() if isinstance(name, tuple) and name[0] == "b" else None, tested[-1] if tested else None)
    return name2var, {"var2local": var2local, "local2field": local2field, "dup": dupnames, "valty": valty}, vm, probs

def run(ctx):
    w = ctx.world
    cr = ctx.crates["paseto_json"]
    adt = cr.adts.get("RegisteredClaims")
    fields = [f["name"] for f in adt["variants"][0]["fields"]] if adt else []
    fw, wt, pw = writer_table(ctx)
    ctx.add("R14.1", "C14/writer-table", not pw and wt is not None and len(wt) == len(fields),
            "; ".join(pw) if pw else (f"writer emits {len(wt or {})} members for {len(fields)} fields" if wt is not None and len(wt) != len(fields) else ""),
            site_of(fw) if fw else None, {"table": wt})
    # R14.6: the member-count hint given to serialize_struct. serde_json writes "{}" at once when the hint is 0 and "{"
    # otherwise, so the hint must be non-zero whenever a member is written: a constant >= 1, or a value computed from EVERY field.
    p6 = []
    if fw is not None:
        og6 = Origins(fw)
        ss = og6.call_sites(lambda ce: ce["path"].endswith("Serializer::serialize_struct"))
        if len(ss) != 1:
            p6.append(f"{len(ss)} serialize_struct calls")
        for bi, t in ss:
            o = og6.operand(t["args"][2], 0)
            if isinstance(o, tuple) and o and o[0] == "int":
                if o[1] < 1:
                    p6.append("constant member count 0: serde_json would close the object before the members")
            else:
                import re as _re
                deps = set(int(x) for x in _re.findall(r"\('field', \('deref', \('arg', 1, 'self'\)\), (\d+)\)", repr(o)))
                missing = [fields[i] for i in range(len(fields)) if i not in deps]
                if missing:
                    p6.append(f"the member count passed to serialize_struct is computed without looking at {missing}: when only those are present it is 0 and serde_json emits `{{}}` before the members")
    else:
        p6.append("anchor missing")
    ctx.add("R14.6", "C14/struct-length-hint", not p6, "; ".join(p6), site_of(fw) if fw else None)
    # R14.8: the field list handed to deserialize_struct (formats and serde's own flatten machinery route members by it) is
    # exactly the list of member names
    p8 = []
    fd = cr.fns.get("claims_impls::<impl serde_core::de::Deserialize<'de> for RegisteredClaims>::deserialize")
    if fd is None:
        p8.append("anchor missing")
    else:
        import json as _json
        lists = []
        def consts(o):
            if isinstance(o, dict):
                if "const" in o and isinstance(o["const"].get("val"), dict) and "strs" in o["const"]["val"]:
                    lists.append(o["const"]["val"]["strs"])
                for v in o.values():
                    consts(v)
            elif isinstance(o, list):
                for v in o:
                    consts(v)
        consts(fd["body"]["blocks"])
        for pb in fd.get("promoted", []):
            consts(pb.get("blocks", []))
        if not lists:
            p8.append("the field list passed to deserialize_struct is not an evaluable constant list of names")
        for l in lists:
            if sorted(l) != sorted(fields):
                p8.append(f"field list {l} differs from the member names {fields}")
    ctx.add("R14.8", "C14/deserialize-field-list", not p8, "; ".join(p8), site_of(fd) if fd else None)
    n2v, rd, vm, pr = reader_tables(ctx)
    ctx.add("R14.2", "C14/reader-name-table", not [p for p in pr if "visit_bytes" in p or "name" in p or "visit_str" in p or "anchor" in p],
            "; ".join(p for p in pr if "visit_bytes" in p or "name" in p or "visit_str" in p or "anchor" in p), None, {"table": n2v})
    probs = [p for p in pr if not ("visit_bytes" in p or "name" in p or "visit_str" in p or "anchor" in p)]
    reader = {}
    if rd:
        for nm_, var in (n2v or {}).items():
            ls = rd["var2local"].get(var, set())
            if len(ls) != 1:
                probs.append(f"variant {var} (member {nm_!r}) stores into {sorted(ls)}")
                continue
            l = next(iter(ls))
            reader[nm_] = rd["local2field"].get(l)
            d = rd["dup"].get(var)
            if d is None:
                probs.append(f"member {nm_!r}: no duplicate-member check")
            else:
                if d[0] != nm_:
                    probs.append(f"member {nm_!r}: duplicate error reports {d[0]!r}")
                if d[1] != l:
                    probs.append(f"member {nm_!r}: duplicate check tests a different local than the one assigned")
    # R14.5: key and value types the reader asks serde for
    kp = []
    if vm:
        keys = [b["term"]["callee"]["full"] for b in vm["body"]["blocks"] if b["term"]["k"] == "call" and b["term"].get("callee") and b["term"]["callee"]["path"] == "serde_core::de::MapAccess::next_key"]
        kd = cr.fns.get("<claims_impls::RegisteredClaimField as serde_core::de::Deserialize<'de>>::deserialize")
        ident = kd and any(b["term"]["k"] == "call" and b["term"].get("callee") and b["term"]["callee"]["path"] == "serde_core::de::Deserializer::deserialize_identifier" for b in kd["body"]["blocks"])
        if not keys or any(not k.endswith("next_key::<claims_impls::RegisteredClaimField>") for k in keys):
            kp.append(f"member names are not read as RegisteredClaimField (a borrowed &str key cannot represent an escaped name): {keys}")
        if not ident:
            kp.append("RegisteredClaimField::deserialize does not use deserialize_identifier (visit_str/visit_bytes both reachable)")
        for nm_, i in reader.items():
            var = n2v[nm_]
            tys = rd["valty"].get(var, set())
            want_ty = short(cr.ty_s(adt["variants"][0]["fields"][i]["ty"])) if i is not None else None
            if tys != {want_ty}:
                kp.append(f"member {nm_!r} is read as {sorted(tys)} but the field has type {want_ty}")
        ign = rd["valty"].get("Ignored", set())
        if ign != {"IgnoredAny"}:
            kp.append(f"unknown members are consumed as {sorted(ign)}, expected IgnoredAny")
    ctx.add("R14.5", "C14/reader-key-and-value-types", bool(vm) and not kp, "; ".join(kp), site_of(vm) if vm else None)
    ctx.add("R14.2", "C14/reader-field-table", not probs and bool(reader), "; ".join(probs), site_of(vm) if vm else None, {"table": reader})
    # agreement
    pa = []
    if wt is not None and reader:
        if wt != reader:
            pa.append(f"writer table {wt} != reader table {reader}")
        if sorted(wt.values()) != list(range(len(fields))):
            pa.append(f"tables do not cover all {len(fields)} fields exactly once")
        bad = [n for n, i in wt.items() if i < len(fields) and fields[i] != n]
        if bad:
            pa.append(f"member names differ from field names for {bad}")
    else:
        pa.append("tables missing")
    ctx.add("R14.3", "C14/tables-agree", not pa, "; ".join(pa))
    if not pa:
        ctx.sample({"members": wt})
    # Json<T> wrappers and RegisteredClaims payload
    want = {"<Json<M> as paseto_core::encodings::Payload>::encode": ("serde_json::ser::to_writer", 0), "<Json<T> as paseto_core::encodings::Footer>::encode": ("serde_json::ser::to_writer", 0),
            "<Json<M> as paseto_core::encodings::Payload>::decode": ("serde_json::de::from_slice", None), "<Json<T> as paseto_core::encodings::Footer>::decode": ("serde_json::de::from_slice", None),
            "claims_impls::<impl paseto_core::encodings::Payload for RegisteredClaims>::encode": ("serde_json::ser::to_writer", None),
            "claims_impls::<impl paseto_core::encodings::Payload for RegisteredClaims>::decode": ("serde_json::de::from_slice", None)}
    for k, (callee, fld) in want.items():
        f = cr.fns.get(k)
        probs = []
        if f is None:
            probs.append("anchor missing")
        else:
            r = Run(w, f, inline=False)
            rets = [x for x in r.results if x.kind == "return"]
            calls = [[e for e in x.path.events if e["kind"] == "call" and (e.get("path") or "").startswith("serde_json::")] for x in rets]
            with_call = [(x, c) for x, c in zip(rets, calls) if c]
            if not with_call:
                probs.append(f"no call to {callee}")
            for x, c in with_call:
                if len(c) != 1 or c[0]["path"] != callee:
                    probs.append(f"calls {[e['path'] for e in c]}, expected exactly {callee}")
                    continue
                vals = [r.norm.n(v) for v in c[0]["vals"]]
                if callee.endswith("to_writer"):
                    if not (isinstance(vals[0], tuple) and vals[0][0] == "agg" and vals[0][1].endswith("Writer") and vals[0][2] == (("in", "writer"),)):
                        probs.append("writer argument is not Writer(writer): " + fmt_n(vals[0])[:100])
                    wantv = ("fld", ("in", "self"), 0) if fld == 0 else ("in", "self")
                    if vals[1] != wantv:
                        probs.append("serialised value is not the wrapped value itself: " + fmt_n(vals[1])[:100])
                else:
                    pname = f["body"]["locals"][1].get("name")
                    if vals[0] != ("in", pname):
                        probs.append("from_slice does not receive the whole input: " + fmt_n(vals[0])[:100])
                from interp import peel
                mod_ = callee.rsplit("::", 1)[0]
                def is_call(t_):
                    t_ = peel(t_)
                    return isinstance(t_, tuple) and t_ and t_[0] == "call" and t_[1].startswith(mod_)
                if is_call(x.ret):
                    continue          # serde_json's own Result, through Ok/Err-preserving plumbing
                # or written out: branch on serde_json's verdict, Ok(wrapper(its Ok value)) / Ok(()) on its Ok edge, Err on its Err edge
                gd = [g for g in x.path.guards if isinstance(g["cond"], tuple) and g["cond"][0] == "discr" and is_call(g["cond"][1])]
                if not gd:
                    probs.append("result is not serde_json's result passed through")
                    continue
                took_ok = gd[-1]["value"] == 0
                if x.okness is None or (x.okness is True) != took_ok:
                    probs.append("result is not serde_json's verdict: " + ("Ok returned on its Err edge" if x.okness else "Err returned on its Ok edge"))
                    continue
                if x.okness is True:
                    pay = r.interp.okv(None, x.path, x.ret)
                    if callee.endswith("to_writer"):
                        if pay != ("agg", "tuple", ()):
                            probs.append("encode does not return Ok(()) on serde_json's Ok edge")
                    else:
                        inner = pay[2][0] if (isinstance(pay, tuple) and pay[0] == "agg" and pay[1].startswith("adt:") and len(pay[2]) == 1) else pay
                        if not (isinstance(inner, tuple) and inner and inner[0] in ("okv", "ok") and is_call(inner[1])):
                            probs.append("decoded value is not serde_json's Ok value (wrapped): " + fmt_n(r.norm.n(pay))[:120])
                else:
                    ev_ = r.interp.errv(x.path, x.ret)
                    if not subterms(ev_, lambda q: q and q[0] == "errv" and is_call(q[1])):
                        probs.append("the error returned is not derived from serde_json's error")
            if "Footer>::decode" in k:
                # empty footer -> Err
                emp = [x for x in rets if x.okness is False and not [e for e in x.path.events if e["kind"] == "call" and (e.get("path") or "").startswith("serde_json::")]]
                if not emp:
                    probs.append("an empty footer is not rejected")
        ctx.add("R14.4", "C14/json-wrapper/" + ("RegisteredClaims" if "RegisteredClaims" in k else k.split(" as ")[0].lstrip("<")) + "/" + k.rsplit("::", 1)[1] + ("/footer" if "Footer" in k else "/payload"), not probs, "; ".join(sorted(set(probs))), site_of(f) if f else None)


# ---- R14.7: serde_json is used as configured by default — no workspace manifest turns on a feature that changes how numbers or
# nesting decode (shared manifest scan of C02)
_run_c14 = run
def run(ctx):
    _run_c14(ctx)
    import c02
    c02.check_manifest_features(ctx, c02.DENY_JSON, "R14.7", "C14/manifest-features")
FLOORS["R14.7"] = 1
