"""C13 — key ids are the spec's hash of the key's PASERK text, stable and domain-separated."""
from ops import *
from norm import fn as fmt_n
from runner import site_of
from termutil import *
import spec

EXPLANATION = (
    "R13.1 T-SPEC/T-SIB: the 6 IdVersion::hash_key bodies, evaluated into symbolic terms, equal the specification "
    "(H(paserk version literal || id header || key text), SHA-384 truncated to the first 33 bytes for k1/k3, BLAKE2b with 33-byte "
    "output for k2/k4) and the two v3 / two v4 backends agree. R13.2 plumbing: KeyId::from(&KeyText) hashes exactly "
    "K::ID_HEADER and the bytes of the key text's own Display string, and Key::id goes through expose_key() (the canonical "
    "re-encoding, so PEM and DER inputs of one key cannot differ). R13.3: the id text form is a mirror pair and must decode to "
    "exactly 33 bytes (shared with C09, incl. base64::decode returning the decoded prefix only). R13.4: equality, ordering, hashing, "
    "cloning of KeyId (and KeyText) touch only the byte field with the corresponding std operation. R13.5: the id headers "
    ".lid./.pid./.sid. are pairwise distinct. Does not decide the hash functions themselves.")
ASSUMPTIONS = ["rustc type checking / MIR construction are correct", "the specification table sa/spec.py", "library hashes named X compute X"]
FLOORS = {"R13.1": 8, "R13.2": 2, "R13.3": 3, "R13.4": 8, "R13.5": 1, "R13.6": 16}
VERSION_OF = {"v1": "v1", "v2": "v2", "v3": "v3", "v3-aws-lc": "v3", "v4": "v4", "v4-sodium": "v4"}

def run(ctx):
    w = ctx.world
    terms = {}
    for be, cn in BACKENDS.items():
        f = find_impl_fn(w, cn, "::IdVersion", "hash_key")
        key = f"C13/hash_key/{be}"
        if f is None:
            ctx.add("R13.1", key, False, "anchor missing: IdVersion::hash_key")
            continue
        run_ = Run(w, f)
        rets = [r for r in run_.results if r.kind == "return"]
        probs = []
        if len(rets) != 1:
            probs.append(f"{len(rets)} return paths")
        else:
            got = run_.norm.n(run_.interp.argval(rets[0].path, rets[0].ret))
            # strip infallible conversions Vec/GenericArray -> [u8;33]
            g = got
            for _ in range(4):
                if isinstance(g, tuple) and g and g[0] == "ok":
                    g = g[1]
                if isinstance(g, tuple) and g and g[0] == "call" and re.search(r"(TryInto<\[u8; 33\]>>::try_into|Into<\[u8; 33\]>>::into)$", g[1]):
                    g = g[2][0]
                if isinstance(g, tuple) and g and g[0] == "tryarray":
                    g = g[1]
            want = spec.key_id(VERSION_OF[be])
            if g != want:
                probs += spec.diff(g, want)
            terms[be] = g
        ctx.add("R13.1", key, not probs, "; ".join(probs)[:900], site_of(f))
        if not probs:
            ctx.sample({"backend": be, "id": fmt_n(terms[be])})
    for a, b in (("v3", "v3-aws-lc"), ("v4", "v4-sodium")):
        ok = a in terms and b in terms and terms[a] == terms[b]
        ctx.add("R13.1", f"C13/hash_key/sibling/{a}~{b}", ok, "" if ok else "; ".join(spec.diff(terms.get(a), terms.get(b))))
    # ---------------- R13.2 plumbing
    core = ctx.crates["paseto_core"]
    f = core.fns.get("<paserk::id::KeyId<V, K> as core::convert::From<&paserk::plaintext::KeyText<V, K>>>::from")
    probs = []
    if f is None:
        probs.append("anchor missing")
    else:
        r = Run(w, f, inline=False)
        rets = [x for x in r.results if x.kind == "return"]
        v = r.norm.n(r.interp.argval(rets[0].path, rets[0].ret)) if len(rets) == 1 else None
        want = ("agg", "adt:KeyId::KeyId", (("call", "<V as IdVersion>::hash_key", (("aconst", "KeyType::ID_HEADER", "K"),
                 ("call", "<KeyText<V, K> as ToString>::to_string", (("in", "value"),)))), ("agg", "adt:PhantomData::PhantomData", ())))
        if v != want:
            probs.append("KeyId::from(&KeyText) is not hash_key(K::ID_HEADER, text.to_string().as_bytes()): " + fmt_n(v)[:300])
    ctx.add("R13.2", "C13/plumbing/KeyId-from-KeyText", not probs, "; ".join(probs), site_of(f) if f else None)
    f = core.fns.get("key::Key::<V, K>::id")
    probs = []
    if f is None:
        probs.append("anchor missing")
    else:
        r = Run(w, f)
        rets = [x for x in r.results if x.kind == "return"]
        v = r.norm.n(r.interp.argval(rets[0].path, rets[0].ret)) if len(rets) == 1 else None
        enc = ("agg", "adt:KeyText::KeyText", (("call", "<V as HasKey<K>>::encode", (("fld", ("in", "self"), 0),)), ("agg", "adt:PhantomData::PhantomData", ())))
        want = ("agg", "adt:KeyId::KeyId", (("call", "<V as IdVersion>::hash_key", (("aconst", "KeyType::ID_HEADER", "K"),
                 ("call", "<KeyText<V, K> as ToString>::to_string", (enc,)))), ("agg", "adt:PhantomData::PhantomData", ())))
        if v != want:
            probs.append("Key::id is not KeyId::from(&self.expose_key()): " + fmt_n(v)[:300])
    ctx.add("R13.2", "C13/plumbing/Key-id", not probs, "; ".join(probs), site_of(f) if f else None)
    # ---------------- R13.3 shared with C09
    import c09
    class Scratch:
        def __init__(s): s.f = []; s.world = ctx.world; s.crates = ctx.crates; s.analysed = {"functions": 0, "paths": 0, "call_sites": 0}; s.notes = []
        def add(s, rule, k, ok, detail="", site=None, facts=None): s.f.append((rule, k, ok, detail, site))
        def sample(s, x): pass
    sc = Scratch()
    c09.run(sc)
    for rule, k, ok, detail, site in sc.f:
        if k in ("C09/mirror/KeyId", "C09/remainder/KeyId", "C09/keyid-33", "C09/b64/decode"):
            ctx.add("R13.3", "C13/text/" + k.split("/", 1)[1], ok, detail, site)
    # ---------------- R13.6 the id is taken over the canonical re-encoding: that must be the supplied encoding
    import keyrules
    for be, cn in BACKENDS.items():
        for kind in ("Local", "Public", "Secret"):
            if be == "v1" and kind != "Local":
                continue      # DER re-encoding is canonicalising by design (PEM input allowed)
            ok, why, f = keyrules.encode_decode_identity(w, cn, kind)
            ctx.add("R13.6", f"C13/canonical-reencoding/{be}/{kind}", ok, why, site_of(f) if f else None)
    # ---------------- R13.4 comparison impls
    want = {
        "<paserk::id::KeyId<V, K> as core::cmp::PartialEq>::eq": ("call", "core::array::equality::<impl PartialEq for [u8; 33]>::eq", (("fld", ("in", "self"), 0), ("fld", ("in", "other"), 0))),
        "<paserk::id::KeyId<V, K> as core::cmp::Ord>::cmp": ("call", "core::array::<impl Ord for [u8; 33]>::cmp", (("fld", ("in", "self"), 0), ("fld", ("in", "other"), 0))),
        "<paserk::id::KeyId<V, K> as core::cmp::PartialOrd>::partial_cmp": ("agg", "adt:Option::Some", (("call", "core::array::<impl Ord for [u8; 33]>::cmp", (("fld", ("in", "self"), 0), ("fld", ("in", "other"), 0))),)),
        "<paserk::id::KeyId<V, K> as core::clone::Clone>::clone": ("in", "self"),
        "<paserk::plaintext::KeyText<V, K> as core::cmp::PartialEq>::eq": None,
        "<paserk::plaintext::KeyText<V, K> as core::cmp::Ord>::cmp": None,
    }
    for k, wv in want.items():
        f = core.fns.get(k)
        probs = []
        if f is None:
            probs.append("anchor missing")
        else:
            r = Run(w, f)
            rets = [x for x in r.results if x.kind == "return"]
            if len(rets) != 1 or len(r.results) != 1:
                probs.append("not a single straight-line path")
            else:
                raw = rets[0].ret
                if isinstance(raw, tuple) and raw and raw[0] == "call":
                    # comparisons of references compare the referents: look through the pointers
                    raw = ("call", raw[1], tuple(r.interp.argval(rets[0].path, a) for a in raw[2]))
                v = r.norm.n(r.interp.argval(rets[0].path, raw))
                if wv is not None and v != wv:
                    probs.append(f"computes {fmt_n(v)[:200]}, expected {fmt_n(wv)[:200]}")
                if wv is None:
                    # KeyText: a std comparison of the two data fields only
                    okk = (isinstance(v, tuple) and v[0] == "call" and len(v[2]) == 2 and v[2][0] == ("fld", ("in", "self"), 0) and v[2][1] == ("fld", ("in", "other"), 0)
                           and ("PartialEq" in v[1] or "Ord" in v[1]))
                    if not okk:
                        probs.append("not a std comparison of self.data with other.data: " + fmt_n(v)[:200])
        ctx.add("R13.4", "C13/impl/" + k.split(" as ")[0].split("::")[-1].split("<")[0] + "/" + k.rsplit("::", 1)[1], not probs, "; ".join(probs), site_of(f) if f else None)
    for k in ("<paserk::id::KeyId<V, K> as core::hash::Hash>::hash", "<paserk::plaintext::KeyText<V, K> as core::hash::Hash>::hash"):
        f = core.fns.get(k)
        probs = []
        if f is None:
            probs.append("anchor missing")
        else:
            r = Run(w, f, inline=False)
            evs = [e for x in r.results for e in x.path.events if e["kind"] == "call"]
            if len(r.results) != 1 or len(evs) != 1 or "Hash" not in evs[0]["name"]:
                probs.append("not a single std Hash::hash call")
            else:
                a = [r.norm.n(v) for v in evs[0]["vals"]]
                if a[0] != ("fld", ("in", "self"), 0) or a[1] != ("in", "state"):
                    probs.append("hash is not self.<bytes>.hash(state): " + str([fmt_n(x) for x in a]))
        ctx.add("R13.4", "C13/impl/" + k.split(" as ")[0].split("::")[-1].split("<")[0] + "/hash", not probs, "; ".join(probs), site_of(f) if f else None)
    # ---------------- R13.5 distinct id headers
    import c10
    kt = c10.impl_consts(core, "key::KeyType")
    ids = {}
    for k, d in kt.items():
        ids.setdefault(d.get("ID_HEADER"), []).append(k.split("::")[-1])
    probs = []
    groups = sorted(sorted(v) for v in ids.values())
    if groups != [["Local"], ["PkePublic", "Public"], ["PkeSecret", "Secret"]]:
        probs.append(f"id headers group kinds as {groups}; expected local, public(+pke), secret(+pke) to be pairwise distinct")
    if None in ids:
        probs.append("an ID_HEADER could not be evaluated")
    ctx.add("R13.5", "C13/id-headers-distinct", not probs, "; ".join(probs), facts={"headers": {str(k): v for k, v in ids.items()}})
import re

# ---- R13.7 (shared with C09 R09.4 / R09.3): the id text is base64url — the decoder's alphabet and error discipline are the strict ones
_run_c13 = run
def run(ctx):
    _run_c13(ctx)
    import b64rules
    class Scratch:
        def __init__(s): s.findings = []; s.world = ctx.world; s.crates = ctx.crates; s.analysed = {"functions": 0, "paths": 0, "call_sites": 0}; s.notes = []; s.tier = ctx.tier; s.facts_dir = ctx.facts_dir
        def add(s, rule, k, ok, detail="", site=None, facts=None): s.findings.append((rule, k, ok, detail, site))
        def sample(s, x): pass
    sc = Scratch()
    b64rules.run(sc)
    for (rule, k, ok, detail, site) in sc.findings:
        if rule in ("R09.3", "R09.4"):
            ctx.add("R13.7", "C13/id-text-base64/" + k.rsplit("/", 1)[-1], ok, detail, site)
FLOORS["R13.7"] = 8
