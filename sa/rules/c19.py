"""C19 — every cargo feature subset builds; reduced builds behave like the full one."""
import os, sys, json, subprocess, glob, re, time
from concurrent.futures import ThreadPoolExecutor
from runner import VERIF
import features, extract
from facts import Crate

EXPLANATION = (
    "R19.1: `cargo check --no-default-features --features <set>` (rustc type-checking is the static decision) succeeds for the feature "
    "sets of paseto-v1..v4 — quick: none, default and every single flag (11 per crate); thorough: every distinct closure of the 9 flags "
    "(45 per crate, computed from the manifests' implication edges and floored) — plus paseto-core with/without serde and paseto-json "
    "with/without claims. R19.2 gates are subtractive (syn-based pre-expansion scan of every source file of those crates): every #[cfg] "
    "is a positive feature / all / any predicate attached to a whole item, module, use or impl item; there is no not(feature), cfg!(), "
    "cfg_attr, or cfg on a statement, expression, field, variant, match arm or parameter — so a feature can add items but cannot change "
    "the body of an item that exists in both builds. R19.3: for reduced configurations, the digest of the normalised MIR (and signature) "
    "of every function present equals its digest in the full configuration (quick: two reduced configurations per crate; thorough: every "
    "distinct closure), i.e. an operation available in a reduced build is the same code. Does not decide additivity of dependency features.")
ASSUMPTIONS = ["rustc/cargo", "dependency crates' features are additive (cargo's contract)"]
FLOORS = {"R19.1": 44, "R19.2": 4, "R19.3": 8, "R19.4": 8}
CRATES = features.FEATURE_CRATES
CFGSCAN = os.path.join(VERIF, "cfgscan", "target", "release", "cfgscan")

def pred_ok(pred):
    """positive predicate over feature = "..", all(..), any(..) only"""
    toks = re.findall(r'[A-Za-z_]+|"[^"]*"|[=(),]', pred)
    for t in toks:
        if t in ("feature", "all", "any", "=", "(", ")", ",") or t.startswith('"'):
            continue
        return False
    return "feature" in toks

REPO_ = features.REPO

def run(ctx):
    global REPO_
    REPO_ = getattr(ctx, "repo", None) or features.REPO
    thorough = ctx.tier == "thorough"
    # ---------------- R19.1
    jobs = []
    for c in CRATES:
        table, flags, cl, sets = features.quick_sets(c, REPO_)
        if len(cl) < 45:
            ctx.add("R19.1", f"C19/closures/{c}", False, f"only {len(cl)} distinct feature closures computed (expected 45): manifest changed?")
        todo = [("default", None)] + [(",".join(s) or "none", s) for s in sets]
        if thorough:
            todo = [("default", None)] + [(",".join(v) or "none", v) for v in sorted(cl.values())]
        for name, s in todo:
            jobs.append((c, name, s))
    def per_crate(c):
        out = []
        for (cc, name, s) in jobs:
            if cc != c:
                continue
            rc, errs, tail = features.cargo_check(c, s or [], default=(s is None), repo=REPO_)
            out.append((c, name, rc, errs, tail))
        return out
    with ThreadPoolExecutor(max_workers=4) as ex:
        res = [x for lst in ex.map(per_crate, CRATES) for x in lst]
    for c, name, rc, errs, tail in res:
        ctx.add("R19.1", f"C19/builds/{c}/{name}", rc == 0, "" if rc == 0 else f"does not build: {' | '.join(errs) or tail[-400:]}")
    ctx.analysed["call_sites"] += len(res)
    # paseto-core / paseto-json
    for crate, sets in (("paseto-core", [[], ["serde"]]), ("paseto-json", [[], ["claims"]])):
        for s in sets:
            env = dict(os.environ, CARGO_NET_OFFLINE="true", CARGO_TARGET_DIR=os.path.join(features.CACHE, "target-feat" + features.SCRATCH_SUFFIX(), "paseto-v1"))
            cmd = ["cargo", "check", "--offline", "--quiet", "-p", crate, "--no-default-features"] + (["--features", ",".join(s)] if s else [])
            r = subprocess.run(cmd, cwd=REPO_, env=env, capture_output=True, text=True)
            ctx.add("R19.1", f"C19/builds/{crate}/{','.join(s) or 'none'}", r.returncode == 0, "" if r.returncode == 0 else r.stderr[-400:])
    # ---------------- R19.2 cfgscan
    if not os.path.exists(CFGSCAN):
        ctx.add("R19.2", "C19/cfgscan/tool", False, "cfgscan binary missing (setup_cmd not run?)")
    else:
        for c in CRATES + ["paseto-core", "paseto-json"]:
            files = sorted(glob.glob(os.path.join(REPO_, c, "src", "**", "*.rs"), recursive=True))
            r = subprocess.run([CFGSCAN] + files, capture_output=True, text=True)
            probs = []
            n = 0
            parsed = 0
            for line in r.stdout.splitlines():
                try:
                    m = json.loads(line)
                except Exception:
                    continue
                if m.get("parsed"):
                    parsed += 1
                    continue
                if "error" in m:
                    probs.append(f"{os.path.relpath(m['file'], REPO_)}: cannot parse ({m['error'][:80]})")
                    continue
                n += 1
                where = f"{os.path.relpath(m['file'], REPO_)}:{m['line']}"
                if m["kind"] == "in-macro":
                    # macro_rules bodies may contain cfg attributes; paseto-core's serde_str! gates whole impls on feature = "serde"
                    if m["pos"] == "macro:macro_rules":
                        continue
                    probs.append(f"{where}: cfg inside a macro invocation ({m['pos']})")
                    continue
                if m["kind"] in ("cfg!", "cfg_attr"):
                    probs.append(f"{where}: {m['kind']}({m['pred']}) — behaviour/attributes differ between builds of the same item")
                    continue
                if m["pos"] == "trait-impl-item" and m["pred"].strip() != "test":
                    # an item of a trait impl can only be omitted when the trait has a default for it: gating it swaps the
                    # definition in use (e.g. a `const PASERK_HEADER` override) instead of adding an item
                    probs.append(f"{where}: #[cfg({m['pred']})] on item `{m.get('name', '')}` of a trait impl — reduced builds fall back to the trait's default definition")
                elif m["pos"] not in ("item", "impl-item", "file", "trait-item"):
                    probs.append(f"{where}: #[cfg({m['pred']})] on a {m['pos']} — the body of an existing item changes with the feature set")
                elif m["pred"].strip() == "test":
                    continue
                elif not pred_ok(m["pred"]):
                    probs.append(f"{where}: predicate `{m['pred']}` is not a positive feature/all/any predicate")
            if parsed != len(files):
                probs.append(f"parsed {parsed} of {len(files)} files")
            ctx.add("R19.2", f"C19/cfg-subtractive/{c}", not probs, "; ".join(probs)[:1500], facts={"cfg_attributes": n, "files": len(files)})
    # ---------------- R19.3 MIR digests of reduced configurations vs full
    full = {}
    fullimpls = {}
    for c in CRATES:
        p = os.path.join(ctx.facts_dir, c.replace("-", "_") + ".lib.json")
        fc = Crate(p)
        full[c] = features.fn_digests(fc)
        fullimpls[c] = {im["path"]: {it["name"]: json.dumps(it.get("value"), sort_keys=True) for it in im.get("items", [])} for im in fc.impls if im.get("of_trait")}
    configs = []
    for c in CRATES:
        table, flags, cl, sets = features.quick_sets(c, REPO_)
        if thorough:
            chosen = [v for v in sorted(cl.values()) if v]
        else:
            chosen = [["verifying"], ["decrypting"]]
        for s in chosen:
            configs.append((c, s))
    tgt = os.path.join(features.CACHE, "target" if REPO_ == features.REPO else "target-selftest" + features.SCRATCH_SUFFIX())
    for c, s in configs:
        name = c + "+" + ",".join(s)
        cfgname = ("feat-" if REPO_ == features.REPO else "selftest" + features.SCRATCH_SUFFIX() + "-feat-") + hashlibname(name)
        try:
            fd = extract.extract(cfgname, repo=REPO_, features=s, pkgs=[c], target=tgt)
            cr = Crate(os.path.join(fd, c.replace("-", "_") + ".lib.json"))
        except Exception as e:
            ctx.add("R19.3", f"C19/same-code/{name}", False, f"extraction failed: {e}")
            continue
        dg = features.fn_digests(cr)
        # associated items of every trait impl: same set and same constant values as in the full build (a gated override of a
        # defaulted associated const/fn would silently fall back to the trait's default)
        def impl_items(crx):
            out = {}
            for im in crx.impls:
                if im.get("of_trait"):
                    out[im["path"]] = {it["name"]: json.dumps(it.get("value"), sort_keys=True) for it in im.get("items", [])}
            return out
        ii_red, ii_full = impl_items(cr), fullimpls[c]
        impl_diff = []
        for ip, items in ii_red.items():
            if ip in ii_full and items != ii_full[ip]:
                changed = sorted(set(items.items()) ^ set(ii_full[ip].items()))
                impl_diff.append(f"{ip}: {[n for n, _ in changed][:4]}")
        diff = [k for k, h in dg.items() if k in full[c] and full[c][k] != h]
        extra = [k for k in dg if k not in full[c]]
        probs = []
        if diff:
            probs.append(f"{len(diff)} function(s) compile to different MIR than in the full build: {diff[:4]}")
        if extra:
            probs.append(f"{len(extra)} function(s) exist only in the reduced build: {extra[:4]}")
        if impl_diff:
            probs.append(f"trait impl(s) whose associated items differ from the full build: {impl_diff[:3]}")
        ctx.add("R19.3", f"C19/same-code/{name}", not probs, "; ".join(probs), facts={"functions": len(dg)})
    # ---------------- R19.4 capability bounds in paseto-core: an operation is available exactly when the backend implements the
    # capability trait of that operation (which is what the feature flags gate). An "undo" operation that demands a "do" capability
    # (decrypt requiring SealingVersion) disappears from decrypt-only builds although every feature set still compiles.
    core = Crate(os.path.join(ctx.facts_dir, "paseto_core.lib.json"))
    UNDO = {"decrypt", "decrypt_with_aad", "verify", "verify_with_aad", "unseal", "unwrap", "params"}
    DO = {"encrypt", "encrypt_with_aad", "sign", "sign_with_aad", "seal", "wrap_pie", "password_wrap", "password_wrap_with_params"}
    nimpl = 0
    for im in core.impls:
        if im.get("of_trait"):
            continue
        names = {it["name"] for it in im.get("items", [])}
        preds = im.get("predicates") or []
        if names & UNDO and not names & DO:
            nimpl += 1
            bad = [pd for pd in preds if re.search(r"(?<!Un)SealingVersion<|PkeSealingVersion", pd)]
            ctx.add("R19.4", f"C19/capability-bounds/{im['path']}", not bad,
                    f"{sorted(names & UNDO)} require {bad}: in a build with only the undo capability the method cannot be called" if bad else "")
        elif names & DO and not names & UNDO:
            nimpl += 1
            ctx.add("R19.4", f"C19/capability-bounds/{im['path']}", True, "")
    if nimpl < 8:
        ctx.add("R19.4", "C19/capability-bounds/anchor", False, f"only {nimpl} operation impl blocks found in paseto-core")
    ctx.sample({"closures_per_crate": 45, "builds_checked": len(res), "reduced_configs_compared": len(configs)})

def hashlibname(s):
    import hashlib
    return hashlib.sha1(s.encode()).hexdigest()[:10]
