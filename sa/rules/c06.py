"""C06 — wrapped / sealed keys are tamper-evident and bound to header, key and password (structural conditions)."""
from ops import *
from norm import fn as fmt_n
from runner import site_of
from termutil import *

EXPLANATION = (
    "For the 18 undo functions (pie_unwrap_key, pw_unwrap_key, unseal_key x 6 backends) the function is evaluated over MIR "
    "into a symbolic summary and the rule demands: R06.1 the blob is exactly partitioned into the regions that are "
    "authenticated plus the tag (PKE: the encrypted-key region is additionally length-tested to 32); R06.2 the MAC "
    "transcript starts with the crate's PASERK version literal and the kind header (parameter, or the literal 'kN.seal.'), "
    "and contains every non-tag region of the received blob *unmodified* (for PBKW this is the whole salt|params|nonce prefix); "
    "R06.3 the comparison is a full-width verification (both operands as wide as the MAC output); R06.4 success of the "
    "verification precedes in-place decryption and every Ok exit on every path; R06.6 the MAC key derives from the wrapping "
    "key / password / recipient secret key; R06.5 paseto-core passes the kind's header constant and the stored bytes. "
    "Decides coverage/partition/gating; MAC security and DH/RSA-KEM soundness are assumed.")
ASSUMPTIONS = ["rustc type checking / MIR construction are correct", "MAC primitives are unforgeable", "contract table for lc::*"]
FLOORS = {"R06.1": 18, "R06.2": 18, "R06.3": 18, "R06.4": 18, "R06.6": 18, "R06.5": 3}

UNDO = {"pie": ("::PieWrapVersion", "pie_unwrap_key", "wrapping_key"), "pbkw": ("::PwWrapVersion", "pw_unwrap_key", "pass"),
        "pke": ("::PkeUnsealingVersion", "unseal_key", "unsealing_key")}
KVER = {"v1": b"k1", "v2": b"k2", "v3": b"k3", "v3-aws-lc": b"k3", "v4": b"k4", "v4-sodium": b"k4"}
TAGW = {"v1": 48, "v3": 48, "v3-aws-lc": 48, "v2": 32, "v4": 32, "v4-sodium": 32}
BUF = "key_data"

def msg_parts(m):
    if isinstance(m, tuple) and m and m[0] == "cat":
        return list(m[1])
    return [m]

def _targets_blob(loc):
    """The written location is (a region of) the received blob / a caller-owned buffer — not a local scratch array."""
    seen = 0
    while isinstance(loc, tuple) and loc and seen < 8:
        if loc[0] in ("P", "T"):
            return True
        if loc[0] == "L":
            return False
        if loc[0] in ("R", "R?", "V", "F", "IDX", "D") and len(loc) > 1:
            loc = loc[1]
            seen += 1
            continue
        return True
    return True

def _exact_total(run, r):
    """N if the success path r establishes len(blob) == N: a zerocopy view of the WHOLE blob as a fixed-size struct
    (`T::mut_from_bytes` / `ref_from_bytes`), or a comparison `len(blob) == N` taken on its equal edge."""
    for e in r.path.events:
        if e["kind"] == "split" and e.get("how") == "zexact" and isinstance(e.get("n"), int):
            tg = e.get("target")
            whole = (run.norm.loc_in(tg) == ("in", BUF)
                     or (isinstance(tg, tuple) and tg[0] == "T" and tg[1] in (("bytes_of", ("param", 2, BUF)), ("bytes_of", ("param", 3, BUF)), ("param", 2, BUF)))
                     or (isinstance(tg, tuple) and tg[0] == "P" and tg[-1] == BUF))
            if whole:
                return e["n"]
    for g in r.path.guards:
        pin = pin_of(run.norm.n(g["cond"]), g["value"], g.get("arms"))
        if pin and pin[0] == ("len", ("in", BUF)) and pin[2]:
            return pin[1]
    return None

def check(ctx, be, op):
    w = ctx.world
    key = f"{op}/{be}"
    tail, meth, secret = UNDO[op]
    f = find_impl_fn(w, BACKENDS[be], tail, meth)
    rules = ("R06.1", "R06.2", "R06.3", "R06.4", "R06.6")
    if f is None:
        for r in rules:
            ctx.add(r, f"C06/{r}/{key}", False, f"anchor missing: {tail}::{meth}")
        return
    run = Run(w, f)
    site = site_of(f)
    ctx.analysed["functions"] += 1
    ctx.analysed["paths"] += len(run.results)
    oks = run.ok_paths
    if len(oks) != 1:
        for r in rules:
            ctx.add(r, f"C06/{r}/{key}", False, f"expected exactly one success path, found {len(oks)}", site)
        return
    r = oks[0]
    vs = verification_terms(run, r)
    ret = run.norm.n(run.ret_value(r))
    vt = vs[0][2] if len(vs) == 1 else None
    base = ("in", BUF)
    # R06.3
    p3 = []
    if vt is None:
        p3.append(f"expected exactly one verification on the success path, found {len(vs)}")
    else:
        if vt[0] != "VERIFY" or vt[1] not in ("mac", "eq", "sodium_compare"):
            p3.append(f"unexpected verification form {vt[0]}/{vt[1]}")
        else:
            lw, rw = run.norm.width(vt[2]), run.norm.width(vt[3])
            if lw != TAGW[be]:
                p3.append(f"computed tag is {lw} bytes wide, expected {TAGW[be]}")
            if rw != TAGW[be]:
                p3.append(f"the received tag operand {fmt_n(vt[3])[:100]} is {rw} bytes wide, expected {TAGW[be]} (a shorter operand turns the check into a prefix comparison)")
    ctx.add("R06.3", f"C06/R06.3/{key}", not p3, "; ".join(p3), site)
    if vt is None or vt[0] != "VERIFY":
        for rr in ("R06.1", "R06.2", "R06.4", "R06.6"):
            ctx.add(rr, f"C06/{rr}/{key}", False, "no analysable verification", site)
        return
    mac, tag = vt[2], vt[3]
    parts = msg_parts(mac[3]) if mac[0] == "MAC" else []
    direct = [(p[2], p[3]) for p in parts if isinstance(p, tuple) and p and p[0] == "sl" and p[1] == base]
    tsl, twhole = payload_slices(tag, BUF)
    # R06.1 partition
    p1 = []
    # when the success path pins the total length (a whole-buffer zerocopy view of a fixed-size struct, or `len == N` on its
    # equal edge) end-relative bounds and absolute ones name the same positions: express everything from the start
    total = _exact_total(run, r)
    def absb(b):
        return (b[0] + total, 0) if (total is not None and b[1] == 1) else b
    if total is not None:
        direct = [(absb(a), absb(b)) for a, b in direct]
        tsl = [(absb(a), absb(b)) for a, b in tsl]
        direct = [(a, (0, 1)) if b == (total, 0) else (a, b) for a, b in direct]
        tsl = [(a, (0, 1)) if b == (total, 0) else (a, b) for a, b in tsl]
    regs = sorted(set(direct + tsl), key=lambda b: (b[0][1], b[0][0], b[1][1], b[1][0]))
    # adjacent direct slices may be authenticated as one struct view (PBKW prefix): tiles() handles contiguity
    ok, why = tiles(regs)
    if not ok:
        p1.append("authenticated regions + tag region do not partition the blob: " + why + f" (regions {regs})")
    data = ret
    if isinstance(data, tuple) and data and data[0] == "agg" and data[2]:      # LocalKey(...)
        data = data[2][0]
    if isinstance(data, tuple) and data and data[0] == "ok":
        data = data[1][2][0] if data[1][0] == "call" and data[1][2] else data
    if isinstance(data, tuple) and data and data[0] == "ENC":
        data = data[2]
    dreg = None
    if isinstance(data, tuple) and data and data[0] == "sl" and data[1] == base:
        dreg = (absb(data[2]), absb(data[3]))
        if total is not None and dreg[1] == (total, 0):
            dreg = (dreg[0], (0, 1))
    if not (dreg is not None and dreg in direct and dreg not in tsl):
        p1.append(f"returned key {fmt_n(ret)[:200]} is not the decryption of exactly one authenticated non-tag region")
    if op == "pke":
        ex = [e for e in r.path.events if e["kind"] == "exactlen" and e.get("n") == 32]
        if not ex and total is not None and dreg is not None and dreg[0][1] == 0:
            # total length pinned and the key region runs from a fixed offset to a fixed offset / the end: its width is fixed
            end = total if dreg[1] == (0, 1) else (dreg[1][0] if dreg[1][1] == 0 else None)
            if end is not None and end - dreg[0][0] == 32:
                ex = [True]
        if not ex:
            p1.append("the encrypted-key region is not length-tested to exactly 32 bytes")
    ctx.add("R06.1", f"C06/R06.1/{key}", not p1, "; ".join(p1), site)
    # R06.2 coverage
    p2 = []
    if not parts or parts[0] != ("b", KVER[be]) and not (isinstance(parts[0], tuple) and parts[0][0] == "b" and parts[0][1].startswith(KVER[be])):
        p2.append(f"MAC transcript does not start with the PASERK version literal {KVER[be]!r}: {fmt_n(mac[3])[:200]}")
    else:
        if op in ("pie", "pbkw"):
            lit = parts[0][1]
            if lit != KVER[be] or len(parts) < 2 or parts[1] not in (("in", "header"), ("in", "encoding")):
                p2.append("kind header parameter is not the second authenticated element")
        else:
            if parts[0][1] != KVER[be] + b".seal.":
                p2.append(f"PKE tag transcript does not start with {KVER[be] + b'.seal.'!r}")
    sls_all, _ = payload_slices(mac, BUF)
    for s_ in regs:
        if s_ in tsl:
            continue
        if s_ not in direct:
            p2.append(f"blob region {s_} is not authenticated as received")
    # any use of a *modified* blob region inside the MAC message
    for p in parts:
        if isinstance(p, tuple) and p and p[0] in ("SETBYTE", "mut") and contains(p, base):
            p2.append("a blob region is modified before it is authenticated: " + fmt_n(p)[:160])
    ctx.add("R06.2", f"C06/R06.2/{key}", not p2, "; ".join(p2), site, {"transcript": fmt_n(mac[3])[:500]})
    # R06.4 gate
    p4 = []
    for p in run.results:
        ver = False
        for e in p.path.events:
            if e["kind"] == "call" and any(v in e["name"].lower() for v in VERIFY_NAMES):
                t = run.norm.n(("call", e["name"], tuple(e["vals"])))
                if isinstance(t, tuple) and t[0] == "VERIFY":
                    ver = True
            if e["kind"] == "xor" and not ver:
                d = run.norm.n(e.get("data"))
                if contains(d, base):
                    p4.append("decryption of blob bytes before the tag verification")
            if e["kind"] == "copy" and not ver and _targets_blob(e.get("target")):
                p4.append("copy into the blob before the tag verification")
        if p.kind == "return" and p.okness is not False and not ver:
            p4.append("an Ok exit is reachable without the tag verification")
    if not any(p.path.guards and "VERIFY" in repr(run.norm.n(p.path.guards[-1]["cond"])) for p in run.err_paths):
        p4.append("no Err exit is controlled by the verification result")
    ctx.add("R06.4", f"C06/R06.4/{key}", not p4, "; ".join(sorted(set(p4))), site)
    # R06.6 key binding
    p6 = []
    mk = mac[2] if mac[0] == "MAC" else None
    if mk is None or not contains(mk, ("in", secret)):
        p6.append(f"MAC key {fmt_n(mk)[:200] if mk else None} does not derive from `{secret}`")
    if op == "pbkw" and mk is not None:
        # salt and parameters of the KDF come from the blob
        if not contains(mk, base):
            p6.append("password KDF does not use salt/parameters from the blob")
    ctx.add("R06.6", f"C06/R06.6/{key}", not p6, "; ".join(p6), site)
    if not (p1 or p2 or p3 or p4 or p6):
        ctx.sample({"op": op, "backend": be, "verification": fmt_n(vt)[:400]})

def core_plumbing(ctx):
    w = ctx.world
    exp = {"pie": ("PieWrapVersion>::pie_unwrap_key", [("aconst", "SealingKey::PIE_WRAP_HEADER", "K"), ("fld", ("in", "with"), 0), ("fld", ("in", "self"), 0)]),
           "pbkw": ("PwWrapVersion>::pw_unwrap_key", [("aconst", "SealingKey::PW_WRAP_HEADER", "K"), ("in", "pass"), ("fld", ("in", "self"), 0)]),
           "pke": ("PkeUnsealingVersion>::unseal_key", [("fld", ("in", "with"), 0), ("fld", ("in", "self"), 0)])}
    for op, (suffix, want) in exp.items():
        g = exact_core_fn(w, PASERK_OPS[op][1])
        probs = []
        if g is None:
            probs.append("anchor missing")
        else:
            run = Run(w, g)
            calls = [(r, e) for r in run.results for e in r.path.events if e["kind"] == "call" and e["name"].endswith(suffix)]
            if not calls:
                probs.append(f"no call to {suffix}")
            else:
                vals = [run.norm.n(v) for v in calls[0][1]["vals"]]
                for i, (v, wv) in enumerate(zip(vals, want)):
                    if v != wv:
                        probs.append(f"argument {i} is {fmt_n(v)[:100]}, expected {fmt_n(wv)}")
        ctx.add("R06.5", f"C06/R06.5/{op}", not probs, "; ".join(probs), site_of(g) if g else None)

def run(ctx):
    for be in BACKENDS:
        for op in ("pie", "pbkw", "pke"):
            check(ctx, be, op)
    core_plumbing(ctx)

# ---- R06.7 (shared with C07 R07.3): every Err exit of an undo function is one of the stated conditions (length, header, the tag
# verification, library-reported, reviewed parameter validation): no extra computation on unauthenticated header fields decides
# the outcome before the tag is checked.
_run_c06 = run
def run(ctx):
    _run_c06(ctx)
    import c07
    class Scratch:
        def __init__(s): s.findings = []; s.world = ctx.world; s.crates = ctx.crates; s.analysed = {"functions": 0, "paths": 0, "call_sites": 0}; s.notes = []; s.tier = ctx.tier; s.facts_dir = ctx.facts_dir
        def add(s, rule, k, ok, detail="", site=None, facts=None): s.findings.append((rule, k, ok, detail, site))
        def sample(s, x): pass
    sc = Scratch()
    c07.run(sc)
    for (rule, k, ok, detail, site) in sc.findings:
        if rule == "R07.3":
            ctx.add("R06.7", "C06/undo-exits/" + k.split("/", 2)[-1], ok, detail, site)
FLOORS["R06.7"] = 18

# ---- R06.8: "using any other password returns an error" needs the password to enter the key derivation INJECTIVELY. Read off the
# composed blob term: the KDF primitive and the position of the password in it. Contract table (trusted, from the primitives'
# specifications): Argon2 (RFC 9106) hashes LE32(len(P)) || P — injective; PBKDF2-HMAC (RFC 8018 / RFC 2104) uses the password as
# the HMAC key, and HMAC pads a key shorter than its block with zero bytes (and hashes a longer one), so P and P || 0x00 are the
# same key. The second case is a genuine counterexample to the statement for k1/k3 (confirmed: findings/demo d11) that the
# PASERK specification itself prescribes; it is listed in known_findings.json (D11) and cannot be repaired without leaving the spec.
PASSWORD_INJECTIVE = {"ARGON2ID13": True, "ARGON2": True, "PBKDF2": False}
_run_c06b = run
def run(ctx):
    _run_c06b(ctx)
    for be in BACKENDS:
        c = compose_paserk(ctx.world, be, "pbkw")
        blob = c.get("blob")
        key = f"C06/password-injective/pbkw/{be}"
        if blob is None:
            ctx.add("R06.8", key, False, "no blob term: " + "; ".join(c["problems"]))
            continue
        kdfs = subterms(blob, lambda x: x and x[0] in PASSWORD_INJECTIVE)
        heads = sorted({k[0] for k in kdfs})
        probs = []
        if not kdfs:
            probs.append("no password-based KDF found in the blob construction")
        for k in kdfs:
            # the password operand must be the caller's `pass` itself (any preprocessing is judged by R06.5 / R07.1)
            if not any(a == ("in", "pass") for a in k[1:] if isinstance(a, tuple)):
                probs.append(f"the password operand of {k[0]} is not the caller's password unmodified")
        for h in heads:
            if not PASSWORD_INJECTIVE[h]:
                probs.append(f"{h}-HMAC keys the PRF with the password: HMAC zero-pads short keys, so `P` and `P || 0x00` derive the same key "
                             "(another password unwraps the blob)")
        ctx.add("R06.8", key, not probs, "; ".join(sorted(set(probs))))
FLOORS["R06.8"] = 6
