"""C09 — text encodings are strict and canonical (mirror rules, whole-remainder rule, base64 internals, serde)."""
from ops import *
from norm import fn as fmt_n
from runner import site_of
from termutil import *
from textforms import *
import b64rules

EXPLANATION = (
    "R09.1 T-MIRROR: for the 6 text forms (token, key text, key id, PIE/PBKW wrapped key, sealed key) the constants Display "
    "writes, in order, are exactly the constants FromStr strips with strip_prefix, in order, and Display base64-prints the very "
    "field FromStr stores. R09.2 whole-remainder: the string handed to the base64 decoder is exactly the remainder after the "
    "last strip_prefix (tokens: the two halves of split_once('.'), so a second '.' reaches the decoder and is rejected by the "
    "alphabet rule), with no trim/slice/case-folding in between; Display emits '.'+footer iff the stored footer bytes are "
    "non-empty. R09.3/R09.4: base64 internals — decode_inner accumulates every chunk verdict and the impossible-length test "
    "unconditionally into the value tested before Ok, validate_last_block is on the Ok path, output length is decoded_len; the "
    "alphabet/bit-layout constants extracted from decode_6bits/encode_6bits/decode_3bytes/encode_3bytes equal RFC 4648 §5 and the "
    "two tables are mutually inverse (computed from the extracted constants, not by running the code). R09.5: every serde "
    "Serialize body is collect_str(self) and every visitor overrides only expecting/visit_str = str::parse. R09.6: key ids must "
    "decode to exactly 33 bytes. Decides the construction; says nothing about strings beyond what these constructions imply.")
ASSUMPTIONS = ["rustc type checking / MIR construction are correct", "core::str::strip_prefix / split_once / fmt::Formatter::write_str behave as documented"]
FLOORS = {"R09.1": 6, "R09.2": 6, "R09.5": 6, "R09.6": 1, "R09.3": 4, "R09.4": 4, "R09.7": 2}

STORED_FIELD = {"SealedToken": 0, "KeyText": 0, "KeyId": 0, "PieWrappedKey": 0, "PasswordWrappedKey": 0, "SealedKey": 0}

def run(ctx):
    w = ctx.world
    for tname, (dk, fk) in TYPES.items():
        fd, dseqs = display_sequences(w, dk)
        ff, fs = fromstr_summaries(w, fk)
        if fd is None or ff is None or not dseqs or not fs or not fs[0]:
            ctx.add("R09.1", f"C09/mirror/{tname}", False, "anchor missing or no success path")
            ctx.add("R09.2", f"C09/remainder/{tname}", False, "anchor missing or no success path")
            continue
        ctx.analysed["functions"] += 2
        foks, nerr, others = fs
        p1, p2 = [], []
        if others:
            p2.append(f"FromStr has non-returning paths {others}")
        # ---- Display side
        lits_by_path = []
        for seq, guards in dseqs:
            if any(k == "other" for k, _ in seq):
                p1.append("Display writes through something other than write_str / base64::write_to_fmt")
            lits = []
            for k, v in seq:
                if k == "b64":
                    break
                lits.append(v)
            lits_by_path.append((lits, seq, guards))
        prefix = lits_by_path[0][0]
        if any(l != prefix for l, _, _ in lits_by_path):
            p1.append("Display paths disagree on the constant prefix")
        # ---- FromStr side
        chains = []
        exact33 = []
        for v, guards in foks:
            if not (isinstance(v, tuple) and v[0] == "agg" and v[2]):
                p1.append("FromStr result is not an aggregate")
                continue
            field = v[2][STORED_FIELD[tname]]
            if tname == "KeyId":
                # form 1: [0;33] overwritten by base64::decode(s, &mut id);  form 2: an exact-length std conversion of decode_vec(s)
                src = None
                t = field
                if isinstance(t, tuple) and t[0] == "mut" and t[2][0] == "base64::decode":
                    src = t[2][2][0]
                ex = exact_len_conv(field)
                if src is None and ex is not None and ex[1] == 33:
                    src = decoded_source(ex[0])
                    exact33.append(v)
                if src is None:
                    p2.append("KeyId bytes are not produced by base64::decode of the remainder: " + fmt_n(field)[:200])
                    continue
            else:
                src = decoded_source(field)
                if src is None:
                    p2.append("stored bytes are not base64::decode_vec of part of the input: " + fmt_n(field)[:200])
                    continue
            if tname == "SealedToken":
                t = peel_ok(src)
                if isinstance(t, tuple) and t[0] == "fld" and t[2] == 0:
                    sp = peel_ok(t[1])
                    if not (isinstance(sp, tuple) and sp[0] == "call" and sp[1].startswith("core::str::<impl str>::split_once") and sp[2][1] == ("int", 46)):
                        p2.append("payload segment does not come from split_once('.'): " + fmt_n(src)[:200])
                        continue
                    rest = sp[2][0]
                    # footer = decode of the .1 half, whole
                    fsrc = subterms(v[2][1], lambda x: x and x[0] == "fld" and x[2] == 1 and peel_ok(x[1]) == sp)
                    if not fsrc:
                        p2.append("footer segment is not the whole second half of split_once('.')")
                else:
                    rest = src     # no '.' in the input: whole remainder is the payload
                    if not empty_bytes(v[2][1]):
                        p2.append("token without '.' does not store an empty footer")
                consts, base = strip_chain(rest)
            else:
                consts, base = strip_chain(src)
            if base != ("in", "s"):
                p2.append("the decoded string is not the input after strip_prefix only: " + fmt_n(base)[:200])
            chains.append(consts)
        if chains and any(c != chains[0] for c in chains):
            p1.append("FromStr paths strip different constants")
        if chains and chains[0] != prefix:
            p1.append(f"Display writes {[fmt_n(x) for x in prefix]} but FromStr strips {[fmt_n(x) for x in chains[0]]}")
        # Display prints the stored field; token: '.' + footer iff non-empty
        for lits, seq, guards in lits_by_path:
            b64s = [v for k, v in seq if k == "b64"]
            if not b64s or b64s[0] not in (("fld", ("in", "self"), STORED_FIELD[tname]),):
                p1.append("Display does not base64-print the stored field first: " + str([fmt_n(x)[:60] for x in b64s]))
            if tname == "SealedToken":
                tail = seq[len(lits) + 1:]
                emp = [val for c, val in guards if "is_empty" in repr(c) and contains(c, ("fld", ("in", "self"), 1))]
                if tail:
                    if tail != [("lit", ("b", b".")), ("b64", ("fld", ("in", "self"), 1))]:
                        p1.append("footer part of Display is not '.' + base64(stored footer bytes): " + str(tail)[:200])
                    if not emp:
                        p1.append("footer is printed without testing the stored footer bytes for emptiness")
                else:
                    if not emp:
                        p1.append("footer omitted without testing the stored footer bytes for emptiness")
            else:
                if len(seq) != len(lits) + 1:
                    p1.append("Display writes more than prefix + one base64 field")
        ctx.add("R09.1", f"C09/mirror/{tname}", not p1, "; ".join(sorted(set(p1)))[:1200], site_of(fd))
        ctx.add("R09.2", f"C09/remainder/{tname}", not p2, "; ".join(sorted(set(p2)))[:1200], site_of(ff))
        if not p1 and not p2:
            ctx.sample({"type": tname, "prefix": [fmt_n(x) for x in prefix]})
        if tname == "KeyId":
            # R09.6 exactly 33 bytes
            ok6 = False
            for v, guards in foks:
                def static_len(t):
                    """len of a buffer whose size is fixed by construction: [0u8; N], possibly mutated in place."""
                    while isinstance(t, tuple) and t and t[0] == "mut":
                        t = t[1]
                    return t[1] if (isinstance(t, tuple) and len(t) == 2 and t[0] == "zeros" and isinstance(t[1], int)) else None
                def fold_len(c):
                    # `decoded.len() == id.len()` with id: [u8; 33] is `decoded.len() == 33`
                    if isinstance(c, tuple) and len(c) == 4 and c[0] == "binop" and c[1] in ("Eq", "Ne"):
                        sides = []
                        for x in (c[2], c[3]):
                            n_ = static_len(x[1]) if (isinstance(x, tuple) and len(x) == 2 and x[0] == "len") else None
                            sides.append(("int", n_) if n_ is not None else x)
                        return ("binop", c[1], sides[0], sides[1])
                    return c
                for c, val in guards:
                    pin = pin_of(fold_len(c), val)
                    if pin and pin[1] == 33 and pin[2] and isinstance(pin[0], tuple) and pin[0][0] == "len" and "base64::decode" in repr(pin[0]):
                        ok6 = True          # `len == 33` on its equal edge, in any spelling
                if v in exact33:
                    ok6 = True      # Vec<u8> / &[u8] -> [u8; 33] TryFrom succeeds iff the length is exactly 33
            ctx.add("R09.6", "C09/keyid-33", ok6, "" if ok6 else "no success-path guard `decoded length == 33`", site_of(ff))
    serde_rules(ctx)
    b64rules.run(ctx)

def serde_rules(ctx):
    core = ctx.crates["paseto_core"]
    sers = {k: f for k, f in core.fns.items() if (f.get("impl_trait") or "").endswith("serde_core::ser::Serialize") and f.get("name") == "serialize"}
    seen = 0
    for k, f in sorted(sers.items()):
        seen += 1
        calls = [b["term"] for b in f["body"]["blocks"] if b["term"]["k"] == "call"]
        names = [c["callee"].get("path") for c in calls]
        probs = []
        if names != ["serde_core::ser::Serializer::collect_str"]:
            probs.append(f"serialize body calls {names}, expected exactly collect_str")
        else:
            a = calls[0]["args"]
            # second argument must be `self` (param 1)
            arg = a[1].get("copy") or a[1].get("move")
            if not arg or arg["l"] != 1 and not _is_copy_of(f, arg["l"], 1):
                probs.append("collect_str is not applied to self")
        tn = core.ty_s(f["impl_self"]).split("<")[0].split("::")[-1]
        # visitor: impl items
        vis = [im for im in core.impls if im.get("trait", "").endswith("serde_core::de::Visitor") and tn in im["trait_full"] + core.ty_s(im["self"]) + im["path"]]
        ctx.add("R09.5", f"C09/serde/serialize/{tn}", not probs, "; ".join(probs), site_of(f))
    vimpls = [im for im in core.impls if im.get("trait", "").endswith("serde_core::de::Visitor")]
    for im in vimpls:
        items = sorted(i["name"] for i in im["items"] if i["kind"].startswith("AssocFn"))
        probs = []
        if items != ["expecting", "visit_str"]:
            probs.append(f"visitor overrides {items}, expected only expecting + visit_str")
        vs = [core.fns.get(i["path"]) for i in im["items"] if i["name"] == "visit_str"]
        if vs and vs[0] is not None:
            names = [b["term"]["callee"].get("path") for b in vs[0]["body"]["blocks"] if b["term"]["k"] == "call"]
            if "core::str::<impl str>::parse" not in names:
                probs.append("visit_str does not parse the string with FromStr")
            extra = [n for n in names if n not in ("core::str::<impl str>::parse", "core::result::Result::<T, E>::map_err")]
            if extra:
                probs.append(f"visit_str does more than parse + map_err: {extra}")
        ctx.add("R09.5", f"C09/serde/visitor/{im['path']}", not probs, "; ".join(probs))
    if seen == 0:
        ctx.add("R09.5", "C09/serde/none", False, "no Serialize impls found in the default (serde-enabled) configuration")

def _is_copy_of(f, local, src):
    for b in f["body"]["blocks"]:
        for st in b["stmts"]:
            if st["k"] == "assign" and st["place"]["l"] == local and not st["place"]["p"]:
                rv = st["rv"]
                if rv["k"] in ("use",):
                    op = rv["op"].get("copy") or rv["op"].get("move")
                    if op and op["l"] == src:
                        return True
                if rv["k"] == "ref" and rv["place"]["l"] == src:
                    return True
                if rv["k"] == "ref" and rv["place"]["p"] == ["*"]:
                    return _is_copy_of(f, rv["place"]["l"], src) or rv["place"]["l"] == src
    return False

# ---- R09.8 (shared with C08 R08.1b / R08.8): key texts are canonical because the key decoders are — byte-preserving for v2–v4
# (encode(decode(b)) = b), the library's strict DER/PEM parser on the unmodified bytes for v1. (Whether the bytes are a VALID
# key is C08's R08.2, not a canonicality question.)
_run_c09 = run
def run(ctx):
    _run_c09(ctx)
    import shared
    shared.share(ctx, "c08", lambda r, k: r in ("R08.1b", "R08.8"), "R09.8", "C09/key-decoder/")
FLOORS["R09.8"] = 28
