"""C02 — unsealing accepts only the exact bytes, footer, assertion and key (structural necessary conditions)."""
from ops import *
import os, re
from norm import fn as fmt_n
from runner import site_of
from termutil import *

EXPLANATION = (
    "For the 12 backend unseal implementations (6 backends x local/public) the function is evaluated over MIR into a "
    "symbolic summary and the rule demands: R02.1 the payload is partitioned exactly into the regions that are "
    "authenticated plus the tag/signature region (no byte outside, no overlap, tag region as wide as the MAC/signature); "
    "R02.2 the authenticated transcript contains the version header constant of the crate, the encoding suffix, the purpose "
    "header, every non-tag payload region, the footer and (v3/v4) the implicit assertion, each as its own PAE piece; "
    "R02.3 the comparison is a full-width verification primitive; R02.4 on every path, success of that verification precedes "
    "any in-place decryption and every Ok exit; R02.5 v1/v2 reject a non-empty assertion before anything else; "
    "R02.6 the verification key derives from the key parameter; R02.7 paseto-core hands payload, stored footer bytes, "
    "assertion and key to the backend unmodified. Decides coverage/partition/gating; does not decide unforgeability.")
ASSUMPTIONS = [
    "rustc type checking / MIR construction are correct",
    "MAC / signature / AEAD primitives are unforgeable and verify exactly what was authenticated",
    "PAE is injective (C15)",
    "contract table for the aws-lc FFI wrapper module (lc::*)",
]
FLOORS = {"R02.1": 12, "R02.2": 12, "R02.3": 12, "R02.4": 12, "R02.5": 12, "R02.6": 12, "R02.7": 1, "R02.8": 2, "R02.9": 1}

HAS_AAD = {"v1": False, "v2": False, "v3": True, "v3-aws-lc": True, "v4": True, "v4-sodium": True}
VHEADER = {"v1": b"v1", "v2": b"v2", "v3": b"v3", "v3-aws-lc": b"v3", "v4": b"v4", "v4-sodium": b"v4"}
TAGW = {("v1", "Local"): 48, ("v2", "Local"): 16, ("v3", "Local"): 48, ("v3-aws-lc", "Local"): 48, ("v4", "Local"): 32,
        ("v4-sodium", "Local"): 32, ("v1", "Public"): 256, ("v2", "Public"): 64, ("v3", "Public"): 96, ("v3-aws-lc", "Public"): 96,
        ("v4", "Public"): 64, ("v4-sodium", "Public"): 64}

def unseal_run(w, be, purpose):
    crate = BACKENDS[be]
    f = find_impl_fn(w, crate, "::UnsealingVersion", "unseal", purpose)
    if f is None:
        return None, None
    return f, Run(w, f)

def check_backend(ctx, be, purpose):
    w = ctx.world
    key = f"{be}/{purpose.lower()}"
    f, run = unseal_run(w, be, purpose)
    if f is None:
        for r in ("R02.1", "R02.2", "R02.3", "R02.4", "R02.5", "R02.6"):
            ctx.add(r, f"C02/{r}/{key}", False, "anchor missing: UnsealingVersion::unseal impl")
        return
    site = site_of(f)
    ctx.analysed["functions"] += 1
    ctx.analysed["paths"] += len(run.results)
    oks = run.ok_paths
    if len(oks) != 1:
        for r in ("R02.1", "R02.2", "R02.3", "R02.4", "R02.6"):
            ctx.add(r, f"C02/{r}/{key}", False, f"expected exactly one success path, found {len(oks)}", site)
        return
    r = oks[0]
    vs = verification_terms(run, r)
    ret = run.norm.n(run.ret_value(r))
    # ---------------- R02.3 full-width comparison
    probs3 = []
    if len(vs) != 1:
        probs3.append(f"expected exactly one verification on the success path, found {len(vs)}")
    vt = vs[0][2] if vs else None
    tagw = TAGW[(be, purpose)]
    if vt is not None:
        if vt[0] == "VERIFY":
            kind, lhs, rhs = vt[1], vt[2], vt[3]
            lw, rw = run.norm.width(lhs), run.norm.width(rhs)
            if kind == "aead":
                lw = 16
            if lw != tagw:
                probs3.append(f"computed authenticator is {lw} bytes wide, the {be} {purpose} tag is {tagw}")
            if rw != tagw:
                probs3.append(f"the value compared against is {rw} bytes wide ({fmt_n(rhs)[:120]}), expected the {tagw}-byte tag")
            if kind not in ("mac", "eq", "sodium_compare", "aead"):
                probs3.append(f"unknown comparison kind {kind}")
        else:
            sig = vt[4]
            sw = run.norm.width(sig)
            if sw != tagw:
                probs3.append(f"signature operand is {sw} bytes wide ({fmt_n(sig)[:120]}), expected {tagw}")
    ctx.add("R02.3", f"C02/R02.3/{key}", not probs3, "; ".join(probs3), site, {"verification": fmt_n(vt)[:600] if vt else None})
    # ---------------- R02.1 partition
    probs1 = []
    if vt is not None:
        auth_side = vt[2] if vt[0] == "VERIFY" else vt[3]
        tag_side = vt[3] if vt[0] == "VERIFY" else vt[4]
        regs = []
        for pt in pae_terms(auth_side):
            for pc in pt[1]:
                for fr in pc:
                    s_, wh = payload_slices(fr)
                    if wh:
                        probs1.append("the whole payload (unsliced) is a PAE fragment")
                    if isinstance(fr, tuple) and fr and fr[0] == "sl" and fr[1] == ("in", "payload"):
                        regs.append((fr[2], fr[3]))
        if vt[0] == "VERIFY" and vt[1] == "aead":
            buf = auth_side[4]
            if isinstance(buf, tuple) and buf and buf[0] == "AEAD_PT_OF":
                buf = buf[1]
            if isinstance(buf, tuple) and buf and buf[0] == "sl" and buf[1] == ("in", "payload"):
                regs.append((buf[2], buf[3]))
        tsl, twhole = payload_slices(tag_side)
        regs += tsl
        regs = sorted(set(regs), key=lambda b: (b[0][1], b[0][0], b[1][1], b[1][0]))
        ok, why = tiles(regs)
        if not ok:
            probs1.append("authenticated regions + tag region do not partition the payload: " + why + f" (regions {regs})")
        # returned cleartext = (decryption of) exactly one authenticated, non-tag region
        data = ret
        if isinstance(data, tuple) and data and data[0] == "ENC":
            data = data[2]
        elif isinstance(data, tuple) and data and data[0] == "AEAD_DEC":
            data = data[4]
        if not (isinstance(data, tuple) and data and data[0] == "sl" and data[1] == ("in", "payload")
                and (data[2], data[3]) in regs and (data[2], data[3]) not in tsl):
            probs1.append(f"returned cleartext {fmt_n(ret)[:160]} is not (the decryption of) exactly one authenticated non-tag region")
    else:
        probs1.append("no verification")
    ctx.add("R02.1", f"C02/R02.1/{key}", not probs1, "; ".join(probs1), site, {"minlen": str(r.path.minlen)})
    # ---------------- R02.2 coverage
    probs2 = []
    if vt is not None:
        auth_side = vt[2] if vt[0] == "VERIFY" else vt[3]
        tag_side = vt[3] if vt[0] == "VERIFY" else vt[4]
        paes = pae_terms(auth_side)
        if len(paes) != 1:
            probs2.append(f"expected one PAE in the authenticated transcript, found {len(paes)}")
        else:
            pieces = paes[0][1]
            flat = [tuple(pc) for pc in pieces]
            def piece_is(pc, term):
                return len(pc) == 1 and pc[0] == term
            hdr = (("b", VHEADER[be]), ("in", "encoding"), ("b", b".local." if purpose == "Local" else b".public."))
            if hdr not in flat:
                probs2.append(f"header piece {fmt_n(('PAE',(hdr,)))} missing; pieces: {fmt_n(paes[0])[:300]}")
            if not any(piece_is(pc, ("in", "footer")) for pc in flat):
                probs2.append("footer is not an authenticated piece of its own")
            if HAS_AAD[be]:
                if not any(piece_is(pc, ("in", "aad")) for pc in flat):
                    probs2.append("implicit assertion is not an authenticated piece of its own")
                elif not piece_is(flat[-1], ("in", "aad")):
                    probs2.append("implicit assertion is not the last piece")
            tsl, _ = payload_slices(tag_side)
            for s_ in regs:
                if s_ in tsl:
                    continue
                st = ("sl", ("in", "payload"), s_[0], s_[1])
                if not any(piece_is(pc, st) for pc in flat):
                    if vt[0] == "VERIFY" and vt[1] == "aead" and contains(auth_side[4], st):
                        continue
                    probs2.append(f"payload region {s_} is not authenticated as a piece of its own")
            for pc in flat:
                for fr in pc:
                    if fr == ("in", "payload"):
                        probs2.append("a PAE piece is the whole payload including the tag")
    ctx.add("R02.2", f"C02/R02.2/{key}", not probs2, "; ".join(probs2), site)
    # ---------------- R02.4 gate: on every path a decrypt / Ok exit is preceded by a successful verification
    probs4 = []
    for p in run.results:
        ver_idx = None
        for i, e in enumerate(p.path.events):
            if e["kind"] == "call" and any(v in e["name"].lower() for v in VERIFY_NAMES):
                t = run.norm.n(("call", e["name"], tuple(e["vals"])))
                if isinstance(t, tuple) and t[0] in ("VERIFY", "VERIFYSIG") and ver_idx is None:
                    ver_idx = i
            if e["kind"] == "xor":
                tgt = e.get("target")
                data = run.norm.n(e.get("data"))
                touches = payload_slices(data)[0] or payload_slices(data)[1]
                if touches and ver_idx is None:
                    probs4.append(f"in-place decryption ({e['name'][:60]}) before any verification")
            if e["kind"] == "copy" and ver_idx is None and _targets_payload(e.get("target")):
                probs4.append("copy into the payload before any verification")
        if p.kind == "return" and p.okness is not False and ver_idx is None:
            probs4.append("an Ok exit is reachable without a verification")
    # the verification result must decide the exit: there is an Err path whose last guard is the verification
    if vt is not None:
        has_fail = False
        for p in run.err_paths:
            if p.path.guards:
                gc = repr(run.norm.n(p.path.guards[-1]["cond"]))
                if "VERIFY" in gc:
                    has_fail = True
        if not has_fail:
            probs4.append("no Err exit is controlled by the verification result (result ignored?)")
    ctx.add("R02.4", f"C02/R02.4/{key}", not probs4, "; ".join(sorted(set(probs4))), site)
    # ---------------- R02.5 aad handling
    probs5 = []
    if not HAS_AAD[be]:
        g0 = r.path.guards[0] if r.path.guards else None
        c0 = run.norm.n(g0["cond"]) if g0 else None
        if not (c0 is not None and "is_empty" in repr(c0) and "'aad'" in repr(c0)):
            probs5.append(f"first branch of unseal is not the aad emptiness test (is {fmt_n(c0)[:120] if c0 else None})")
        else:
            # the non-empty arm must be an Err exit with no event before it
            errs = [p for p in run.err_paths if p.path.guards and len(p.path.guards) == 1]
            if not errs:
                probs5.append("no Err exit directly under the aad test")
            for p in errs:
                evs = [e for e in p.path.events if e["kind"] in ("call", "xor", "pae", "split")]
                if evs:
                    probs5.append("work is done before the aad refusal")
        pre = [e for e in r.path.events if e["kind"] in ("call", "xor", "pae", "split", "enter")]
        # first event index vs guard: guards are recorded in order; ensure guard site precedes first event's block
    else:
        if vt is not None and not contains(vt, ("in", "aad")):
            probs5.append("the implicit assertion does not reach the verification")
    ctx.add("R02.5", f"C02/R02.5/{key}", not probs5, "; ".join(probs5), site)
    # ---------------- R02.6 key binding
    probs6 = []
    if vt is not None:
        if vt[0] == "VERIFY":
            a = vt[2]
            keyterm = a[2] if a[0] == "MAC" else (a[1] if a[0] == "AEAD_TAG" else None)
            if keyterm is None or not contains(keyterm, ("in", "key")):
                probs6.append(f"MAC/AEAD key {fmt_n(keyterm)[:200] if keyterm else None} does not derive from the key parameter")
        else:
            pk = vt[2]
            if not contains(pk, ("in", "key")):
                probs6.append(f"verification key {fmt_n(pk)[:200]} does not derive from the key parameter")
    ctx.add("R02.6", f"C02/R02.6/{key}", not probs6, "; ".join(probs6), site)
    if not (probs1 or probs2 or probs3 or probs4 or probs5 or probs6):
        ctx.sample({"backend": be, "purpose": purpose, "verification": fmt_n(vt)[:500], "returns": fmt_n(ret)[:200]})

def check_core_plumbing(ctx):
    w = ctx.world
    g = core_fn(w, "tokens::SealedToken::<V, P, M, F>::unseal")
    if g is None:
        ctx.add("R02.7", "C02/R02.7/core-unseal", False, "anchor missing")
        return
    run = Run(w, g)
    probs = []
    calls = []
    for r in run.results:
        for e in r.path.events:
            if e["kind"] == "call" and e["name"].endswith("UnsealingVersion<P>>::unseal"):
                calls.append((r, e))
    if not calls:
        probs.append("SealedToken::unseal never calls V::unseal")
    for r, e in calls[:1]:
        vals = [run.norm.n(v) for v in e["vals"]]
        want = [("fld", ("in", "key"), 0), ("aconst", "Payload::SUFFIX", "M"),
                ("fld", ("in", "self"), 0), ("fld", ("in", "self"), 1), ("in", "aad")]
        for i, (v, wv) in enumerate(zip(vals, want)):
            if v != wv:
                probs.append(f"argument {i} of V::unseal is {fmt_n(v)[:120]}, expected {fmt_n(wv)}")
    ctx.add("R02.7", "C02/R02.7/core-unseal", not probs, "; ".join(probs), site_of(g))

DENY_VERIFY = {("ed25519-dalek", "legacy_compatibility"): "ed25519-dalek accepts non-canonical signature scalars (s + l) when `legacy_compatibility` is on: a modified token verifies"}
DENY_JSON = {("serde_json", "arbitrary_precision"): "serde_json represents numbers as a private map when `arbitrary_precision` is on: floats inside flattened / tagged payload types no longer decode",
             ("serde_json", "unbounded_depth"): "removes serde_json's recursion limit: deeply nested unauthenticated JSON can exhaust the stack"}

def check_manifest_features(ctx, DENY=None, rule="R02.9", key="C02/R02.9/manifest-features"):
    # dependency features that change what is accepted / how data decodes must not be enabled by any workspace manifest
    import tomllib, glob as _glob, extract as _ex
    repo = getattr(ctx, "repo", None) or _ex.REPO
    DENY = DENY or DENY_VERIFY
    bad = []
    nman = 0
    for mf in sorted(_glob.glob(os.path.join(repo, "*", "Cargo.toml")) + [os.path.join(repo, "Cargo.toml")]):
        try:
            with open(mf, "rb") as fh:
                t = tomllib.load(fh)
        except Exception as e:
            bad.append(f"{os.path.relpath(mf, repo)}: cannot parse ({e})")
            continue
        nman += 1
        enabled = set()
        for sec in ("dependencies", "dev-dependencies", "build-dependencies"):
            for dep, spec in (t.get(sec) or {}).items():
                if isinstance(spec, dict):
                    name = spec.get("package", dep)
                    for ft in spec.get("features", []) or []:
                        enabled.add((name, ft))
        for wdep, spec in ((t.get("workspace") or {}).get("dependencies") or {}).items():
            if isinstance(spec, dict):
                for ft in spec.get("features", []) or []:
                    enabled.add((spec.get("package", wdep), ft))
        for fname, lst in (t.get("features") or {}).items():
            for x in lst:
                m = re.match(r"([A-Za-z0-9_-]+)\??/(.+)$", x)
                if m:
                    enabled.add((m.group(1), m.group(2)))
        for (d, ft), why in DENY.items():
            if (d, ft) in enabled:
                bad.append(f"{os.path.relpath(mf, repo)} enables {d}/{ft}: {why}")
    ctx.add(rule, key, nman >= 8 and not bad, "; ".join(bad) or ("" if nman >= 8 else f"only {nman} manifests found"), None, {"manifests": nman})

def _targets_payload(loc):
    """The written location is (a region of) the caller's payload buffer — not a local scratch array."""
    seen = 0
    while isinstance(loc, tuple) and loc and seen < 8:
        if loc[0] == "P":
            return len(loc) > 2 and loc[2] == "payload"
        if loc[0] in ("R", "R?", "V", "F", "IDX", "D") and len(loc) > 1:
            loc = loc[1]
            seen += 1
            continue
        return False
    return True      # unknown target: stay conservative

def run(ctx):
    for be in BACKENDS:
        for purpose in ("Local", "Public"):
            check_backend(ctx, be, purpose)
    check_core_plumbing(ctx)
    # R02.8 (shared with C09 R09.1/R09.2 for the token text form): the bytes that are authenticated are exactly what the text
    # says — FromStr strips only its own constants and hands the whole remainder to the strict base64 decoder (no trim, no slicing)
    check_manifest_features(ctx)
    import c09
    class Scratch:
        def __init__(s): s.findings = []; s.world = ctx.world; s.crates = ctx.crates; s.analysed = {"functions": 0, "paths": 0, "call_sites": 0}; s.notes = []; s.tier = ctx.tier
        def add(s, rule, k, ok, detail="", site=None, facts=None): s.findings.append((rule, k, ok, detail, site))
        def sample(s, x): pass
    sc = Scratch()
    c09.run(sc)
    for (rule, k, ok, detail, site) in sc.findings:
        if k in ("C09/mirror/SealedToken", "C09/remainder/SealedToken"):
            ctx.add("R02.8", "C02/R02.8/" + k.split("/", 1)[1], ok, detail, site)


# ---- R02.10 (shared with C17 R17.4): no static / thread-local state in the library crates, so the verification key is derived
# from the key parameter of THIS call (a process-wide cache of a key-derived value would make the first key win)
_run_c02 = run
def run(ctx):
    _run_c02(ctx)
    import shared
    shared.share(ctx, "c17", lambda r, k: r == "R17.4", "R02.10", "C02/no-shared-state/")
FLOORS["R02.10"] = 8

# ---- R02.11 (shared with C15 R15.1 / R15.2): "moving bytes across the message / footer / assertion boundaries" is excluded only
# if the pre-authentication encoding is injective: the exact PAE construction (count, then per piece its full 64-bit little-endian
# length followed by its bytes) and exact writers. Every backend authenticates through this one function.
_run_c02b = run
def run(ctx):
    _run_c02b(ctx)
    import shared
    shared.share(ctx, "c15", lambda r, k: r in ("R15.1", "R15.2"), "R02.11", "C02/pae-injective/")
FLOORS["R02.11"] = 14
