"""C15 — pre-authentication encoding is exactly the spec's PAE and is injective."""
from ops import *
from norm import fn as fmt_n
from runner import site_of
from termutil import *
import cfg
from origins import Origins

EXPLANATION = (
    "R15.1 shape of pre_auth_encode on its MIR (loops are handled by CFG/def-use rules, not path enumeration): exactly three write "
    "sites on the `out` parameter; W0, outside every loop, writes u64::to_le_bytes(N as u64) unmodified; W1, in the outer loop only, "
    "writes u64::to_le_bytes(S) where S is the sum over the current piece's fragments of len() as u64, and dominates W2 in the "
    "iteration; W2, in the inner loop, forwards each fragment unchanged; both loops iterate forward with plain IntoIterator/Iterator::next "
    "(no rev/skip/filter/take adapters); the only branches are the two loop-exit tests, so no piece or fragment is conditionally "
    "skipped. R15.2: every WriteBytes impl in the workspace (and the io::Write adapter of paseto-json) makes, on its single path, "
    "exactly one forwarding call with the unmodified slice (no buffering, reordering, truncation). R15.3: every PAE call site passes "
    "pieces in spec order (decided under C03/C07 T-SPEC and C02/C06 coverage; their results are referenced). Injectivity is the "
    "mathematical consequence of the length-prefixed format and is stated, not re-proved.")
ASSUMPTIONS = ["rustc type checking / MIR construction are correct", "u64::to_le_bytes, slice::Iter and array::IntoIter behave as documented"]
FLOORS = {"R15.1": 1, "R15.2": 13, "R15.3": 12}

FORWARDERS = ("digest::mac::Mac::update", "digest::Update::update", "digest::digest::Digest::update", "aws_lc_rs::hmac::Context::update",
              "aws_lc_rs::digest::Context::update", "libsodium_rs::crypto_generichash::State::update", "ed25519_dalek::verifying::stream::StreamVerifier::update",
              "alloc::vec::Vec::<T, A>::extend_from_slice", "encodings::WriteBytes::write", "paseto_core::encodings::WriteBytes::write")

def check_pae(ctx):
    core = ctx.crates["paseto_core"]
    f = core.fns.get("pae::pre_auth_encode")
    probs = []
    if f is None:
        ctx.add("R15.1", "C15/pae-shape", False, "anchor missing: pae::pre_auth_encode")
        return
    body = f["body"]
    dom, pred = cfg.dominators(body)
    lps = cfg.loops(body)
    og = Origins(f)
    writes = og.call_sites(lambda ce: ce["path"].endswith("encodings::WriteBytes::write"))
    if len(writes) != 3:
        probs.append(f"{len(writes)} write sites, expected 3 (count, piece length, fragment)")
    headers = sorted(lps, key=lambda h: len(lps[h]), reverse=True)
    if len(headers) != 2 or not (lps[headers[1]] < lps[headers[0]]):
        probs.append(f"expected two nested loops, found {len(headers)}")
    # branches: only the two iterator-exhaustion tests
    sw = [bi for bi, b in enumerate(body["blocks"]) if bi in dom and b["term"]["k"] == "switch"]
    nexts = og.call_sites(lambda ce: ce["path"] == "core::iter::traits::iterator::Iterator::next")
    if len(sw) != 2 or len(nexts) != 2:
        probs.append(f"{len(sw)} branches / {len(nexts)} Iterator::next calls, expected exactly the two loop-exit tests")
    else:
        for bi in sw:
            d = body["blocks"][bi]["term"]["discr"]
            t = og.operand(d, 0)
            if not (isinstance(t, tuple) and t[0] == "discr" and isinstance(t[1], tuple) and t[1][0] == "call" and t[1][2] == "core::iter::traits::iterator::Iterator::next"):
                probs.append("a branch is not an iterator-exhaustion test: " + repr(t)[:160])
    if not probs:
        outer, inner = lps[headers[0]], lps[headers[1]]
        w0 = [w for w in writes if w[0] not in outer]
        w1 = [w for w in writes if w[0] in outer and w[0] not in inner]
        w2 = [w for w in writes if w[0] in inner]
        if not (len(w0) == len(w1) == len(w2) == 1):
            probs.append(f"write sites are not one before the loops, one per piece, one per fragment ({len(w0)},{len(w1)},{len(w2)})")
        else:
            def arg(w, i):
                return og.operand(w[1]["args"][i], 0)
            for nm, w in (("W0", w0[0]), ("W1", w1[0]), ("W2", w2[0])):
                recv = arg(w, 0)
                if recv != ("ref", ("arg", 2, "out")):
                    probs.append(f"{nm} does not write to the `out` parameter: {recv}")
            a0 = arg(w0[0], 1)
            want0 = ("ref", ("call", "core::num::<impl u64>::to_le_bytes", "core::num::<impl u64>::to_le_bytes", (("cast", "IntToInt", ("constparam", "usize"), "u64"),)))
            if a0 != want0:
                probs.append("W0 does not write (N as u64).to_le_bytes() unmodified: " + repr(a0)[:300])
            a1 = arg(w1[0], 1)
            ok1 = (isinstance(a1, tuple) and a1[0] == "ref" and isinstance(a1[1], tuple) and a1[1][0] == "call" and a1[1][2] == "core::num::<impl u64>::to_le_bytes")
            if not ok1:
                probs.append("W1 does not write u64::to_le_bytes(..) unmodified: " + repr(a1)[:300])
            else:
                s_ = a1[1][3][0]
                # S = sum(map(iter(piece), |x| x.len() as u64))
                oks = (isinstance(s_, tuple) and s_[0] == "call" and s_[2] == "core::iter::traits::iterator::Iterator::sum"
                       and isinstance(s_[3][0], tuple) and s_[3][0][0] == "call" and s_[3][0][2] == "core::iter::traits::iterator::Iterator::map")
                if not oks:
                    probs.append("piece length is not the sum of a map over the piece's fragments: " + repr(s_)[:300])
                else:
                    m = s_[3][0]
                    it_, clo = m[3][0], m[3][1]
                    piece = ("variant", ("call", "<IntoIter<&[&[u8]], N> as Iterator>::next", "core::iter::traits::iterator::Iterator::next", None), "Some")
                    okit = isinstance(it_, tuple) and it_[0] == "call" and it_[2] == "core::slice::<impl [T]>::iter"
                    if not okit:
                        probs.append("length is not computed over a forward iteration of the piece: " + repr(it_)[:200])
                    cf = core.fns.get(clo[1][len("closure:"):]) if isinstance(clo, tuple) and clo[0] == "agg" and clo[1].startswith("closure:") else None
                    if cf is None:
                        probs.append("length closure not found")
                    else:
                        co = Origins(cf)
                        ret = co.local(0)
                        wantc = ("cast", "IntToInt", ("call", "core::slice::<impl [u8]>::len", "core::slice::<impl [T]>::len", (("deref", ("deref", ("arg", 2, "x"))),)), "u64")
                        if not (isinstance(ret, tuple) and ret[0] == "cast" and ret[1] == "IntToInt" and ret[3] == "u64" and isinstance(ret[2], tuple) and ret[2][0] == "call"
                                and ret[2][2] == "core::slice::<impl [T]>::len"):
                            probs.append("length closure is not |x| x.len() as u64: " + repr(ret)[:200])
            a2 = arg(w2[0], 1)
            # fragment = *(inner_next as Some).0 forwarded unchanged
            def is_next_item(t):
                return (isinstance(t, tuple) and t[0] == "field" and t[2] == 0 and isinstance(t[1], tuple) and t[1][0] == "variant" and t[1][2] == "Some"
                        and isinstance(t[1][1], tuple) and t[1][1][0] == "call" and t[1][1][2] == "core::iter::traits::iterator::Iterator::next")
            x = a2
            while isinstance(x, tuple) and x[0] in ("ref", "deref"):
                x = x[1]
            if not is_next_item(x):
                probs.append("W2 does not forward the iterator's fragment unchanged: " + repr(a2)[:300])
            if not cfg.dominates(dom, w1[0][0], w2[0][0]):
                probs.append("the piece length (W1) does not dominate the fragment writes (W2)")
        # iterators: into_iter of the pieces parameter / of the current piece, with no adapter in between
        its = og.call_sites(lambda ce: ce["path"] == "core::iter::traits::collect::IntoIterator::into_iter")
        if len(its) != 2:
            probs.append(f"{len(its)} into_iter calls, expected 2")
        else:
            srcs = [og.operand(t["args"][0], 0) for _, t in its]
            if ("arg", 1, "pieces") not in srcs:
                probs.append("outer loop does not iterate the `pieces` parameter directly: " + repr(srcs)[:200])
            full = [t["callee"].get("r_full") or t["callee"].get("full") for _, t in its]
            if not any("core::array::iter" in (x or "") for x in full) or not any("core::slice::iter" in (x or "") for x in full):
                probs.append("iteration is not array::IntoIter over pieces and slice::Iter over fragments: " + str([short(x or '?') for x in full]))
        adapters = og.call_sites(lambda ce: ce["path"].startswith("core::iter::traits::iterator::Iterator::") and ce["path"].rsplit("::", 1)[1] not in ("next", "map", "sum"))
        if adapters:
            probs.append("iterator adapters in pre_auth_encode: " + str([t["callee"]["path"] for _, t in adapters]))
        # for loops feed next() from the into_iter result directly
        for _, t in nexts:
            recv = og.operand(t["args"][0], 0)
            x = recv
            while isinstance(x, tuple) and x[0] in ("ref", "deref"):
                x = x[1]
            if not (isinstance(x, tuple) and x[0] == "call" and x[2] == "core::iter::traits::collect::IntoIterator::into_iter"):
                probs.append("a loop does not call next() on the plain into_iter() result: " + repr(x)[:160])
    ctx.add("R15.1", "C15/pae-shape", not probs, "; ".join(probs)[:1800], site_of(f))

def check_writers(ctx):
    w = ctx.world
    n = 0
    for cn, cr in ctx.crates.items():
        for k, f in cr.fns.items():
            it = f.get("impl_trait") or ""
            is_wb = it.endswith("encodings::WriteBytes") and f.get("name") == "write"
            is_io = it == "std::io::Write" and f.get("name") == "write" and cn == "paseto_json"
            if not (is_wb or is_io):
                continue
            n += 1
            probs = []
            itp = Interp(w, inline=False)
            res = itp.run(f)
            nm = Norm()
            if len(res) != 1 or res[0].kind != "return":
                probs.append(f"{len(res)} paths (a forwarding writer has a single straight-line path)")
            else:
                r = res[0]
                evs = [e for e in r.path.events if e["kind"] in ("call", "append", "copy", "truncate", "xor", "pae")]
                fw = [e for e in evs if (e.get("path") or "") in FORWARDERS or (e.get("r_path") or "") in FORWARDERS]
                if len(evs) != 1 or len(fw) != 1:
                    probs.append(f"body makes calls {[e['name'][:50] for e in evs]}, expected exactly one forwarding call")
                else:
                    e = fw[0]
                    data = nm.n(e["vals"][1])
                    pname = f["body"]["locals"][2].get("name", "slice")
                    if data != ("in", pname):
                        probs.append("the forwarded data is not the unmodified input slice: " + fmt_n(data)[:120])
                    recv = nm.n(e["vals"][0])
                    if not contains(recv, ("in", "self")):
                        probs.append("the forwarding target does not derive from self: " + fmt_n(recv)[:120])
                if is_io:
                    ret = nm.n(r.ret)
                    want = ("agg", "adt:Result::Ok", (("len", ("in", f["body"]["locals"][2].get("name", "buf"))),))
                    if ret != want:
                        probs.append("io::Write::write does not report the whole buffer as written: " + fmt_n(ret)[:120])
            ctx.add("R15.2", f"C15/writer/{cn}/{k.split(' as ')[0].lstrip('<').split('::')[-1][:40]}/{k.count('#')}{'' if is_wb else '/io'}" + (f"@{k.split('::')[1]}" if '::' in k else ""), not probs, "; ".join(probs), site_of(f))
    if n == 0:
        ctx.add("R15.2", "C15/writer/none", False, "no WriteBytes impls found")

def check_call_sites(ctx):
    """R15.3 (shared with C03 R03.1): at every token PAE call site the pieces are the specification's pieces in the specification's
    order (header = version ‖ encoding suffix ‖ purpose as one piece, then nonce / message, footer, implicit assertion)."""
    import c03
    class Scratch:
        def __init__(s): s.findings = []; s.world = ctx.world; s.crates = ctx.crates; s.analysed = {"functions": 0, "paths": 0, "call_sites": 0}; s.notes = []; s.tier = ctx.tier; s.facts_dir = ctx.facts_dir
        def add(s, rule, k, ok, detail="", site=None, facts=None): s.findings.append((rule, k, ok, detail, site))
        def sample(s, x): pass
    sc = Scratch()
    c03.run(sc)
    for (rule, k, ok, detail, site) in sc.findings:
        if rule == "R03.1":
            ctx.add("R15.3", "C15/pae-call-site/" + k.split("/", 2)[-1], ok, detail, site)

def run(ctx):
    check_pae(ctx)
    check_writers(ctx)
    check_call_sites(ctx)
