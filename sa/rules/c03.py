import re
"""C03 — tokens are bit-exact PASETO: construction equals the specification; sibling backends agree."""
from ops import *
from norm import fn as fmt_n
from runner import site_of
from termutil import *
import spec

EXPLANATION = (
    "T-SPEC/T-SIB on symbolic summaries. R03.1: for the 6 local backends the normalised term the sealing function returns "
    "(nonce derivation, KDF calls with their separators and split points, cipher identity *including CTR counter width*, "
    "MAC, PAE piece order, output layout) must equal the hand-transcribed specification term of its version; for the 6 public "
    "backends the signature scheme, the signed message (PAE piece list, v3: compressed public key first, SHA-384 pre-hash) and the "
    "output layout message||signature must equal the specification. R03.2: the two v3 and the two v4 backends must produce "
    "identical normalised terms (key representations abstracted; listed spec-neutral deltas only). R03.4: every Err exit of an "
    "unseal function is controlled by a condition the specification states (length, unsupported assertion in v1/v2, signature "
    "parse, the verification itself, or a library-reported cipher error) — anything else makes a backend stricter than its "
    "sibling/spec. Decides construction identity; does not decide that a library's primitive computes the standard function.")
ASSUMPTIONS = ["rustc type checking / MIR construction are correct",
               "the specification tables in sa/spec.py (hand-transcribed; consistent with the spec vectors the repo's suite passes)",
               "library primitives named X compute the standard function X",
               "contract table for lc::*"]
FLOORS = {"R03.1": 12, "R03.2": 4, "R03.4": 12}

VERSION_OF = {"v1": "v1", "v2": "v2", "v3": "v3", "v3-aws-lc": "v3", "v4": "v4", "v4-sodium": "v4"}
SIBLINGS = [("v3", "v3-aws-lc"), ("v4", "v4-sodium")]

def seal_out(w, be, purpose):
    f = find_impl_fn(w, BACKENDS[be], "::SealingVersion", "dangerous_seal_with_nonce", purpose)
    if f is None:
        return None, None, None
    run = Run(w, f)
    oks = run.ok_paths
    if len(oks) != 1:
        return f, run, None
    return f, run, run.norm.n(run.ret_value(oks[0]))

def abstract_keys(t):
    """Replace library-specific secret-key identifiers by a neutral token (for sibling comparison)."""
    if isinstance(t, tuple):
        if t and t[0] in ("dalek-esk", "sodium-sk", "p384-sk", "lc-sk", "rsa-sk"):
            return ("SK",)
        if t and t[0] == "SIG-lowS":
            return abstract_keys(t[1])
        if t and t[0] == "SIG" and len(t) == 5:
            return ("SIG", t[1], abstract_keys(t[2]), abstract_keys(t[3]))
        return tuple(abstract_keys(x) for x in t)
    return t

def run(ctx):
    w = ctx.world
    outs = {}
    for be in BACKENDS:
        ver = VERSION_OF[be]
        # ---------- local
        f, run_, out = seal_out(w, be, "Local")
        key = f"{be}/local"
        if out is None:
            ctx.add("R03.1", f"C03/spec/{key}", False, "no single success path / anchor missing", site_of(f) if f else None)
        else:
            want = spec.local_seal(ver)
            d = spec.diff(out, want)
            ctx.add("R03.1", f"C03/spec/{key}", out == want, "; ".join(d), site_of(f), {"code": fmt_n(out)[:900]})
            outs[(be, "Local")] = out
            if out == want:
                ctx.sample({"backend": be, "op": "local seal", "term": fmt_n(out)[:500]})
        # ---------- public
        f, run_, out = seal_out(w, be, "Public")
        key = f"{be}/public"
        if out is None:
            ctx.add("R03.1", f"C03/spec/{key}", False, "no single success path / anchor missing", site_of(f) if f else None)
        else:
            probs = []
            parts = list(out[1]) if out[0] == "cat" else [out]
            if len(parts) != 2 or parts[0] != ("in", "payload"):
                probs.append("output is not payload || signature: " + fmt_n(out)[:300])
            else:
                sig = parts[1]
                lows = False
                while isinstance(sig, tuple) and sig and sig[0] == "SIG-lowS":
                    sig = sig[1]; lows = True
                if not (isinstance(sig, tuple) and sig[0] == "SIG"):
                    probs.append("second part is not a signature: " + fmt_n(sig)[:200])
                else:
                    scheme, skid, msg = sig[1], sig[2], sig[3]
                    pkpiece = ("ENCPUB", ("PUB", scheme, skid))
                    wscheme, wmsg = spec.public_message(ver, pkpiece)
                    if scheme != wscheme:
                        probs.append(f"signature scheme {scheme}, spec {wscheme}")
                    if be == "v3-aws-lc" and isinstance(msg, tuple) and msg[0] == "prehashed":
                        # FFI takes the digest bytes: prehashed(H(SHA-384, m)) == digest(SHA-384, m)
                        h = msg[1]
                        if isinstance(h, tuple) and h[0] == "H":
                            msg = ("digest", h[1], h[2])
                    if msg != wmsg:
                        probs += spec.diff(msg, wmsg)
                    if run_.norm.width(parts[1]) != spec.SIG_WIDTH[ver]:
                        probs.append(f"signature width {run_.norm.width(parts[1])}, spec {spec.SIG_WIDTH[ver]}")
            ctx.add("R03.1", f"C03/spec/{key}", not probs, "; ".join(probs), site_of(f), {"code": fmt_n(out)[:900]})
            outs[(be, "Public")] = out
    # ---------- R03.2 siblings
    for a, b in SIBLINGS:
        for purpose in ("Local", "Public"):
            oa, ob = outs.get((a, purpose)), outs.get((b, purpose))
            if oa is None or ob is None:
                ctx.add("R03.2", f"C03/sibling/{a}~{b}/{purpose.lower()}", False, "summary missing")
                continue
            na, nb = abstract_keys(oa), abstract_keys(ob)
            if purpose == "Public" and b == "v3-aws-lc":
                # prehashed(H(..)) vs digest(..)
                def fix(t):
                    if isinstance(t, tuple):
                        if t and t[0] == "prehashed" and isinstance(t[1], tuple) and t[1][0] == "H":
                            return ("digest", t[1][1], fix(t[1][2]))
                        return tuple(fix(x) for x in t)
                    return t
                nb = fix(nb)
            d = spec.diff(na, nb)
            ctx.add("R03.2", f"C03/sibling/{a}~{b}/{purpose.lower()}", na == nb,
                    "; ".join(x.replace("code has", a + " has").replace("spec has", b + " has") for x in d))
    # ---------- R03.4 unseal Err exits
    for be in BACKENDS:
        for purpose in ("Local", "Public"):
            f = find_impl_fn(w, BACKENDS[be], "::UnsealingVersion", "unseal", purpose)
            key = f"{be}/{purpose.lower()}"
            if f is None:
                ctx.add("R03.4", f"C03/unseal-exits/{key}", False, "anchor missing")
                continue
            run_ = Run(w, f)
            bad = []
            classes = {}
            for r in run_.err_paths:
                cls = classify_unseal_exit(run_, r)
                classes[cls[0]] = classes.get(cls[0], 0) + 1
                if cls[0] == "unstated":
                    bad.append(cls[1])
            for r in run_.other_paths:
                if r.kind != "diverge":
                    bad.append(f"non-returning path {r.kind}")
            ctx.add("R03.4", f"C03/unseal-exits/{key}", not bad, "; ".join(sorted(set(bad)))[:1200], site_of(f), {"classes": classes})

def _plumbing(ctx):
    """R03.5: paseto-core hands the received payload / footer bytes, assertion and key to the backend unmodified
    (otherwise a conforming token is authenticated against different bytes than it carries)."""
    import c02
    class S:
        def __init__(s): s.f = []; s.world = ctx.world
        def add(s, rule, k, ok, detail="", site=None, facts=None): s.f.append((ok, detail, site))
    s = S()
    c02.check_core_plumbing(s)
    for ok, detail, site in s.f:
        ctx.add("R03.5", "C03/core-unseal-plumbing", ok, detail, site)

_run1 = run
def _parser(ctx):
    """R03.6 (shared with C09 R09.1/R09.2 for the token text form): every conforming token text is accepted — the parser strips the
    header constants, base64-decodes the whole remainder into a Vec of whatever size (no fixed buffer, no trim) and nothing else."""
    import c09
    class Scratch:
        def __init__(s): s.findings = []; s.world = ctx.world; s.crates = ctx.crates; s.analysed = {"functions": 0, "paths": 0, "call_sites": 0}; s.notes = []; s.tier = ctx.tier
        def add(s, rule, k, ok, detail="", site=None, facts=None): s.findings.append((rule, k, ok, detail, site))
        def sample(s, x): pass
    sc = Scratch()
    c09.run(sc)
    for (rule, k, ok, detail, site) in sc.findings:
        if k in ("C09/mirror/SealedToken", "C09/remainder/SealedToken"):
            ctx.add("R03.6", "C03/token-parser/" + k.split("/")[1], ok, detail, site)

def _shared_more(ctx):
    """R03.7 (shared with C09 R09.7): the token text is the one-pass base64url of the payload. R03.8 (shared with C08 R08.3): a
    cloned key is the same key component by component, so it produces the same tokens."""
    import b64rules, c08
    class Scratch:
        def __init__(s): s.findings = []; s.world = ctx.world; s.crates = ctx.crates; s.analysed = {"functions": 0, "paths": 0, "call_sites": 0}; s.notes = []; s.tier = ctx.tier; s.facts_dir = ctx.facts_dir
        def add(s, rule, k, ok, detail="", site=None, facts=None): s.findings.append((rule, k, ok, detail, site))
        def sample(s, x): pass
    sc = Scratch()
    b64rules.check_encoder(sc)
    for (rule, k, ok, detail, site) in sc.findings:
        ctx.add("R03.7", "C03/text-encoder/" + k.rsplit("/", 1)[-1], ok, detail, site)
    sc = Scratch()
    c08.run(sc)
    for (rule, k, ok, detail, site) in sc.findings:
        if rule == "R08.3":
            ctx.add("R03.8", "C03/clone/" + k.split("/", 1)[-1], ok, detail, site)

def run(ctx):
    _run1(ctx)
    _plumbing(ctx)
    _parser(ctx)
    _shared_more(ctx)
FLOORS["R03.5"] = 1
FLOORS["R03.6"] = 2
FLOORS["R03.7"] = 2
FLOORS["R03.8"] = 4

PARSE_OK = ("ed25519::Signature::from_bytes", "ecdsa::Signature::<NistP384>::from_bytes", "<Signature as TryFrom<&[u8]>>::try_from",
            "lc::Signature::from_bytes", "ed25519_dalek::verifying::VerifyingKey::verify_stream")
LIBERR = ("aws_lc_rs::", "libsodium_rs::", "lc::VerifyingKey::verify", "<XChaCha20Poly1305")

def classify_unseal_exit(run, r):
    cause = r.path.err_cause
    g = r.path.guards[-1] if r.path.guards else None
    if cause is None:
        c = run.norm.n(g["cond"]) if g else None
        s = repr(c)
        if "is_empty" in s and "'aad'" in s:
            return ("assertion-unsupported", s)
        if isinstance(c, tuple) and c[0] == "binop" and c[1] in ("Lt", "Le", "Gt", "Ge") and "len" in s and "'payload'" in s:
            return ("length", s)
        if "VERIFY" in s:
            return ("verification", s)
        return ("unstated", "Err exit under condition " + fmt_n(c)[:200])
    n = run.norm.n(cause)
    s = repr(n)
    if isinstance(cause, tuple) and cause[0] == "split":
        return ("length", s[:100])
    if isinstance(cause, tuple) and cause[0] == "tryarray":
        return ("length", s[:100])
    if isinstance(n, tuple) and n and n[0] in ("VERIFY", "VERIFYSIG"):
        return ("verification", "")
    if isinstance(cause, tuple) and cause[0] == "fallible":
        return ("library-reported", cause[2])
    if isinstance(n, tuple) and n and n[0] == "call" and re.search(r"core::num::<impl usize>::(checked_sub|checked_add)$", n[1]) \
            and "len" in s and "payload" in s and all(isinstance(a, tuple) and a and a[0] in ("int", "len") for a in n[2]):
        # `payload.len().checked_sub(K)` failing is the length condition  len < K
        return ("length", s[:100])
    if isinstance(n, tuple) and n and n[0] == "call":
        if any(n[1].startswith(p) for p in PARSE_OK):
            return ("signature-parse", n[1])
        if any(n[1].startswith(p) for p in LIBERR):
            return ("library-reported", n[1])
    if isinstance(n, tuple) and n and n[0] in ("SINK", "HKDF", "HKDFOKM", "CIPHER", "H", "MAC", "ok"):
        return ("library-reported", n[0])
    # signature parse results normalise to the byte region itself
    if isinstance(n, tuple) and n and n[0] == "sl" and n[1] == ("in", "payload"):
        return ("signature-parse", "")
    return ("unstated", "Err exit caused by " + fmt_n(n)[:200])
