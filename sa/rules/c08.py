import re
"""C08 — keys survive serialisation unchanged; secret keys derive the matching public key; malformed keys are rejected."""
from ops import *
from norm import fn as fmt_n
from runner import site_of
from termutil import *
import keyrules, c10

EXPLANATION = (
    "R08.1: every HasKey::decode success path is closed by an exact-length test of the kind's width (shared with C10), and "
    "R08.1b: HasKey::encode applied to the key a decode path returns yields the input bytes again, up to a table of library "
    "parse/serialise pairs that are mutually inverse (so a decoder that canonicalises, truncates or re-derives the encoding is "
    "reported). R08.2: every decode success path passes a validating constructor for its key type (Ed25519 point decompression; "
    "SEC1 point / scalar-range parse for P-384 on both backends; RSA DER/PEM parse plus the exact modulus size), and every Ed25519 "
    "secret-key decoder re-derives the public half from the seed and compares it with the embedded half. R08.3: manual Clone impls map "
    "each component to the same component. R08.5: the public key derived from a secret key is the scheme's public key of that very "
    "secret (and equals the half embedded by encode where there is one). R08.6: Key::from_str is KeyText::from_str then decode; "
    "Display for public keys prints expose_key(); KeyText stores bytes verbatim. Does not decide the libraries' validators themselves, "
    "equality of behaviour of a re-parsed key, or DER canonicality for v1.")
ASSUMPTIONS = ["rustc type checking / MIR construction are correct", "library validators validate what they document", "library parse/serialise pairs in keyrules are inverse on inputs of the stated width"]
FLOORS = {"R08.1": 30, "R08.1b": 26, "R08.2": 24, "R08.3": 4, "R08.5": 6, "R08.6": 4, "R08.7": 12, "R08.8": 4, "R08.9": 2}

KINDS = c10.KINDS
VALIDATORS = {   # a call that must be on the path with its success edge taken
    ("v2", "Public"): ["ed25519_dalek::verifying::VerifyingKey::from_bytes"], ("v4", "Public"): ["ed25519_dalek::verifying::VerifyingKey::from_bytes"],
    ("v2", "Secret"): ["ed25519_dalek::verifying::VerifyingKey::from_bytes", "#rederive"], ("v4", "Secret"): ["ed25519_dalek::verifying::VerifyingKey::from_bytes", "#rederive"],
    ("v4-sodium", "Public"): ["#point-validity"], ("v4-sodium", "Secret"): ["libsodium_rs::crypto_sign::keypair_from_seed", "#rederive"],
    ("v3", "Public"): ["ecdsa::verifying::VerifyingKey::<NistP384>::from_sec1_bytes"], ("v3", "Secret"): ["elliptic_curve::secret_key::SecretKey::<NistP384>::from_slice"],
    ("v3-aws-lc", "Public"): ["lc::VerifyingKey::from_sec1_bytes"], ("v3-aws-lc", "Secret"): ["lc::SigningKey::from_sec1_bytes"],
}
for be in ("v2", "v4", "v4-sodium", "v3", "v3-aws-lc"):
    VALIDATORS[(be, "PkePublic")] = VALIDATORS[(be, "Public")]
    VALIDATORS[(be, "PkeSecret")] = VALIDATORS[(be, "Secret")]
POINT_VALIDITY = ("libsodium_rs::crypto_core::ed25519::is_valid_point", "libsodium_rs::crypto_sign::ed25519_pk_to_curve25519")

def _is_rederive_compare(run_, r, g):
    """Guard g of success path r is `embedded public half == public key derived from the seed`, equal edge taken, in any
    spelling: a std PartialEq eq/ne call (on arrays, slices, references or key types) or a primitive ==/!=; one side is (a parse
    of) the input bytes from offset 32 on, the other the library's derivation applied to input bytes 0..32."""
    raw = g["cond"]
    v = g["value"]
    if not (isinstance(raw, tuple) and raw):
        return False
    if raw[0] == "call" and len(raw[2]) == 2 and "PartialEq" in raw[1] and raw[1].rsplit("::", 1)[-1] in ("eq", "ne"):
        equal_edge = (v == 1) if raw[1].endswith("::eq") else (v == 0)
        sides = [run_.norm.n(run_.interp.argval(r.path, a)) for a in raw[2]]
    elif raw[0] == "binop" and raw[1] in ("Eq", "Ne") and len(raw) == 4:
        equal_edge = (v == 1) if raw[1] == "Eq" else (v == 0)
        sides = [run_.norm.n(run_.interp.argval(r.path, a)) for a in raw[2:4]]
    else:
        return False
    if not equal_edge:
        return False
    B = ("in", "bytes")
    def from_offset(t, lo):
        return bool(subterms(t, lambda x: x and x[0] == "sl" and len(x) == 4 and contains(x[1], B) and x[2] == (lo, 0)))
    def derived(t):
        return ("keypair_from_seed" in repr(t) or bool(subterms(t, lambda x: x and x[0] == "PUB"))) and from_offset(t, 0) and not from_offset(t, 32)
    def embedded(t):
        return from_offset(t, 32) and not from_offset(t, 0) and "keypair_from_seed" not in repr(t) and not subterms(t, lambda x: x and x[0] == "PUB")
    a, b = sides
    return (derived(a) and embedded(b)) or (derived(b) and embedded(a))

def _strip_plumbing(t):
    """ok(Result::ok(X)) / ok(Option::ok_or(X, e)) ... -> ok(X): Ok/Some-preserving conversions between Result and Option carry the
    same success value."""
    for _ in range(6):
        if isinstance(t, tuple) and len(t) == 2 and t[0] == "ok" and isinstance(t[1], tuple) and t[1] and t[1][0] == "call" \
                and re.search(r"(Result|Option)::<.*>::(ok|ok_or|ok_or_else|map_err)(::<.*>)?$", t[1][1]) and t[1][2]:
            inner = t[1][2][0]
            t = inner if (isinstance(inner, tuple) and inner and inner[0] == "ok") else ("ok", inner)
        else:
            break
    return t

def _strip_turbofish(name):
    """`a::b::<X, Y<Z>>` -> `a::b` (trailing generic arguments of a path, bracket-aware)."""
    while name.endswith(">"):
        depth = 0
        for i in range(len(name) - 1, -1, -1):
            if name[i] == ">":
                depth += 1
            elif name[i] == "<":
                depth -= 1
                if depth == 0:
                    break
        else:
            return name
        if i >= 2 and name[i - 2:i] == "::":
            name = name[:i - 2]
        else:
            return name
    return name

def _shape(t):
    """Structure of a rejection condition with the concrete key type abstracted away: method names, operators and constants."""
    if not isinstance(t, tuple) or not t:
        return t
    if t[0] == "in":
        return "IN"
    if t[0] == "ok":
        return _shape(t[1])
    if t[0] == "call":
        last = re.sub(r"<.*>", "", _strip_turbofish(t[1]).rsplit("::", 1)[-1])
        args = tuple(_shape(a) for a in t[2])
        if last in ("or_else", "and_then", "map_err", "map", "ok_or", "ok_or_else", "ok", "err") and args and ("Result::" in t[1] or "Option::" in t[1]):
            return args[0]          # Result/Option plumbing around a parse: the parse
        if last.startswith(("from_", "try_from", "parse")) and ("IN" in repr(args) or "PARSED" in repr(args)):
            return "PARSED"
        return ("call", last, args)
    return tuple(_shape(x) for x in t)

def rejection_shapes(w, cn, kind):
    f = find_impl_fn(w, cn, "::HasKey", "decode", kind)
    if f is None:
        return None, None
    run_ = Run(w, f)
    out = {}
    for r in run_.results:
        for g in r.path.guards:
            c = g["cond"]
            if isinstance(c, tuple) and c and c[0] == "discr":
                continue
            n = run_.norm.n(c)
            if isinstance(n, tuple) and n and n[0] == "binop" and n[2] == ("len", ("in", "bytes")) and n[3][0] == "int":
                continue                # the kind's own length test
            rn = repr(n)
            if ("('index', ('in', 'bytes')" in rn or "('len', ('in', 'bytes'))" in rn) and "call" not in rn:
                continue                # a test of the supplied encoding itself (length / format tag), not of the key:
                                        # what encode() emits satisfies it when R08.1b (encode∘decode identity) holds
            pin = pin_of(n, g["value"], g.get("arms"))
            if pin is not None and isinstance(pin[0], tuple) and pin[0] and pin[0][0] == "call":
                # `x == k` / `x != k` / `match x { k => .. }`: one test, whatever the spelling and the edge
                out[repr(("pin", _shape(pin[0]), pin[1]))] = fmt_n(n)[:160]
                continue
            out[repr(_shape(n))] = fmt_n(n)[:160]
    return f, out

def run_strictness(ctx):
    """R08.7: a public-key decoder must not reject on a condition that the secret-key decoder of the same backend does not also
    apply: otherwise a secret key is accepted whose own public_key() does not survive to_string()/parse()."""
    w = ctx.world
    for be, cn in BACKENDS.items():
        for pub, sec in (("Public", "Secret"), ("PkePublic", "PkeSecret")):
            fp, sp = rejection_shapes(w, cn, pub)
            fs, ss = rejection_shapes(w, cn, sec)
            if sp is None or ss is None:
                ctx.add("R08.7", f"C08/decoder-strictness/{be}/{pub}", False, "anchor missing")
                continue
            extra = [v for k, v in sp.items() if k not in ss]
            ctx.add("R08.7", f"C08/decoder-strictness/{be}/{pub}", not extra,
                    f"the {pub} decoder rejects on condition(s) the {sec} decoder does not apply, so a secret key can be accepted whose derived public key does not parse back: {extra}" if extra else "",
                    site_of(fp), {"public_only": extra, "shared": len(sp) - len(extra)})

def run_v1_parse_input(ctx):
    """R08.8 (v1, whose keys are DER/PEM documents): the DER parser is given the supplied bytes unmodified and the PEM fallback
    the supplied bytes as UTF-8, unmodified — no trimming or slicing in front of the parser, so decode(encode(key)) parses
    exactly what encode produced (wrapped keys come back as raw DER that may end in any byte)."""
    w = ctx.world
    cn = BACKENDS["v1"]
    for kind in ("Public", "Secret", "PkePublic", "PkeSecret"):
        f = find_impl_fn(w, cn, "::HasKey", "decode", kind)
        if f is None:
            ctx.add("R08.8", f"C08/v1-parser-input/{kind}", False, "anchor missing")
            continue
        run_ = Run(w, f)
        probs = []
        ders = pems = 0
        for r in run_.results:
            for e in r.path.events:
                if e["kind"] != "call":
                    continue
                last = e["name"].rsplit("::", 1)[-1]
                if last in ("from_public_key_der", "from_pkcs1_der"):
                    ders += 1
                    a = run_.norm.n(e["vals"][0])
                    if a != ("in", "bytes"):
                        probs.append(f"{last} is given {fmt_n(a)[:120]} instead of the supplied bytes")
                if last in ("from_public_key_pem", "from_pkcs1_pem"):
                    pems += 1
                    a = _strip_plumbing(run_.norm.n(e["vals"][0]))
                    ok = isinstance(a, tuple) and a and a[0] == "ok" and isinstance(a[1], tuple) and a[1][0] == "call" and a[1][1].endswith("from_utf8") and a[1][2] == (("in", "bytes"),)
                    if not ok:
                        probs.append(f"{last} is given {fmt_n(a)[:120]} instead of from_utf8(supplied bytes)")
        if not ders:
            probs.append("no DER parse attempt found")
        ctx.add("R08.8", f"C08/v1-parser-input/{kind}", not probs, "; ".join(sorted(set(probs))), site_of(f))

LC_PARSERS = {
    "lc::VerifyingKey::from_sec1_bytes": ("EC_POINT_oct2point", 2, 3, {"EC_group_p384", "EC_POINT_new", "EC_POINT_oct2point"}),
    "lc::SigningKey::from_sec1_bytes": ("BN_bin2bn", 0, 1, {"EC_group_p384", "BN_bin2bn", "EC_POINT_new", "EC_POINT_mul", "EC_KEY_new", "EC_KEY_set_group",
                                                             "EC_KEY_set_private_key", "EC_KEY_set_public_key"}),
}

def run_lc_parsers(ctx):
    """R08.9: the aws-lc key parsers (treated as opaque, mutually inverse with the serialisers elsewhere in C08) hand the WHOLE
    supplied byte string to the library's strict parser — EC_POINT_oct2point / BN_bin2bn with (ptr, len) of the input itself —
    and build the object with nothing but the listed aws-lc calls (no hand-made decoding of a form byte or a coordinate)."""
    from origins import Origins
    import cfg
    cr = ctx.crates["paseto_v3_aws_lc"]
    for k, (fn_name, pi, li, allowed) in LC_PARSERS.items():
        f = cr.fns.get(k)
        if f is None or not f.get("body"):
            ctx.add("R08.9", f"C08/lc-parser/{k}", False, "anchor missing")
            continue
        og = Origins(f)
        probs = []
        ffi = [(bi, b["term"]) for bi, b in enumerate(f["body"]["blocks"]) if not b.get("cleanup") and b["term"]["k"] == "call"
               and (b["term"].get("callee") or {}).get("crate") == "aws_lc_sys"]
        names = [t["callee"]["path"].rsplit("::", 1)[-1] for _, t in ffi]
        extra = sorted(set(names) - allowed)
        if extra:
            probs.append(f"builds the key with aws-lc calls outside the reviewed set: {extra}")
        ps = [t for _, t in ffi if t["callee"]["path"].endswith("::" + fn_name)]
        if len(ps) != 1:
            probs.append(f"expected exactly one {fn_name} call, found {len(ps)}")
        else:
            t = ps[0]
            root, via = cfg.root_of(f, t["args"][pi])
            if root != 1:
                probs.append(f"{fn_name} does not read from the supplied byte string itself (pointer comes from {'local ' + str(root) if root is not None else via})")
            lo = repr(og.operand(t["args"][li], 0))
            if not ("::len" in lo and "('arg', 1," in lo and lo.count("call") == 1):
                probs.append(f"{fn_name}'s length argument is not the length of the supplied byte string: {lo[:140]}")
        ctx.add("R08.9", f"C08/lc-parser/{k}", not probs, "; ".join(probs), site_of(f))

def run(ctx):
    run_lc_parsers(ctx)
    run_v1_parse_input(ctx)
    run_strictness(ctx)
    w = ctx.world
    for be, cn in BACKENDS.items():
        for kind in KINDS:
            f = find_impl_fn(w, cn, "::HasKey", "decode", kind)
            if f is None:
                ctx.add("R08.1", f"C08/decode-width/{be}/{kind}", False, "anchor missing")
                continue
            # ---- R08.1 widths
            if be == "v1" and kind != "Local":
                ok, why, _ = keyrules.modulus_guard(w, cn, kind, c10.RSA_BITS[kind])
                ctx.add("R08.1", f"C08/decode-width/{be}/{kind}", ok, why, site_of(f))
            else:
                run_ = Run(w, f)
                probs = []
                for r in run_.ok_paths:
                    ws = keyrules.accepted_widths(run_, r)
                    want = c10.WIDTHS[(be, kind)]
                    if isinstance(ws, tuple):
                        probs.append(f"a success path accepts any length >= {ws[1]} (no exact-length test closes the input)")
                    elif not ws <= want:
                        probs.append(f"accepts lengths {sorted(ws)}, the kind is {sorted(want)} bytes")
                if not run_.ok_paths:
                    probs.append("no success path")
                ctx.add("R08.1", f"C08/decode-width/{be}/{kind}", not probs, "; ".join(sorted(set(probs))), site_of(f))
                # ---- R08.1b identity
                ok, why, _ = keyrules.encode_decode_identity(w, cn, kind)
                if be == "v3" and kind in ("Public", "PkePublic"):
                    # RustCrypto's SEC1 parser also accepts the 49-byte "compact" tag 0x05 and maps it to a 0x02/0x03 point:
                    # parse/serialise are inverse only for the compressed tags, so every success path must have tested byte 0
                    for r in run_.ok_paths:
                        tags = [g["value"] for g in r.path.guards if run_.norm.n(g["cond"]) == ("index", ("in", "bytes"), ("int", 0)) and isinstance(g["value"], int)]
                        if not tags or any(t not in (2, 3) for t in tags):
                            ok = False
                            why = (why + "; " if why else "") + "a success path does not restrict the SEC1 tag byte to 0x02/0x03 (the 49-byte compact form 0x05||x parses and re-serialises differently)"
                ctx.add("R08.1b", f"C08/encode-decode-identity/{be}/{kind}", ok, why, site_of(f))
            # ---- R08.2 validators
            if kind == "Local":
                continue
            run_ = Run(w, f)
            probs = []
            if be == "v1":
                parsers = {"Public": ("from_public_key_der", "from_public_key_pem"), "PkePublic": ("from_public_key_der", "from_public_key_pem"),
                           "Secret": ("from_pkcs1_der", "from_pkcs1_pem"), "PkeSecret": ("from_pkcs1_der", "from_pkcs1_pem")}[kind]
                for r in run_.ok_paths:
                    took = [g for g in r.path.guards if any(p in repr(run_.norm.n(g["cond"])) for p in parsers) and g["value"] == 0]
                    if not took:
                        probs.append("a success path does not take the success edge of an RSA DER/PEM parser")
            else:
                for need in VALIDATORS[(be, kind)]:
                    for r in run_.ok_paths:
                        gs = [(run_.norm.n(g["cond"]), g["value"]) for g in r.path.guards]
                        if need == "#rederive":
                            ok_ = any(_is_rederive_compare(run_, r, g) for g in r.path.guards)
                            if not ok_:
                                probs.append("the public half is not re-derived from the seed and compared with the embedded half")
                        elif need == "#point-validity":
                            ok_ = any(any(p in repr(c) for p in POINT_VALIDITY) for c, v in gs)
                            if not ok_:
                                probs.append("no point-validity test: libsodium's PublicKey::from_bytes only checks the length, so off-curve encodings are accepted (the dalek sibling rejects them)")
                        else:
                            ok_ = any(need in repr(c) and isinstance(c, tuple) and c[0] == "discr" and v == 0 for c, v in gs)
                            if not ok_:
                                # the decoder returns the validator's own verdict (`validator(..).map(Key).map_err(..)`)
                                from interp import peel
                                root = peel(r.ret)
                                ok_ = isinstance(root, tuple) and root and root[0] == "call" and root[1].startswith(need)
                            if not ok_:
                                probs.append(f"a success path does not take the success edge of {need}")
            ctx.add("R08.2", f"C08/validator/{be}/{kind}", not probs, "; ".join(sorted(set(probs))), site_of(f))
    clones(ctx)
    derive_public(ctx)
    plumbing(ctx)

def clones(ctx):
    w = ctx.world
    for be in ("v2", "v4"):
        cr = ctx.crates[BACKENDS[be]]
        f = next((f for k, f in cr.fns.items() if k.endswith("Clone for core::SecretKey>::clone")), None)
        probs = []
        if f is None:
            probs.append("anchor missing (derived Clone?)")
        else:
            r = Run(w, f)
            rets = [x for x in r.results if x.kind == "return"]
            v = r.norm.n(r.interp.argval(rets[0].path, rets[0].ret)) if len(rets) == 1 else None
            S = ("in", "self")
            want = ("agg", "adt:SecretKey::SecretKey", (("fld", S, 0), ("agg", "adt:ExpandedSecretKey::ExpandedSecretKey", (("fld", ("fld", S, 1), 0), ("fld", ("fld", S, 1), 1)))))
            if v != want:
                probs.append("clone does not map each component to the same component: " + fmt_n(v)[:300])
        ctx.add("R08.3", f"C08/clone/{be}/SecretKey", not probs, "; ".join(probs), site_of(f) if f else None)
    cr = ctx.crates["paseto_v3_aws_lc"]
    for ty, setters in (("SigningKey", {"EC_KEY_set_group", "EC_KEY_set_private_key", "EC_KEY_set_public_key"}), ("VerifyingKey", {"EC_KEY_set_group", "EC_KEY_set_public_key"})):
        f = cr.fns.get(f"<lc::{ty} as core::clone::Clone>::clone")
        probs = []
        if f is None:
            probs.append("anchor missing")
        else:
            it = Interp(w)
            res = it.run(f)
            nm = Norm()
            oks = [r for r in res if r.kind == "return"]
            oks.sort(key=lambda r: -len(r.path.events))
            if not oks:
                probs.append("no return path")
            else:
                calls = [e for e in oks[0].path.events if e["kind"] == "call" and "aws_lc_sys" in (e.get("path") or "")]
                names = [e["path"].rsplit("::", 1)[1] for e in calls]
                if names.count("EC_KEY_new") != 1:
                    probs.append("clone does not allocate exactly one fresh EC_KEY")
                got = {n for n in names if n.startswith("EC_KEY_set_")}
                if got != setters:
                    probs.append(f"clone sets {sorted(got)}, expected {sorted(setters)}")
                for e in calls:
                    n = e["path"].rsplit("::", 1)[1]
                    if n in ("EC_KEY_set_private_key", "EC_KEY_set_public_key"):
                        src = repr(nm.n(e["vals"][1]))
                        getter = "EC_KEY_get0_private_key" if "private" in n else "EC_KEY_get0_public_key"
                        if getter not in src or "'self'" not in src:
                            probs.append(f"{n} is not fed from {getter}(self)")
        ctx.add("R08.3", f"C08/clone/v3-aws-lc/{ty}", not probs, "; ".join(probs), site_of(f) if f else None)

def derive_public(ctx):
    w = ctx.world
    for be, cn in BACKENDS.items():
        uk = find_impl_fn(w, cn, "::SealingVersion", "unsealing_key", "Public")
        probs = []
        if uk is None:
            probs.append("anchor missing")
        else:
            r = Run(w, uk)
            rets = [x for x in r.results if x.kind == "return"]
            v = r.norm.n(r.interp.argval(rets[0].path, rets[0].ret)) if len(rets) == 1 else None
            pk = v[2][0] if isinstance(v, tuple) and v[0] == "agg" and v[2] else None
            if not (isinstance(pk, tuple) and pk[0] == "PUB" and contains(pk, ("in", "key"))):
                probs.append("unsealing_key is not the scheme's public key of the given secret key: " + fmt_n(v)[:200])
            else:
                # where encode embeds a public half it must be the same derivation
                enc = find_impl_fn(w, cn, "::HasKey", "encode", "Secret")
                if enc is not None and be in ("v2", "v4"):
                    re_ = Run(w, enc)
                    rr = [x for x in re_.results if x.kind == "return"]
                    ev = re_.norm.n(re_.interp.argval(rr[0].path, rr[0].ret)) if len(rr) == 1 else None
                    emb = subterms(ev, lambda x: x and x[0] == "PUB")
                    if not emb or emb[0][1:] != pk[1:]:
                        probs.append(f"encode embeds {fmt_n(emb[0]) if emb else None} but public_key() derives {fmt_n(pk)}")
        ctx.add("R08.5", f"C08/derive-public/{be}", not probs, "; ".join(probs), site_of(uk) if uk else None)

def plumbing(ctx):
    w = ctx.world
    core = ctx.crates["paseto_core"]
    def single(k, inline=True):
        f = core.fns.get(k)
        if f is None:
            return None, None, ["anchor missing"]
        r = Run(w, f, inline=inline)
        rets = [x for x in r.results if x.kind == "return" and x.okness is not False]
        return f, (r, rets), []
    # Key::from_str
    f, rr, probs = single("<key::Key<V, K> as core::str::traits::FromStr>::from_str", inline=False)
    if rr:
        r, rets = rr
        v = r.norm.n(r.interp.argval(rets[0].path, rets[0].ret)) if len(rets) == 1 else None
        # the whole input is parsed as a KeyText, and the result is the KeyText -> Key conversion of that parse's Ok value
        def is_parse(t):
            return (isinstance(t, tuple) and t and t[0] == "call" and t[2] == (("in", "s"),)
                    and (t[1].endswith("KeyText<V, K> as FromStr>::from_str") or re.search(r"<impl str>::parse::<KeyText<V, K>>$", t[1])))
        okf = False
        if isinstance(v, tuple) and v and v[0] == "call":
            if v[1] == "Result::and_then" and is_parse(v[2][0]):
                clo = r.interp.argval(rets[0].path, rets[0].ret)
                raw = rets[0].ret
                # the closure / fn item handed to and_then must itself be the conversion
                callee = raw[2][1] if isinstance(raw, tuple) and raw[0] == "call" and len(raw[2]) == 2 else None
                names = []
                if isinstance(callee, tuple) and callee and callee[0] == "agg" and callee[1].startswith("closure:"):
                    cf = core.fns.get(callee[1][len("closure:"):])
                    names = [b["term"]["callee"].get("path", "") for b in (cf["body"]["blocks"] if cf else []) if b["term"]["k"] == "call"]
                elif isinstance(callee, tuple) and callee and callee[0] == "fn":
                    names = [callee[1]]
                okf = len(names) == 1 and re.search(r"(TryInto::try_into|TryFrom::try_from|try_from|try_into)$", names[0]) is not None
            elif re.search(r"TryFrom<KeyText<V, K>> for Key<V, K>>::try_from$|KeyText<V, K> as TryInto<Key<V, K>>>::try_into$", v[1]) \
                    and len(v[2]) == 1 and isinstance(v[2][0], tuple) and v[2][0][0] == "ok" and is_parse(v[2][0][1]):
                okf = True
        if not okf:
            probs.append("Key::from_str is not `parse the whole input as KeyText, then convert its Ok value`: " + fmt_n(v)[:200])
    ctx.add("R08.6", "C08/plumbing/Key-from_str", not probs, "; ".join(probs), site_of(f) if f else None)
    f, rr, probs = single("paserk::plaintext::<impl core::convert::TryFrom<paserk::plaintext::KeyText<V, K>> for key::Key<V, K>>::try_from", inline=True)
    if rr:
        r, rets = rr
        if not r.results:
            probs.append("no path")
        for x in r.results:
            evs = [e for e in x.path.events if e["kind"] == "call" and e["name"].endswith("HasKey<K>>::decode")]
            if len(evs) != 1 or r.norm.n(evs[0]["vals"][0]) != ("fld", ("in", "value"), 0):
                probs.append("TryFrom<KeyText> does not decode exactly the stored bytes")
    ctx.add("R08.6", "C08/plumbing/KeyText-try_into", not probs, "; ".join(probs), site_of(f) if f else None)
    f, rr, probs = single("<key::Key<V, version::Public> as core::fmt::Display>::fmt", inline=False)
    if rr:
        r, rets = rr
        evs = [e["name"] for x in r.results for e in x.path.events if e["kind"] in ("call", "enter")]
        if not any("expose_key" in n for n in evs) or not any("KeyText" in n and "fmt" in n for n in evs):
            probs.append(f"Display for PublicKey is not expose_key().fmt(f): calls {evs}")
    ctx.add("R08.6", "C08/plumbing/PublicKey-display", not probs, "; ".join(probs), site_of(f) if f else None)
    f, rr, probs = single("paserk::plaintext::KeyText::<V, K>::from_raw_bytes")
    if rr:
        r, rets = rr
        v = r.norm.n(r.interp.argval(rets[0].path, rets[0].ret)) if len(rets) == 1 else None
        field = v[2][0] if isinstance(v, tuple) and v[0] == "agg" and v[2] else None
        if not (field is not None and contains(field, ("in", "b")) and not subterms(field, lambda x: x and x[0] in ("sl", "mut", "SETBYTE"))):
            probs.append("from_raw_bytes does not store the bytes verbatim: " + fmt_n(v)[:200])
    ctx.add("R08.6", "C08/plumbing/KeyText-from_raw_bytes", not probs, "; ".join(probs), site_of(f) if f else None)

# ---- R08.10 (shared with C04 R04.1): a key decoder returns Err on a byte string it does not accept — no panic-capable construct
# in any HasKey::decode is left undischarged (e.g. reading the SEC1 tag byte before the length test)
_run_c08 = run
def run(ctx):
    _run_c08(ctx)
    import shared
    n = shared.share(ctx, "c04", lambda r, k: r == "R04.1" and "HasKey<" in k and ">::decode/" in k, "R08.10", "C08/decode-no-panic/")
    if n == 0:
        ctx.add("R08.10", "C08/decode-no-panic/none", True, "", None, {"note": "no panic-capable construct exists in any key decoder"})
FLOORS["R08.10"] = 1
