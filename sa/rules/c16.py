"""C16 — every seal and wrap uses fresh randomness and fails closed when the RNG fails."""
from ops import *
from norm import fn as fmt_n
from runner import site_of
from termutil import *
from interp import RNG as RNG_CALLS, peel
import cfg

EXPLANATION = (
    "T-RNG over all direct draw sites of the 6 backend crates (getrandom::fill, aws-lc SecureRandom::fill, libsodium random::bytes / "
    "fill_bytes / crypto_box::KeyPair::generate). R16.2 error discipline: on every enumerated path, each fallible draw's own Result is "
    "branched on (success edge taken) before the path can continue, and an Err exit exists for it; a draw whose result is dropped, "
    "combined with another result, or defaulted is reported. R16.1 definedness: in the symbolic output of every producer (token seal "
    "with library nonce, PIE, PBKW, PKE, key generation) the nonce / salt / ephemeral-key / key positions are RNG terms of the full "
    "field width — no constant-initialised (zero) bytes and no caller-controlled value reach them. R16.3: draws happen per call: the "
    "lib crates define no static, static mut or thread_local, so no draw result can be cached or shared. R16.4: key generators that "
    "retry draw inside their retry loop. Floors pin the number of draw sites counted by hand. Does not decide statistical uniqueness, "
    "OS RNG quality, or draws made inside dependencies (rsa's OsRng use, libsodium's internal RNG).")
ASSUMPTIONS = ["rustc type checking / MIR construction are correct", "the OS RNG returns independent uniform bytes when it reports success",
               "libsodium's random API aborts rather than returning on failure (infallible signature)"]
FLOORS = {"R16.2": 33, "R16.1": 36, "R16.3": 8, "R16.4": 3}
FALLIBLE = ("getrandom::fill", "aws_lc_rs::rand::SecureRandom::fill")

def rng_sites(ctx):
    """(crate, fn) -> list of block indices with a direct draw."""
    out = {}
    for cn, cr in ctx.crates.items():
        for k, f in cr.fns.items():
            for bi, b in enumerate(f["body"]["blocks"]):
                t = b["term"]
                if not b["cleanup"] and t["k"] == "call" and (t["callee"].get("path") in RNG_CALLS):
                    out.setdefault((cn, k), []).append((bi, t["callee"]["path"]))
    return out

def run(ctx):
    w = ctx.world
    sites = rng_sites(ctx)
    total = sum(len(v) for v in sites.values())
    ctx.notes.append(f"direct draw sites: {total} in {len(sites)} functions")
    # ---------------- R16.2 per function
    for (cn, k), lst in sorted(sites.items()):
        f = ctx.crates[cn].fns[k]
        it = Interp(w, inline=False)
        res = it.run(f)
        nm = Norm()
        probs = []
        seen_draws = set()
        for r in res:
            draws = [(i, e) for i, e in enumerate(r.path.events) if e["kind"] == "call" and (e.get("path") in RNG_CALLS)]
            for i, e in draws:
                seen_draws.add(e["bb"])
                if e["path"] not in FALLIBLE:
                    continue
                # the draw's own result must be tested: a guard whose peeled root is this very draw (rng term with this site)
                site = (e["fn"], e["bb"])
                tested = None
                for g in r.path.guards:
                    c = g["cond"]
                    if isinstance(c, tuple) and c[0] == "discr":
                        root = peel(c[1])
                        if isinstance(root, tuple) and root and root[0] == "rng" and root[2] == site:
                            tested = g
                            break
                later = [x for x in r.path.events[i + 1:] if x["kind"] in ("call", "xor", "append", "pae", "copy", "enter") and x["bb"] != e["bb"]]
                if tested is None:
                    if later or (r.kind == "return" and r.okness is not False):
                        # is the result at least what the function returns (caller tests it)?
                        root = peel(r.ret) if r.ret is not None else None
                        if not (isinstance(root, tuple) and root and root[0] == "rng" and root[2] == site and not later):
                            probs.append(f"the result of the draw at bb{e['bb']} ({e['path']}) is not branched on before the path continues")
                elif tested["value"] != 0 and (r.kind == "return" and r.okness is not False):
                    probs.append(f"an Ok exit is reached on the failure edge of the draw at bb{e['bb']}")
        for bi, p in lst:
            if p in FALLIBLE:
                has_err = any(r.kind == "return" and r.okness is False and isinstance(r.path.err_cause, tuple) and r.path.err_cause[0] == "rng"
                              and r.path.err_cause[2] == (f["key"], bi) for r in res)
                if not has_err and bi in seen_draws:
                    probs.append(f"no Err exit is caused by failure of the draw at bb{bi}")
            if bi not in seen_draws:
                probs.append(f"draw at bb{bi} not reached by path enumeration (loop?)") if not cfg.loops(f["body"]) else None
        ctx.add("R16.2", f"C16/draw-discipline/{cn}/{k}", not probs, "; ".join(sorted(set(x for x in probs if x))), site_of(f), {"draws": [p for _, p in lst]})
    # ---------------- R16.4 retry loops
    for (cn, k), lst in sorted(sites.items()):
        f = ctx.crates[cn].fns[k]
        lps = cfg.loops(f["body"])
        if not lps:
            continue
        inloop = set().union(*lps.values())
        # a loop is a retry loop for a draw when its body reads the buffer the draw filled
        def locals_used(blocks):
            used = set()
            def visit(o):
                if isinstance(o, dict):
                    if "l" in o and "p" in o:
                        r, _ = cfg.root_of(f, {"copy": {"l": o["l"], "p": []}})
                        used.add(o["l"])
                        if r is not None:
                            used.add(r)
                    for v in o.values():
                        visit(v)
                elif isinstance(o, list):
                    for v in o:
                        visit(v)
            for b in blocks:
                visit(f["body"]["blocks"][b]["stmts"])
                visit(f["body"]["blocks"][b]["term"])
            return used
        used = locals_used(inloop)
        probs = []
        for bi, _ in lst:
            if bi in inloop:
                continue
            t = f["body"]["blocks"][bi]["term"]
            bufs = {cfg.root_of(f, a)[0] for a in t["args"]} | ({t["dest"]["l"]} if t.get("dest") else set())
            bufs.discard(None)
            if bufs & used:
                probs.append(f"draw at bb{bi} is outside the loop that consumes its bytes (the same bytes would be retried)")
        ctx.add("R16.4", f"C16/retry-loop/{cn}/{k}", not probs, "; ".join(probs), site_of(f))
    # ---------------- R16.1 definedness in producer outputs
    def rng_ok(t, width=None):
        return isinstance(t, tuple) and t and t[0] == "RNG" and (width is None or t[1] == width)
    for be in BACKENDS:
        # token (local): first field of the payload derives from a full-width RNG draw
        c = compose_token(w, be, "Local")
        probs = []
        tok = c.get("token")
        if tok is None:
            probs.append("no token term")
        else:
            payload = tok[2][0]
            first = payload[1][0] if isinstance(payload, tuple) and payload[0] == "cat" else payload
            rn = subterms(first, lambda x: x and x[0] == "RNG")
            need = {"v1": 32, "v2": 24, "v3": 32, "v3-aws-lc": 32, "v4": 32, "v4-sodium": 32}[be]
            if not rn or any(x[1] != need for x in rn):
                probs.append(f"token nonce field {fmt_n(first)[:160]} is not (derived from) a {need}-byte RNG draw")
            if subterms(first, lambda x: x and x[0] == "zeros"):
                probs.append("constant-initialised bytes reach the nonce field")
        ctx.add("R16.1", f"C16/fresh/token-nonce/{be}", not probs, "; ".join(probs))
        for op, fields in (("pie", {1: 32}), ("pbkw", None), ("pke", None)):
            c = compose_paserk(w, be, op)
            probs = []
            blob = c.get("blob")
            kd = blob[2][0] if blob and isinstance(blob, tuple) and blob[0] == "agg" and blob[2] else None
            if kd is None:
                probs.append("no blob term")
            else:
                parts = list(kd[1]) if kd[0] == "cat" else [kd]
                if op == "pie":
                    if len(parts) != 3 or not rng_ok(parts[1], 32):
                        probs.append("PIE nonce is not a fresh 32-byte draw: " + fmt_n(parts[1] if len(parts) > 1 else kd)[:120])
                elif op == "pbkw":
                    sw, nw = (32, 16) if be in ("v1", "v3", "v3-aws-lc") else (16, 24)
                    if len(parts) != 5 or not rng_ok(parts[0], sw) or not rng_ok(parts[2], nw):
                        probs.append(f"PBKW salt/nonce are not fresh {sw}/{nw}-byte draws: " + fmt_n(("cat", tuple(parts[:3])))[:200])
                    elif parts[0] == parts[2]:
                        probs.append("salt and nonce come from the same draw")
                else:
                    rn = subterms(kd, lambda x: x and (x[0] == "RNG" or (x[0] == "call" and x[1].endswith("<impl SecretKey>::random"))))
                    if not rn:
                        probs.append("no fresh ephemeral secret in the sealed-key construction")
                if subterms(kd, lambda x: x and x[0] == "zeros") and not subterms(kd, lambda x: x and x[0] == "LEFTPAD"):
                    probs.append("constant-initialised bytes reach the output")
            ctx.add("R16.1", f"C16/fresh/{op}/{be}", not probs, "; ".join(probs))
        # key generation
        for purpose in ("Local", "Public"):
            f = find_impl_fn(w, BACKENDS[be], "::SealingVersion", "random", purpose)
            probs = []
            if f is None:
                probs.append("anchor missing")
            else:
                r = Run(w, f, inline=True)
                oks = r.ok_paths
                okk = False
                for x in oks:
                    v = r.norm.n(r.ret_value(x))
                    if subterms(v, lambda y: y and y[0] == "RNG") or "random" in repr(v):
                        okk = True
                    if subterms(v, lambda y: y and y[0] == "zeros"):
                        probs.append("constant-initialised bytes reach the generated key")
                if not okk and be != "v1":
                    probs.append("generated key does not derive from an RNG draw")
                if be == "v1" and purpose == "Public":
                    probs = []      # rsa key generation draws inside the dependency (OsRng): out of reach, recorded
            ctx.add("R16.1", f"C16/fresh/keygen/{be}/{purpose.lower()}", not probs, "; ".join(probs), site_of(f) if f else None)
    # ---------------- R16.3 no statics
    for cn, cr in ctx.crates.items():
        probs = [f"static {s['path']} (mut={s['mut']}, thread_local={s['thread_local']}, interior-mutable={not s['freeze']})" for s in cr.statics]
        ctx.add("R16.3", f"C16/no-statics/{cn}", not probs, "; ".join(probs))
    ctx.sample({"draw_sites": total, "functions": len(sites)})
