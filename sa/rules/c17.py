"""C17 — shared keys behave the same under concurrent use and after failed operations (type-level argument)."""
from ops import *
from norm import fn as fmt_n
from runner import site_of
from termutil import *

EXPLANATION = (
    "A type-level argument that makes schedules and failure histories irrelevant. R17.1: every key type (each HasKey::Key "
    "associated type of the 6 backends) is Freeze according to rustc (no interior mutability anywhere inside, dependency types "
    "included). R17.2: no public function of the workspace takes a key by &mut, so no operation — failed or not — can alter a key. "
    "R17.3: the only `unsafe impl Send/Sync` are those of lc::SigningKey and lc::VerifyingKey; for every FFI call reachable from their "
    "`&self` methods, each argument derived from `self` is passed in a parameter the binding declares `*const`; ManagedPointer::as_mut is "
    "never applied to `self`-owned pointers in `&self` methods; no `*const -> *mut` cast (or cast_mut) exists in the module. "
    "R17.4: the lib crates define no static mut, interior-mutable static or thread_local (no hidden shared or per-thread state that a "
    "failed operation could leave behind). Does not decide thread-safety of aws-lc / libsodium for concurrent const access (their "
    "documented contract) or data races inside dependencies.")
ASSUMPTIONS = ["rustc's Freeze / auto-trait analysis", "aws-lc and libsodium honour const-correctness: functions taking *const do not mutate", "the bindings' pointer mutabilities reflect the C prototypes"]
FLOORS = {"R17.1": 16, "R17.2": 1, "R17.3": 9, "R17.4": 8}

def key_types(ctx):
    out = {}
    for be, cn in BACKENDS.items():
        cr = ctx.crates[cn]
        for im in cr.impls:
            if im.get("of_trait") and im["trait"].endswith("key::HasKey"):
                for it in im["items"]:
                    if it["kind"].startswith("AssocTy") and it["name"] == "Key":
                        t = cr.ty(it["ty"])
                        out[(be, t["s"])] = (cr, t)
    return out

def loc_root(loc):
    while isinstance(loc, tuple) and loc and loc[0] in ("F", "R", "R?", "V", "D", "IDX", "DEREF", "T"):
        if loc[0] == "DEREF":
            return ("VAL", loc[1])
        if loc[0] == "T":
            return ("TEMP",)
        loc = loc[1]
    return loc

def from_self(nm, a):
    """Is this pointer argument's provenance the storage of `self` (or a pointer obtained from it)?"""
    if isinstance(a, tuple) and a and a[0] == "ptr":
        root = loc_root(a[1])
        if isinstance(root, tuple) and root and root[0] == "P":
            return root[2] == "self"
        if isinstance(root, tuple) and root and root[0] == "VAL":
            return contains(nm.n(root[1]), ("in", "self"))
        return False                      # pointer into a function-local buffer
    return contains(nm.n(a), ("in", "self"))   # raw pointer value computed from self

def run(ctx):
    w = ctx.world
    # ---------------- R17.1 Freeze
    for (be, ts), (cr, t) in sorted(key_types(ctx).items()):
        probs = []
        if t.get("k") == "adt":
            a = cr.adts.get(t["path"])
            if a is None:
                probs.append("key type is not a local ADT: " + ts)
            elif "freeze" not in a:
                probs.append("Freeze not evaluated (generic type?)")
            elif not a["freeze"]:
                probs.append("key type contains interior mutability (not Freeze)")
        else:
            probs.append("unexpected key type kind " + str(t.get("k")))
        ctx.add("R17.1", f"C17/freeze/{be}/{short(ts)}", not probs, "; ".join(probs))
    # ---------------- R17.2 no &mut key in public APIs
    bad = []
    n_pub = 0
    for cn, cr in ctx.crates.items():
        for k, f in cr.fns.items():
            if f.get("vis") != "Public" or "inputs" not in f:
                continue
            n_pub += 1
            for tid in f["inputs"]:
                s = cr.ty_s(tid)
                if s.startswith("&mut ") and ("key::Key<" in s or re.search(r"core::(LocalKey|SecretKey|PublicKey)\b", s) or "lc::SigningKey" in s or "lc::VerifyingKey" in s):
                    bad.append(f"{cn}::{k} takes {short(s)}")
    ctx.add("R17.2", "C17/no-mut-key-api", not bad, "; ".join(bad), facts={"public_fns": n_pub})
    # ---------------- R17.3 unsafe Send/Sync census + FFI constness
    uns = []
    for cn, cr in ctx.crates.items():
        for im in cr.impls:
            if im.get("of_trait") and im.get("unsafe") and im["trait"] in ("core::marker::Send", "core::marker::Sync"):
                uns.append((cn, im["trait"].rsplit("::", 1)[1], short(cr.ty_s(im["self"]))))
    want = {("paseto_v3_aws_lc", "Send", "SigningKey"), ("paseto_v3_aws_lc", "Sync", "SigningKey"),
            ("paseto_v3_aws_lc", "Send", "VerifyingKey"), ("paseto_v3_aws_lc", "Sync", "VerifyingKey")}
    extra = set(uns) - want
    ctx.add("R17.3", "C17/unsafe-send-sync-census", not extra, f"unreviewed unsafe Send/Sync impls: {sorted(extra)}" if extra else "", facts={"found": sorted(uns)})
    lc = ctx.crates["paseto_v3_aws_lc"]
    for k, f in sorted(lc.fns.items()):
        if not k.startswith("lc::") or "{closure" in k or k.startswith("lc::ptr::"):
            continue
        st = lc.ty_s(f["impl_self"]) if "impl_self" in f else ""
        if st not in ("lc::SigningKey", "lc::VerifyingKey"):
            continue
        ins = f.get("inputs") or []
        if not ins or not lc.ty_s(ins[0]).startswith("&") or lc.ty_s(ins[0]).startswith("&mut"):
            continue
        if "self" not in (f["body"]["locals"][1].get("name") or ""):
            continue
        it = Interp(w)
        res = it.run(f)
        nm = Norm()
        probs = []
        n_ffi = 0
        for r in res:
            for e in r.path.events:
                if e["kind"] != "call":
                    continue
                p = e.get("path") or ""
                if p.startswith("aws_lc_sys::") or p.startswith("aws_lc_fips_sys::"):
                    n_ffi += 1
                    sig = lc.foreign.get(p)
                    for i, a in enumerate(e["args"]):
                        if sig is None or i >= len(sig["inputs"]):
                            probs.append(f"{p.rsplit('::',1)[1]}: signature unknown for argument {i}")
                            continue
                        decl = sig["inputs"][i]
                        if not decl.startswith("*"):
                            continue            # not a pointer parameter
                        if from_self(nm, a) and not decl.startswith("*const"):
                            probs.append(f"{p.rsplit('::',1)[1]} receives a pointer derived from &self in parameter {i} declared `{decl}`")
                if p == "lc::ptr::ManagedPointer::<P>::as_mut":
                    if contains(nm.n(e["vals"][0]), ("in", "self")) or (isinstance(e["args"][0], tuple) and contains(nm.n(e["args"][0]), ("in", "self"))):
                        probs.append("ManagedPointer::as_mut applied to a pointer owned by &self")
                if p.endswith("::cast_mut"):
                    probs.append("cast_mut() in a &self method")
        ctx.add("R17.3", f"C17/ffi-const/{k}", not probs, "; ".join(sorted(set(probs))), site_of(f), {"ffi_calls": n_ffi})
    # const -> mut pointer casts anywhere in the FFI module
    casts = []
    for k, f in lc.fns.items():
        if not k.startswith("lc::"):
            continue
        for b in f["body"]["blocks"]:
            for st in b["stmts"]:
                if st["k"] == "assign" and st["rv"]["k"] == "cast" and st["rv"]["ck"] in ("PtrToPtr", "Transmute"):
                    op = st["rv"]["op"].get("copy") or st["rv"]["op"].get("move")
                    if op:
                        src, dst = lc.ty_s(op["ty"]), lc.ty_s(st["rv"]["to"])
                        if src.startswith("*const") and dst.startswith("*mut") and not st["sp"]["x"]:
                            casts.append(f"{k}: {short(src)} -> {short(dst)} at line {st['sp']['l']}")
            t = b["term"]
            if t["k"] == "call" and (t["callee"].get("path") or "").endswith("::cast_mut"):
                casts.append(f"{k}: cast_mut()")
    ctx.add("R17.3", "C17/no-const-to-mut-cast", not casts, "; ".join(casts))
    # ---------------- R17.4 statics
    for cn, cr in ctx.crates.items():
        probs = [f"static {s['path']} (mut={s['mut']}, thread_local={s['thread_local']}, interior-mutable={not s['freeze']})"
                 for s in cr.statics if s["mut"] or s["thread_local"] or not s["freeze"]]
        ctx.add("R17.4", f"C17/no-shared-mutable-statics/{cn}", not probs, "; ".join(probs))
    ctx.sample({"key_types": sorted(f"{be}:{short(ts)}" for (be, ts) in key_types(ctx))})
import re

# ---- R17.5: closed-world census of the aws-lc functions the lc module calls. Each listed function works only on its arguments
# (objects owned by the calling key / operation); aws-lc's ERR_* error queue, RAND state setters, ENGINE / CRYPTO_set_* hooks and
# anything else are per-thread or process-wide state that a failed operation would leave behind for the next one.
# R17.6 (shared with C08 R08.3): a cloned key is component-wise the same key (so "a fresh copy" behaves like the original).
LC_REVIEWED = {"BN_bin2bn", "BN_bn2bin", "BN_bn2bin_padded", "BN_free", "BN_num_bytes", "ECDH_compute_key", "ECDSA_SIG_free", "ECDSA_SIG_from_bytes",
               "ECDSA_SIG_get0", "ECDSA_SIG_new", "ECDSA_SIG_set0", "ECDSA_SIG_to_bytes", "ECDSA_sign", "ECDSA_size", "ECDSA_verify", "EC_GROUP_free",
               "EC_KEY_free", "EC_KEY_get0_private_key", "EC_KEY_get0_public_key", "EC_KEY_new", "EC_KEY_set_group", "EC_KEY_set_private_key",
               "EC_KEY_set_public_key", "EC_POINT_free", "EC_POINT_mul", "EC_POINT_new", "EC_POINT_oct2point", "EC_POINT_point2oct", "EC_group_p384",
               "OPENSSL_free", "BN_is_zero", "BN_cmp", "BN_num_bits", "EC_POINT_is_at_infinity", "EC_POINT_cmp", "BN_new", "BN_clear_free", "EC_KEY_check_key"}
_run_c17 = run
def run(ctx):
    _run_c17(ctx)
    cr = ctx.crates["paseto_v3_aws_lc"]
    used, odd = set(), []
    for k, f in cr.fns.items():
        if not f.get("body"):
            continue
        for b in f["body"]["blocks"]:
            t = b["term"]
            if t["k"] == "call" and (t.get("callee") or {}).get("crate") == "aws_lc_sys":
                n = t["callee"]["path"].rsplit("::", 1)[-1]
                used.add(n)
                if n not in LC_REVIEWED:
                    odd.append(f"{n} (in {k})")
    ctx.add("R17.5", "C17/lc-ffi-census", len(used) >= 25 and not odd,
            ("aws-lc functions outside the reviewed argument-only set (thread-local / global state?): " + "; ".join(sorted(set(odd)))) if odd else ("" if len(used) >= 25 else "anchor missing"),
            facts={"used": sorted(used)})
    import c08
    class Scratch:
        def __init__(s): s.findings = []; s.world = ctx.world; s.crates = ctx.crates; s.analysed = {"functions": 0, "paths": 0, "call_sites": 0}; s.notes = []; s.tier = ctx.tier; s.facts_dir = ctx.facts_dir
        def add(s, rule, k, ok, detail="", site=None, facts=None): s.findings.append((rule, k, ok, detail, site))
        def sample(s, x): pass
    sc = Scratch()
    c08.run(sc)
    for (rule, k, ok, detail, site) in sc.findings:
        if rule == "R08.3":
            ctx.add("R17.6", "C17/clone/" + k.split("/", 1)[-1], ok, detail, site)
FLOORS["R17.5"] = 1
FLOORS["R17.6"] = 4
