"""C04 — no input makes parsing, unsealing, unwrapping or key use panic or corrupt memory (static part)."""
import collections, re, traceback
from ops import *
from runner import site_of
from facts import LIB_CRATES, short, qshort
from absint import AbsInt, is_lin
from origins import Origins
import cfg

EXPLANATION = (
    "Census of every panic-capable construct in the MIR of the 8 library crates (dev profile, so arithmetic-overflow and "
    "bounds asserts are present): Assert terminators, unwrap/expect, slice/Vec indexing, split_at, copy_from_slice, explicit "
    "panics, and calls into dependency APIs documented to panic. Each site must be discharged on every run by (a) the "
    "interval / slice-length abstract interpretation (sa/absint.py: flow-sensitive intervals over linear forms, exact length "
    "algebra for split/chunk/index/Vec operations, Option/Result success conditions, context-sensitive analysis of workspace "
    "callees; private functions are analysed only in the contexts their callers create, reachable functions with unconstrained "
    "arguments), (b) a dependency contract read from the dependency's source (absint_contracts.REASONS), or (c) a reviewed row "
    "naming the function, the construct and why token- or key-derived data cannot reach it. Anything else is a violation. "
    "R04.2: unsafe/FFI discipline in paseto-v3-aws-lc::lc and paseto-core::base64 (constructor status checks, ownership "
    "transfer ordering, set_len pairing, pointer/length agreement, census of unsafe sites). Does NOT decide: panics or UB inside "
    "dependencies (e.g. the rsa crate's PKCS#1 parser), allocation failure, stack depth, KDF cost exhaustion.")
ASSUMPTIONS = ["rustc MIR construction is correct; dev-profile MIR contains every overflow/bounds assert the release profile elides (so a discharged assert also means no silent wrap in release)",
               "dependency contracts listed in absint_contracts.REASONS (each quoted from the dependency source in the cargo registry)",
               "FFI functions of aws-lc behave as documented (status 1 = success; getters of a fully-initialised EC_KEY return non-NULL)"]
FLOORS = {"R04.1": 280, "R04.2": 10, "R04.4": 3, "R04.3": 1}

# ---- which calls are panic-capable (exact resolved paths / suffixes)
STD_PANIC = {
    "core::result::Result::<T, E>::unwrap", "core::result::Result::<T, E>::expect", "core::option::Option::<T>::unwrap", "core::option::Option::<T>::expect",
    "core::result::Result::<T, E>::unwrap_err", "core::result::Result::<T, E>::expect_err",
    "core::ops::index::Index::index", "core::ops::index::IndexMut::index_mut",
    "core::slice::<impl [T]>::split_at", "core::slice::<impl [T]>::split_at_mut", "core::str::<impl str>::split_at",
    "core::slice::<impl [T]>::copy_from_slice", "core::slice::<impl [T]>::clone_from_slice", "core::slice::<impl [T]>::copy_within",
    "core::slice::<impl [T]>::swap", "core::slice::<impl [T]>::chunks", "core::slice::<impl [T]>::chunks_exact", "core::slice::<impl [T]>::windows",
    "core::slice::<impl [T]>::rotate_left", "core::slice::<impl [T]>::rotate_right", "core::slice::<impl [T]>::fill_with",
    "alloc::vec::Vec::<T, A>::remove", "alloc::vec::Vec::<T, A>::insert", "alloc::vec::Vec::<T, A>::swap_remove", "alloc::vec::Vec::<T, A>::drain",
    "alloc::vec::Vec::<T, A>::split_off", "alloc::vec::Vec::<T, A>::splice", "alloc::string::String::remove", "alloc::string::String::insert",
    "alloc::string::String::insert_str", "alloc::string::String::split_off", "alloc::string::String::drain", "alloc::string::String::replace_range",
    "core::cell::RefCell::<T>::borrow", "core::cell::RefCell::<T>::borrow_mut", "core::char::from_digit", "core::num::<impl usize>::pow",
    "core::time::Duration::from_secs_f64", "core::time::Duration::from_secs_f32", "core::time::Duration::new",
    "core::iter::traits::iterator::Iterator::step_by", "core::str::<impl str>::split_at_mut",
    "core::ops::arith::Add::add", "core::ops::arith::Sub::sub", "core::ops::arith::Mul::mul", "core::ops::arith::Div::div", "core::ops::arith::Rem::rem",
    "core::ops::arith::AddAssign::add_assign", "core::ops::arith::SubAssign::sub_assign", "core::ops::arith::Neg::neg",
    "std::time::SystemTime::duration_since", "std::time::Instant::duration_since",
}
PANIC_PREFIX = ("core::panicking::", "std::panicking::", "core::option::unwrap_failed", "core::result::unwrap_failed", "core::option::expect_failed",
                "core::slice::index::slice_", "core::str::slice_error_fail", "alloc::raw_vec::capacity_overflow", "core::intrinsics::abort", "std::process::abort",
                "std::process::exit", "core::hint::unreachable_unchecked", "core::hint::assert_unchecked")
# dependency APIs whose documentation has a "Panics" section that inputs could trigger
LIB_PANIC = {
    "cipher::stream::StreamCipher::apply_keystream": "keystream",
    "cipher::stream::StreamCipher::apply_keystream_b2b": "keystream",
    "cipher::stream::StreamCipherSeek::seek": "keystream",
    "generic_array::GenericArray::<T, N>::from_slice": "ga-len", "generic_array::GenericArray::<T, N>::from_mut_slice": "ga-len",
    "generic_array::GenericArray::<T, N>::clone_from_slice": "ga-len", "generic_array::GenericArray::<T, N>::from_exact_iter": "ga-len",
    "signature::signer::Signer::sign": "infallible-signer", "signature::signer::SignerMut::sign": "infallible-signer",
    "signature::signer::DigestSigner::sign_digest": "infallible-signer", "signature::signer::RandomizedSigner::sign_with_rng": "infallible-signer",
    "signature::signer::RandomizedDigestSigner::sign_digest_with_rng": "infallible-signer", "signature::signer::RandomizedSignerMut::sign_with_rng": "infallible-signer",
    "signature::signer::MultipartSigner::multipart_sign": "infallible-signer", "signature::signer::RandomizedMultipartSigner::multipart_sign_with_rng": "infallible-signer",
    "rand_core::RngCore::fill_bytes": "rng-panic", "rand_core::OsRng::fill_bytes": "rng-panic",
    "digest::Digest::finalize_into": None, "digest::mac::Mac::new": None,
    "crypto_common::KeyInit::new_from_slice": None, "crypto_common::KeyIvInit::new_from_slices": None,
    "hmac::Hmac::<D>::new_from_slice": None,
    "pbkdf2::pbkdf2_hmac": None, "pbkdf2::pbkdf2_hmac_array": None,
    "aws_lc_rs::hkdf::Okm::<'_, L>::fill": None,
    "jiff::timestamp::Timestamp::saturating_add": None,
    "libsodium_rs::crypto_stream::xchacha20::Nonce::from_bytes": None,
    "libsodium_rs::ensure_init": "sodium-init",
    "argon2::params::ParamsBuilder::p_cost": "argon2-pcost",
}
JIFF_OPS = ("jiff::",)

def is_panic_call(ce):
    p = ce["path"]
    rp = ce.get("r_path") or p
    if p in STD_PANIC:
        if p.startswith("core::ops::arith::"):
            # primitive arithmetic is compiled to checked binops, not calls; these are operator impls of library types.
            # time types (jiff Timestamp/Span, core Duration, std Instant/SystemTime) panic on overflow; group/field arithmetic does not
            full = ce.get("full", "")
            return "operator" if re.search(r"jiff::|core::time::Duration|std::time::", full) else None
        return "std"
    if p.startswith(PANIC_PREFIX) or rp.startswith(PANIC_PREFIX):
        return "panic"
    if p in ("core::convert::From::from", "core::convert::Into::into"):
        sf = short(ce.get("full", ""))
        if re.search(r"<&(mut )?\[u8\] as Into<&(mut )?GenericArray<|<&(mut )?GenericArray<u8, U\d+> as From<&(mut )?\[u8\]>>", sf):
            return "std"      # generic-array: panics when the slice length differs from N
    for k in (p, rp):
        if k in LIB_PANIC and LIB_PANIC[k] is not None:
            return "lib:" + LIB_PANIC[k]
    return None

# ---- reviewed rows: (crate, fn-key regex, construct regex) -> (max count, reason)
REVIEWED = [
    ("paseto_json", r"claims_impls::<impl RegisteredClaims>::new$", r"operator:Add::add", 1,
     "issuer-side constructor: `now + exp` are the caller's own clock and token lifetime, no parsed data reaches it; jiff panics only past year 9999"),
    ("paseto_v3", r".*SealingVersion<paseto_core::version::Public> for core::V3>::dangerous_seal_with_nonce$", r"lib:infallible-signer:DigestSigner::sign_digest", 1,
     "ecdsa::SigningKey::sign_digest (RFC 6979 deterministic nonce) panics only if try_sign_digest fails, i.e. the derived k yields r = 0 or s = 0: probability about 2^-384 for any message, and the scalar was validated non-zero when the key was decoded; no input class reaches it"),
    ("*", r".*", r"lib:keystream", 64,
     "StreamCipher::apply_keystream panics only when the keystream is exhausted (XChaCha20: 2^32 blocks = 256 GiB, AES-CTR128: 2^128 blocks) on a cipher keyed in the same operation; needs an in-memory payload beyond the property's input domain"),
    ("paseto_v3_aws_lc", r"<lc::(SigningKey|VerifyingKey) as core::clone::Clone>::clone$", r"(panic|std):.*", 8,
     "Clone of an already-valid key cannot return Err: the FFI setters re-validate a scalar/point taken from a key that passed the same validation (R04.2 constructor rule); failure means allocation failure, outside the property"),
    ("paseto_v3_aws_lc", r"lc::SigningKey::verifying_key$", r"std:.*expect", 2,
     "public point of a constructed SigningKey is scalar*G with scalar in [1, n-1] (EC_KEY_set_private_key success, R04.2 constructor rule): never infinity, so from_point cannot reject it; failure means allocation failure"),
    ("paseto_v3_aws_lc", r"lc::SigningKey::encode$", r"panic:.*", 2,
     "private scalar < group order < 2^384 (EC_KEY_set_private_key success, R04.2 constructor rule) so BN_num_bytes <= 48 and BN_bn2bin writes key_len bytes"),
    ("paseto_v3_aws_lc", r"lc::compressed_pub_key$", r"panic:.*", 1,
     "EC_POINT_point2oct(COMPRESSED) of a P-384 point that is not the point at infinity is 49 bytes; R04.3 proves every VerifyingKey built from external bytes comes from exactly 49 input bytes (a 1-byte infinity encoding cannot reach it) and SigningKey points are scalar*G"),
    ("paseto_v3_aws_lc", r"lc::(SigningKey|VerifyingKey)::(compressed_pub_key|verifying_key|encode|diffie_hellman)$|<lc::(SigningKey|VerifyingKey) as core::clone::Clone>::clone$", r"std:.*unwrap", 4,
     "EC_KEY_get0_public_key / get0_private_key of an EC_KEY whose setters all returned 1 (R04.2 constructor rule) is non-NULL"),
    ("paseto_v3_aws_lc", r"<lc::ptr::DetachablePointer<P> as core::ops::deref::Deref>::deref$|<lc::ptr::ManagedPointer<P> as core::convert::From<lc::ptr::DetachablePointer<P>>>::from$|lc::ptr::DetachablePointer::<P>::detach$", r"(panic|std):.*", 1,
     "DetachablePointer holds Some from construction until detach()/into() consume it by value; no method leaves None behind in a live value (R04.2 checks that new() is the only constructor and stores Some)"),
]

def _closure_captures_only_self(cr, ckey):
    """Every value captured where the closure `ckey` is built (in its parent validate()) derives from parameter 1 (self)."""
    pkey = re.sub(r"::\{closure#\d+\}$", "", ckey)
    pf = cr.fns.get(pkey)
    if pf is None or not pf.get("body"):
        return False
    og = Origins(pf)
    found = False
    for b in pf["body"]["blocks"]:
        for st in b["stmts"]:
            rv = st.get("rv") or {}
            if rv.get("k") == "agg" and (rv.get("ak") or {}).get("a") == "closure" and rv["ak"].get("path") == ckey:
                found = True
                leaves = set(re.findall(r"\('arg', (\d+)", repr([og.operand(o, 0) for o in rv["ops"]])))
                if not leaves <= {"1"}:
                    return False
    return found

def entry_fn(f):
    if f.get("kind") == "Closure":
        return True
    if f.get("reach"):
        return True
    k = f["key"]
    return k.startswith("<") or " for " in k

class Host:
    def __init__(self, world):
        self.w = world
        self.memo = {}
        self.runs = collections.defaultdict(list)
        self.errors = []
        self.agg_checks = []
        self.call_checks = []
        self.contexts = collections.defaultdict(list)
        self.contract_entries = set()
        self.ffi_checks = []
        self.implied = {}

    def target(self, ce):
        t = None
        if ce.get("r_path") and ce.get("r_kind") == "item":
            t = self.w.find_fn(ce.get("r_crate"), ce["r_path"])
        if t is None:
            t = self.w.find_fn(ce.get("crate"), ce["path"])
        return t if (t is not None and t.get("body") and t["crate"] in LIB_CRATES) else None

    def analyse(self, fn, closed, depth, subst=None):
        k = (fn["crate"], fn["key"], closed, tuple(sorted((subst or {}).items())))
        if k in self.memo:
            return self.memo[k]
        self.memo[k] = None
        try:
            ai = AbsInt(self.w, fn, args=closed, depth=depth, host=self, subst=subst).run()
        except Exception:
            self.errors.append((fn["crate"], fn["key"], traceback.format_exc()[-500:]))
            return None
        self.runs[(fn["crate"], fn["key"])].append(ai)
        self.contexts[(fn["crate"], fn["key"])].append((closed, depth))
        self.memo[k] = ai.ret
        # what a good (Ok/Some) result implies about the arguments: hull of the parameter intervals over all returns that may be good
        imp = {}
        goods = [pi for good, pi in ai.ret_cases if good is not False]
        if goods and len(goods) < len(ai.ret_cases):
            for key in goods[0]:
                if all(key in g for g in goods):
                    lo, hi = min(g[key][0] for g in goods), max(g[key][1] for g in goods)
                    if (lo, hi) != ai.symrange.get(key):
                        imp[key] = (lo, hi)
        self.implied[k] = imp
        return ai.ret

    def call(self, ai, st, bi, ce, args, atys, dty, key):
        t = self.target(ce)
        if t is None or ai.depth > 8:
            return NotImplemented
        closed = tuple(ai.close(st, a) for a in args)
        subst = {}
        gnames = t.get("generics", [])
        gargs = ce.get("r_args") if (ce.get("r_path") and ce.get("r_kind") == "item") else ce.get("args")
        if gargs and len(gargs) == len(gnames):
            for gn, ga in zip(gnames, gargs):
                if isinstance(ga, dict) and "t" in ga:
                    sv = short(ai.cr.ty_s(ga["t"]))
                    pt = ai.cr.ty(ga["t"])
                    if pt["k"] == "param":
                        sv = ai.subst.get(pt.get("name"), sv)
                    subst[gn] = sv
        ret = self.analyse(t, closed, ai.depth + 1, subst)
        v = ai.open_(st, ret, key)
        imp = self.implied.get((t["crate"], t["key"], closed, tuple(sorted((subst or {}).items()))), {})
        if imp and isinstance(v, tuple) and v and v[0] == "o" and v[3] is None:
            from absint import K
            conds = None
            for pk, (lo, hi) in imp.items():
                a = args[pk[1] - 1] if pk[1] - 1 < len(args) else None
                lin = a if (len(pk) == 2 and is_lin(a)) else (ai.length(st, a, atys[pk[1] - 1], key + ("imp", pk[1])) if len(pk) == 3 and a is not None else None)
                if lin is None:
                    continue
                c = ("b", "and", ("b", "Ge", lin, K(lo)), ("b", "Le", lin, K(hi)))
                conds = c if conds is None else ("b", "and", conds, c)
            if conds is not None:
                v = ("o", v[1], v[2], ("b", "implied", conds, None))
        return v if v is not None else NotImplemented

    # ---- R04.2 hooks
    LC_REQUIRED = {"lc::SigningKey": ("EC_KEY_set_group", "EC_KEY_set_private_key", "EC_KEY_set_public_key"),
                   "lc::VerifyingKey": ("EC_KEY_set_group", "EC_KEY_set_public_key"),
                   "lc::Signature": ()}
    def ret_is_one(self, ai, st, name):
        hits = [(b, v) for b, (p, v, _a) in ai.callrets.items() if p.endswith("::" + name)]
        if not hits:
            return None
        return all(is_lin(v) and ai.iv(st, v) == (1, 1) for _, v in hits)

    def on_agg(self, ai, st, bi, path):
        if ai.cr.name != "paseto_v3_aws_lc" or path not in self.LC_REQUIRED:
            return
        probs = []
        for name in self.LC_REQUIRED[path]:
            r = self.ret_is_one(ai, st, name)
            if r is None:
                probs.append(f"{name} is not called before constructing {path}")
            elif not r:
                probs.append(f"{name}'s status is not known to be 1 where {path} is constructed")
        if path == "lc::Signature" and any(p.endswith("::ECDSA_SIG_new") for p, _, _a in ai.callrets.values()):
            r = self.ret_is_one(ai, st, "ECDSA_SIG_set0")
            if not r:
                probs.append("ECDSA_SIG_set0's status is not known to be 1 where lc::Signature is constructed from r,s")
        self.agg_checks.append((ai.fn["key"], bi, path, probs))

    # (ptr argument index, length argument index, direction) for aws-lc functions taking a buffer
    FFI_BUFFERS = {"BN_bin2bn": [(0, 1)], "EC_POINT_oct2point": [(2, 3)], "EC_POINT_point2oct": [(3, 4)], "ECDH_compute_key": [(0, 1)],
                   "ECDSA_sign": [(1, 2)], "ECDSA_verify": [(1, 2)], "BN_bn2bin_padded": [(0, 1)]}

    def on_call(self, ai, st, bi, ce, args):
        if ai.cr.name != "paseto_v3_aws_lc":
            return
        p = ce["path"]
        name = p.rsplit("::", 1)[-1]
        fk = ai.fn["key"]
        if p.endswith("DetachablePointer::<P>::detach"):
            r = self.ret_is_one(ai, st, "ECDSA_SIG_set0")
            self.call_checks.append((fk, bi, "detach-after-set0", [] if r else ["detach() is reachable without ECDSA_SIG_set0 having returned 1 (ownership not transferred: leak or double free)"]))
        if ce.get("crate") != "aws_lc_sys":
            if p == "alloc::vec::Vec::<T, A>::set_len":
                probs = []
                spare = getattr(ai, "spare", {}).get(args[0])
                lens = [v for b, (pp, v, a) in ai.callrets.items() if pp == "alloc::vec::Vec::<T, A>::len"]
                added = None
                for l in lens:
                    if is_lin(l) and is_lin(args[1]):
                        d = ai.iv(st, (args[1][0], args[1][1] - l[1], tuple(sorted(((s_, k_) for s_, k_ in (dict(args[1][2]).items() - dict(l[2]).items())), key=repr)))) if set(dict(l[2]).items()) <= set(dict(args[1][2]).items()) else None
                        if d and d[0] == d[1]:
                            added = d[0]
                if added is None:
                    probs.append("set_len argument is not `len() + constant`")
                else:
                    if spare is None or spare < added:
                        probs.append(f"set_len(len + {added}) is not preceded by reserve(>= {added}) (reserved: {spare})")
                    writes = [(b, a, v) for b, (pp, v, a) in ai.callrets.items() if pp.endswith("::BN_bn2bin_padded")]
                    tot = 0
                    for b, a, v in writes:
                        if not (is_lin(v) and ai.iv(st, v) == (1, 1)):
                            probs.append("set_len is reachable without every BN_bn2bin_padded write having returned 1 (uninitialised bytes exposed)")
                        if is_lin(a[1]) and ai.iv(st, a[1])[0] == ai.iv(st, a[1])[1]:
                            tot += ai.iv(st, a[1])[0]
                    if tot != added:
                        probs.append(f"successful writes cover {tot} bytes but the length grows by {added}")
                self.call_checks.append((fk, bi, "set_len-pairing", probs))
            return
        probs = []
        for pi, li in self.FFI_BUFFERS.get(name, []):
            ptr, ln = args[pi], args[li]
            if not (isinstance(ptr, tuple) and ptr and ptr[0] == "ptrto"):
                probs.append(f"{name}: argument {pi} is not a pointer obtained from a buffer whose length is known")
                continue
            if not is_lin(ln):
                probs.append(f"{name}: length argument {li} is not an integer expression")
                continue
            d = ai.iv(st, (ptr[1][0], ptr[1][1] - ln[1], ()) if False else __import__("absint").ladd(ptr[1], ln, -1))
            if d[0] < 0:
                probs.append(f"{name}: length argument {li} may exceed the {pi}-th argument's buffer (buffer - length in {d})")
        if name == "ECDSA_sign":
            out = args[3]
            sz = [v for b, (pp, v, a) in ai.callrets.items() if pp.endswith("::ECDSA_size")]
            if not (sz and all(is_lin(v) and ai.iv(st, v)[0] == ai.iv(st, v)[1] for v in sz)):
                probs.append("ECDSA_sign: output buffer size is not guarded by an exact ECDSA_size() check")
            elif not (isinstance(out, tuple) and out and out[0] == "ptrto" and ai.iv(st, out[1])[0] >= ai.iv(st, sz[0])[1]):
                probs.append("ECDSA_sign: output buffer is smaller than the checked ECDSA_size()")
        if name == "BN_bn2bin":
            out = args[1]
            nb = [v for b, (pp, v, a) in ai.callrets.items() if pp.endswith("::BN_num_bytes")]
            ok = isinstance(out, tuple) and out and out[0] == "ptrto" and nb and is_lin(nb[0])
            if ok:
                d = ai.iv(st, __import__("absint").ladd(out[1], nb[0], -1))
                ok = d[0] >= 0
            if not ok:
                probs.append("BN_bn2bin: output buffer is not provably at least BN_num_bytes() long")
        if name == "ECDSA_SIG_from_bytes":
            r = self.ret_is_one(ai, st, "ECDSA_sign")
            if not r:
                probs.append("ECDSA_SIG_from_bytes: (sig, sig_len) are used without ECDSA_sign having returned 1")
            if not (isinstance(args[0], tuple) and args[0] and args[0][0] == "ptrto"):
                probs.append("ECDSA_SIG_from_bytes: pointer does not come from a known buffer")
        if name == "ECDSA_verify":
            r = self.ret_is_one(ai, st, "ECDSA_SIG_to_bytes")
            if not r:
                probs.append("ECDSA_verify: DER signature pointer/length used without ECDSA_SIG_to_bytes having returned 1")
        if name in self.FFI_BUFFERS or name in ("BN_bn2bin", "ECDSA_SIG_from_bytes"):
            self.ffi_checks.append((fk, name, probs))

def run_ownership_paths(ctx):
    """ECDSA_SIG_set0 transfers ownership of r and s to the signature object.  On every path after a successful set0 both
    DetachablePointers must be detached before the function exits (otherwise their Drop frees memory the ECDSA_SIG also frees:
    double free); on every path where set0 failed none may be detached (leak / use after free)."""
    from interp import Interp
    cr = ctx.crates["paseto_v3_aws_lc"]
    n = 0
    for k, f in cr.fns.items():
        if not f.get("body") or not any(b["term"]["k"] == "call" and (b["term"].get("callee") or {}).get("path", "").endswith("::ECDSA_SIG_set0") for b in f["body"]["blocks"]):
            continue
        n += 1
        res = Interp(ctx.world, inline=False).run(f)
        probs = []
        for r in res:
            evs = [e for e in r.path.events if e["kind"] == "call"]
            idx = next((i for i, e in enumerate(evs) if e["name"].endswith("::ECDSA_SIG_set0")), None)
            if idx is None:
                continue
            if r.kind not in ("return", "diverge"):
                probs.append(f"path after ECDSA_SIG_set0 ends as {r.kind}")
                continue
            news = sum(1 for e in evs[:idx] if "DetachablePointer" in e["name"] and e["name"].endswith("::new") or "DetachablePointer" in e["name"] and "::new::" in e["name"])
            dets = sum(1 for e in evs[idx + 1:] if "DetachablePointer" in e["name"] and e["name"].endswith("::detach"))
            status = None
            for g in r.path.guards:
                c = g["cond"]
                if isinstance(c, tuple) and c and c[0] == "binop" and c[1] in ("Ne", "Eq") and "ECDSA_SIG_set0" in repr(c[2])[:300] and c[3] == ("int", 1) and isinstance(g["value"], int):
                    status = (g["value"] == 0) if c[1] == "Ne" else (g["value"] == 1)
            if status is None:
                probs.append("a path continues after ECDSA_SIG_set0 without testing its status against 1")
            elif status and dets < max(news, 2):
                probs.append(f"a path leaves the function after a successful ECDSA_SIG_set0 with only {dets} of {max(news, 2)} operands detached (their Drop frees BIGNUMs the signature now owns: double free)")
            elif not status and dets:
                probs.append("detach() on a path where ECDSA_SIG_set0 failed")
        ctx.add("R04.2", f"C04/lc-ownership/{qshort(k)}/detach-on-every-success-path", not probs, "; ".join(sorted(set(probs))), site_of(f))
    if not n:
        ctx.add("R04.2", "C04/lc-ownership/anchor", False, "no function calls ECDSA_SIG_set0 (anchor missing)")

def syntactic_sites(f):
    out = []
    for bi, b in enumerate(f["body"]["blocks"]):
        if b.get("cleanup"):
            continue
        t = b["term"]
        if t["k"] == "assert":
            out.append((bi, "assert:" + re.split(r"[ ({]", str(t["msg"]))[0], "", b))
        elif t["k"] == "call" and t.get("callee") and "path" in t["callee"]:
            k = is_panic_call(t["callee"])
            if k:
                out.append((bi, k, t["callee"]["path"], b))
    return out

def run(ctx):
    w = ctx.world
    h = Host(w)
    crates = ctx.crates
    # callers map (resolved direct calls) and fn-pointer uses
    callers = collections.Counter()
    for cn in LIB_CRATES:
        for k, f in crates[cn].fns.items():
            if not f.get("body"):
                continue
            for b in f["body"]["blocks"]:
                t = b["term"]
                if t["k"] == "call" and t.get("callee") and "path" in t["callee"]:
                    tg = h.target(t["callee"])
                    if tg is not None:
                        callers[(tg["crate"], tg["key"])] += 1
    entries = 0
    # entry contract of the `dangerous_seal_with_nonce` trait method: the payload starts with what nonce() of the same impl returned
    for cn in LIB_CRATES:
        for k, f in crates[cn].fns.items():
            m = re.match(r"(.*SealingVersion<paseto_core::version::(Local|Public)> for core::V\d>)::dangerous_seal_with_nonce$", k)
            if not (m and f.get("body")):
                continue
            nf = crates[cn].fns.get(m.group(1) + "::nonce")
            r = h.analyse(nf, None, 0) if nf is not None and nf.get("body") else None
            n = r[2][1] if (r and r[0] == "O" and r[2] and r[2][0] == "VEC") else None
            ok = n is not None
            ctx.add("R04.4", f"C04/seal-entry/{cn}/{m.group(2)}/nonce-width", ok, "" if ok else "nonce() of this impl does not return a Vec of statically known minimum length", site_of(f), {"nonce_min_len": n})
            if ok:
                h.analyse(f, (None, None, ("VEC", n, 2 ** 63 - 1), None, None), 0)
                h.contract_entries.add((cn, k))
                entries += 1
    for k, f in crates["paseto_core"].fns.items():
        if re.match(r"tokens::UnsealedToken::<V, P, M, F>::seal$", k) and f.get("body"):
            og = Origins(f)
            probs = []
            sites = og.call_sites(lambda ce: ce["path"].endswith("dangerous_seal_with_nonce"))
            for bi, t in sites:
                o = og.operand(t["args"][-1], 0)
                if "SealingVersion::nonce" not in repr(o):
                    probs.append("seal() does not pass V::nonce() as the nonce")
            ctx.add("R04.4", "C04/seal-entry/core/seal-passes-nonce", bool(sites) and not probs, "; ".join(probs) or ("" if sites else "anchor missing"), site_of(f))
    for cn in LIB_CRATES:
        for k, f in crates[cn].fns.items():
            if f.get("body") and (entry_fn(f) or not callers[(cn, k)]) and (cn, k) not in h.contract_entries:
                h.analyse(f, None, 0)
                entries += 1
    # seal entry contract: dangerous_seal_with_nonce receives nonce() output (checked in R04.4)
    ctx.notes.append(f"absint: {entries} entry functions, {sum(len(v) for v in h.runs.values())} function contexts analysed")
    for e in h.errors:
        ctx.add("R04.1", f"C04/engine-error/{e[0]}/{e[1]}", False, "abstract interpreter raised: " + e[2][-300:])
    nsite = 0
    for cn in LIB_CRATES:
        for k, f in crates[cn].fns.items():
            if not f.get("body"):
                continue
            sites = syntactic_sites(f)
            if not sites:
                continue
            runs = h.runs.get((cn, k), [])
            ords = collections.Counter()
            og = None
            for bi, kind, callee, blk in sites:
                cs = short(callee).replace(" ", "")
                ords[(kind, cs)] += 1
                key = f"C04/site/{cn}/{qshort(k)}/{kind}:{cs}#{ords[(kind, cs)]}"
                nsite += 1
                verdicts = []
                for ai in runs:
                    for (b2, k2, n2), v in ai.sites.items():
                        if b2 == bi:
                            verdicts.append(v)
                why = None
                how = None
                if kind.startswith("lib:") and not verdicts:
                    verdicts = ["dependency API documented to panic: " + short(callee)]
                if kind == "operator":
                    og = og or Origins(f)
                    leaves = set(re.findall(r"\('arg', (\d+)", repr([og.operand(a, 0) for a in blk["term"]["args"]])))
                    if k.endswith("Validate>::validate") and leaves <= {"1"}:
                        verdicts = []     # both operands come from the validator's own fields (clock, leeway), none from the claims
                        how_op = "operands are the validator's configuration (self.*), not claim data"
                    elif re.search(r"Validate>::validate::\{closure#\d+\}$", k) and leaves <= {"1"} \
                            and _closure_captures_only_self(crates[cn], k):
                        verdicts = []     # a closure inside validate(): operands come from its environment, which captures self only
                    else:
                        verdicts = ["time arithmetic that panics on overflow, operands: args " + ",".join(sorted(leaves))]
                if not runs:
                    verdicts = ["function was not analysed"]
                if all(v is True for v in verdicts):
                    how = "intervals" if verdicts else "unreachable in the abstract semantics"
                else:
                    why = next(v for v in verdicts if v is not True)
                    construct = f"{kind}:{cs}"
                    for rc, rf, rk, mx, reason in REVIEWED:
                        if rc in ("*", cn) and re.search(rf, k) and re.match(rk, construct) and ords[(kind, cs)] <= mx:
                            how = "reviewed: " + reason
                            break
                ctx.add("R04.1", key, how is not None, "" if how else f"panic-capable construct not discharged: {why}", f"{blk['sp']['f']}:{blk['sp']['l']}" if isinstance(blk.get("sp"), dict) else None,
                        {"discharge": how, "contexts": len(runs)})
    # ---- R04.2: FFI constructor / ownership rules
    seen = collections.defaultdict(list)
    for fk, bi, path, probs in h.agg_checks:
        seen[(fk, path)].extend(probs or [])
    for (fk, path), probs in sorted(seen.items()):
        ctx.add("R04.2", f"C04/lc-constructor/{qshort(fk)}/{path}", not probs, "; ".join(sorted(set(probs))))
    seen = collections.defaultdict(list)
    for fk, bi, what, probs in h.call_checks:
        seen[(fk, what)].extend(probs or [])
    for (fk, what), probs in sorted(seen.items()):
        ctx.add("R04.2", f"C04/lc-ownership/{qshort(fk)}/{what}", not probs, "; ".join(sorted(set(probs))))
    seen = collections.defaultdict(list)
    for fk, name, probs in h.ffi_checks:
        seen[(fk, name)].extend(probs)
    for (fk, name), probs in sorted(seen.items()):
        ctx.add("R04.2", f"C04/ffi-buffer/{qshort(fk)}/{name}", not probs, "; ".join(sorted(set(probs))))
    run_r042(ctx, h)
    run_ownership_paths(ctx)
    # ---- R04.3: the 49-byte invariant behind lc::compressed_pub_key's assertion (D5)
    k3 = ("paseto_v3_aws_lc", "lc::VerifyingKey::from_sec1_bytes")
    f3 = crates["paseto_v3_aws_lc"].fns.get(k3[1])
    cx = h.contexts.get(k3, [])
    probs = []
    if f3 is None:
        probs.append("anchor missing: lc::VerifyingKey::from_sec1_bytes")
    else:
        if f3.get("reach"):
            probs.append("lc::VerifyingKey::from_sec1_bytes is reachable from outside the crate (callers cannot be enumerated)")
        if not cx:
            probs.append("no calling context found")
        for closed, depth in cx:
            a = closed[0] if closed else None
            if not (a and a[0] == "S" and a[1] == a[2] == 49):
                probs.append(f"a caller passes a byte string whose length is not proved to be exactly 49 (abstract length {a[1:] if a else 'unknown'}): the 1-byte point-at-infinity encoding could become a key")
    ctx.add("R04.3", "C04/lc-public-key-is-49-bytes", not probs, "; ".join(sorted(set(probs))), site_of(f3) if f3 else None, {"contexts": [c[0] for c in cx]})
    ctx.sample({"sites": nsite, "entries": entries, "contexts": sum(len(v) for v in h.runs.values())})

from cfg import root_of

UNSAFE_STD = re.compile(r"(from_utf8_unchecked|get_unchecked|unwrap_unchecked|unreachable_unchecked|assume_init|from_raw_parts|from_raw|set_len|"
                        r"::ptr::(mut_ptr|const_ptr)::<impl \*(mut|const) T>::(add|sub|offset|read|write|copy_from|copy_to)|::ptr::(read|write|copy|copy_nonoverlapping)|transmute|"
                        r"new_unchecked|as_ref_unchecked|zeroed|uninit)$")
UNSAFE_HOMES = {"paseto_v3_aws_lc": re.compile(r"^(<?lc::|<\*mut .* as lc::ptr::Pointer>)"), "paseto_core": re.compile(r"^base64::")}

def run_r042(ctx, h):
    """Census: raw-pointer dereferences, FFI calls and calls to unsafe std functions occur only in the two modules that own them."""
    where = collections.Counter()
    bad = []
    for cn in LIB_CRATES:
        cr = ctx.crates[cn]
        for k, f in cr.fns.items():
            if not f.get("body"):
                continue
            n = 0
            for b in f["body"]["blocks"]:
                if b.get("cleanup"):
                    continue
                t = b["term"]
                if t["k"] == "call" and t.get("callee") and "path" in t["callee"]:
                    ce = t["callee"]
                    if ce.get("crate", "").endswith("_sys") or ce["path"] in cr.foreign or UNSAFE_STD.search(ce.get("r_path") or ce["path"]):
                        if isinstance(b.get("sp"), dict) and b["sp"].get("x"):
                            continue       # inside a macro expansion of std (format_args!, vec!)
                        n += 1
                    tf = h.target(ce)
                    if tf is not None and tf.get("unsafe"):
                        n += 1
            if f.get("unsafe"):
                n += 1
            if n:
                home = UNSAFE_HOMES.get(cn)
                if home is not None and home.search(k):
                    where[cn] += n
                else:
                    bad.append(f"{cn}::{qshort(k)} ({n} unsafe operation(s))")
    # from_utf8_unchecked: the bytes must come from the base64 encoder (ASCII by C09 R09.4), i.e. a buffer only ever written by encode_3bytes / encode_last
    cr = ctx.crates["paseto_core"]
    n_utf8 = 0
    for k, f in cr.fns.items():
        if not f.get("body"):
            continue
        og = None
        for bi, b in enumerate(f["body"]["blocks"]):
            t = b["term"]
            if t["k"] == "call" and t.get("callee") and t["callee"].get("path", "").endswith("from_utf8_unchecked"):
                n_utf8 += 1
                probs = []
                root, via_call = root_of(f, t["args"][0])
                if via_call is not None:
                    if via_call != "base64::encode_last":
                        probs.append(f"argument is the result of {via_call}, not of the base64 encoder")
                elif root is None:
                    probs.append("argument is not a local buffer nor encode_last's result")
                else:
                    writers = set()
                    for b2 in f["body"]["blocks"]:
                        t2 = b2["term"]
                        if t2["k"] == "call" and t2.get("callee") and "path" in t2["callee"] and not t2["callee"]["path"].endswith("from_utf8_unchecked"):
                            for a2 in t2["args"]:
                                r2, _ = root_of(f, a2)
                                if r2 == root:
                                    writers.add(t2["callee"]["path"])
                    for b2 in f["body"]["blocks"]:
                        for st2 in b2["stmts"]:
                            if st2["k"] == "assign" and st2["place"]["l"] == root and st2["place"]["p"]:
                                writers.add("direct element write")
                    if not writers or not writers <= {"base64::encode_3bytes", "base64::encode_last"}:
                        probs.append(f"buffer is written by {sorted(writers - {'base64::encode_3bytes', 'base64::encode_last'}) or 'nothing'} (only the base64 encoder may fill it)")
                ctx.add("R04.2", f"C04/utf8-unchecked/{qshort(k)}#{n_utf8}", not probs, "; ".join(probs), f"{b['sp']['f']}:{b['sp']['l']}")
    ctx.add("R04.2", "C04/unsafe-census/confined", not bad, "unsafe operations outside paseto-v3-aws-lc::lc and paseto-core::base64: " + "; ".join(bad) if bad else "", None, {"counts": dict(where)})
    for cn, floor in (("paseto_v3_aws_lc", 40), ("paseto_core", 2)):
        ctx.add("R04.2", f"C04/unsafe-census/{cn}", where[cn] >= floor, f"only {where[cn]} unsafe operations found where {floor} were counted (anchor moved?)" if where[cn] < floor else "", None, {"count": where[cn]})
