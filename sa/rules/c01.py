"""C01 — seal → unseal round trip (static necessary conditions; see DESIGN.md §4 C01)."""
from ops import *
from norm import fn as fmt_n
from runner import site_of
from errclass import *

EXPLANATION = (
    "Static summary composition: for each of the 6 backends x {local, public}, paseto-core's generic "
    "UnsealedToken::seal (library nonce) and SealedToken::unseal are evaluated over MIR into symbolic terms "
    "with the backend's trait impls substituted; the token term produced by seal is fed to unseal and the rule "
    "demands (a) exactly one success path each, (b) every verification on the success path compares two "
    "syntactically identical constructions (same primitive, key origin, transcript), (c) the bytes handed to the "
    "payload decoder are exactly the bytes the payload encoder produced, and the footer returned is the footer given, "
    "(d) the library nonce has the width the backend consumes, (e) every Err exit of the seal path is environmental "
    "(RNG, encoder, library-reported, unsupported aad). Decides construction symmetry and widths; does not decide that "
    "primitives invert or behaviour at particular lengths.")
ASSUMPTIONS = [
    "rustc type checking / MIR construction are correct",
    "dependency primitives are deterministic functions of their inputs (MAC, KDF, stream cipher keystream, signature verification accepts what the matching key signed)",
    "WriteBytes adapters forward bytes unchanged (checked by C15 R15.2)",
    "Payload::encode appends to its writer and decode(encode(x)) = x (C14 for the JSON payloads)",
    "contract table for the aws-lc FFI wrapper module (lc::*), whose bodies are checked by C04/T-FIXW rules",
]
FLOORS = {"R01.1": 12, "R01.2": 6, "R01.5": 12}

NONCE_SPEC = {"v1": 32, "v2": 24, "v3": 32, "v3-aws-lc": 32, "v4": 32, "v4-sodium": 32}

def run(ctx):
    w = ctx.world
    for be in BACKENDS:
        for purpose in ("Local", "Public"):
            key = f"{be}/{purpose.lower()}"
            c = compose_token(w, be, purpose)
            ctx.analysed["functions"] += 2
            for k in ("seal", "unseal"):
                if k in c:
                    ctx.analysed["paths"] += len(c[k].results)
            # R01.1 round trip
            probs = list(c["problems"])
            if "verifications" in c:
                if not c["verifications"]:
                    probs.append("no verification event on the unseal success path")
                for (i, e, t) in c["verifications"]:
                    if not verify_holds(t):
                        probs.append("verification does not compare identical constructions: " + fmt_n(t)[:900])
                das = c.get("decode_args", [])
                want = ("ENCODED", "payload", ("fld", ("in", "self"), 0))
                if len(das) != 1:
                    probs.append(f"expected one payload decode, found {len(das)}")
                elif das[0] != want:
                    probs.append("bytes handed to the payload decoder differ from the encoder's output: decode(" + fmt_n(das[0])[:600] + ")")
                res = c.get("result")
                okres = (isinstance(res, tuple) and res[0] == "agg" and res[1].endswith("UnsealedToken")
                         and len(res[2]) >= 2 and res[2][1] == ("ok", ("call", "<F as Footer>::decode", (("ENCODED", "footer", ("fld", ("in", "self"), 1)),)))
                         and isinstance(res[2][0], tuple) and res[2][0][0] == "ok" and res[2][0][1][0] == "call"
                         and res[2][0][1][1].endswith("Payload>::decode") and res[2][0][1][2] == (want,))
                if not okres and not probs:
                    probs.append("unsealed token is not {claims: decode(encoded claims), footer: given footer}: " + fmt_n(res)[:600])
            ctx.add("R01.1", f"C01/roundtrip/{key}", not probs, "; ".join(probs),
                    facts={"token": fmt_n(c.get("token"))[:1200] if c.get("token") else None})
            if not probs:
                ctx.sample({"backend": be, "purpose": purpose, "token_term": fmt_n(c["token"])[:700],
                            "verifications": [fmt_n(t)[:300] for _, _, t in c["verifications"]]})
            # R01.5 err exits of the seal path
            if "seal" in c:
                classes, bad = classify_paths(c["seal"])
                ctx.add("R01.5", f"C01/seal-err-exits/{key}", not bad, "; ".join(bad)[:1500], facts={"classes": classes})
        # R01.2 nonce width
        crate = BACKENDS[be]
        nf = find_impl_fn(w, crate, "::SealingVersion", "nonce", "Local")
        if nf is None:
            ctx.add("R01.2", f"C01/nonce-width/{be}", False, "anchor missing: SealingVersion<Local>::nonce")
            continue
        rn = Run(w, nf)
        oks = rn.ok_paths
        wdt = None
        if len(oks) == 1:
            v = rn.norm.n(rn.ret_value(oks[0]))
            wdt = rn.norm.width(v)
            isrng = isinstance(v, tuple) and v[0] == "RNG"
        ok = len(oks) == 1 and wdt == NONCE_SPEC[be] and isrng
        ctx.add("R01.2", f"C01/nonce-width/{be}", ok,
                "" if ok else f"nonce() yields {fmt_n(v) if len(oks)==1 else '?'} (width {wdt}); the version consumes {NONCE_SPEC[be]} bytes",
                site=site_of(nf))

# ---------------------------------------------------------------- R01.4: FFI wrapper functions on the seal path
FFI_VALUE_GETTERS = ("BN_num_bytes", "BN_bn2bin", "EC_POINT_point2oct", "BN_num_bits")
FFI_STATUS = ("BN_bn2bin_padded", "ECDSA_sign", "ECDSA_SIG_set0", "ECDH_compute_key", "EC_KEY_set_group", "EC_KEY_set_private_key",
              "EC_KEY_set_public_key", "EC_POINT_mul", "ECDSA_SIG_to_bytes", "ECDSA_verify", "EC_POINT_oct2point", "ECDSA_SIG_get0")
REVIEWED_CONST = {"ECDSA_size": "maximum DER size of a P-384 signature; depends only on the group (104)"}

def ffi_head(t):
    """Name of the FFI function whose *result* a guard condition compares, if any."""
    if isinstance(t, tuple) and t:
        if t[0] == "binop" and t[1] in ("Ne", "Eq", "Lt", "Le", "Gt", "Ge"):
            for side in (t[2], t[3]):
                h = ffi_head(side)
                if h:
                    return h
        if t[0] == "cast":
            return ffi_head(t[2])
        if t[0] == "call" and "aws_lc_sys::" in t[1]:
            return t[1].rsplit("::", 1)[-1]
        if t[0] == "unop":
            return ffi_head(t[2])
    return None

def lc_err_exits(ctx, fnpath, keyprefix):
    w = ctx.world
    f = w.find_fn("paseto_v3_aws_lc", fnpath)
    if f is None:
        ctx.add("R01.4", f"{keyprefix}/{fnpath}", False, "anchor missing")
        return
    from interp import Interp
    from norm import Norm
    it = Interp(w)
    res = it.run(f)
    nm = Norm()
    bad = []
    classes = {}
    for r in res:
        if r.kind != "return" or r.okness is not False:
            continue
        g = r.path.guards[-1] if r.path.guards else None
        cond = nm.n(g["cond"]) if g else None
        h = ffi_head(cond)
        if h in FFI_VALUE_GETTERS:
            cls = "value-dependent"
            bad.append(f"Err exit controlled by the value returned by {h}: {fmt_n(cond)[:160]}")
        elif h in FFI_STATUS:
            cls = "callee-reported"
        elif h in REVIEWED_CONST:
            cls = "reviewed-constant"
        elif h is None:
            cls = "pointer/option check"
        else:
            cls = "unlisted-ffi:" + h
            bad.append(f"Err exit controlled by unlisted FFI result {h}")
        classes[cls] = classes.get(cls, 0) + 1
    ctx.add("R01.4", f"{keyprefix}/{fnpath}", not bad, "; ".join(sorted(set(bad))), site=site_of(f), facts={"classes": classes})

_run0 = run
def run(ctx):
    _run0(ctx)
    # lc functions reached from the aws-lc seal paths
    seen = set()
    for purpose in ("Local", "Public"):
        c = compose_token(ctx.world, "v3-aws-lc", purpose)
        if "seal" not in c:
            continue
        for r in c["seal"].results:
            for e in r.path.events:
                if e["kind"] in ("call", "append") and (e.get("path") or "").startswith("lc::") and e.get("crate") == "paseto_v3_aws_lc":
                    seen.add(e["path"])
    for p in sorted(seen):
        lc_err_exits(ctx, p, "C01/lc-err-exits")
    fromstr_fields(ctx)
    rsa_width_anchor(ctx)

def fromstr_fields(ctx):
    """R01.6: a parsed token stores the decoded payload bytes, the decoded footer bytes, and F::decode of those bytes."""
    from norm import Norm
    f, rr = run_fromstr(ctx.world, "tokens::SealedToken")
    if f is None:
        ctx.add("R01.6", "C01/fromstr-fields/SealedToken", False, "anchor missing: FromStr for SealedToken")
        return
    it, results = rr
    nm = Norm()
    probs = []
    oks = [r for r in results if r.kind == "return" and r.okness is not False]
    if not oks:
        probs.append("no success path")
    for r in oks:
        v = nm.n(it.argval(r.path, it.okv(None, r.path, r.ret)))
        if not (isinstance(v, tuple) and v[0] == "agg" and v[1].endswith("SealedToken") and len(v[2]) >= 3):
            probs.append("result is not a SealedToken aggregate: " + fmt_n(v)[:200])
            continue
        payload, ef, footer = v[2][0], v[2][1], v[2][2]
        def is_decoded(x):
            return "base64::decode_vec" in repr(x)
        if not is_decoded(payload):
            probs.append("payload field is not the base64 decoding of the first segment: " + fmt_n(payload)[:200])
        want = ("ok", ("call", "<F as Footer>::decode", (ef,)))
        if footer != want:
            probs.append("footer field is not F::decode(stored footer bytes): " + fmt_n(footer)[:300])
    ctx.add("R01.6", "C01/fromstr-fields/SealedToken", not probs, "; ".join(sorted(set(probs))), site_of(f))

def rsa_width_anchor(ctx):
    """R01.3: the 256-byte v1 signature width is anchored by the 2048-bit modulus test in both key decoders."""
    from keyrules import modulus_guard
    for kind in ("Secret", "Public"):
        ok, why, f = modulus_guard(ctx.world, "paseto_v1", kind, 2048)
        ctx.add("R01.3", f"C01/rsa-width-anchor/v1/{kind.lower()}", ok, why, site_of(f) if f else None)
FLOORS["R01.6"] = 1
FLOORS["R01.3"] = 2
FLOORS["R01.4"] = 3

# ---- shared rules: the text form and the built-in claims codec are part of the round trip Display -> FromStr -> unseal -> decode
class _Scratch:
    def __init__(s, ctx): s.findings = []; s.world = ctx.world; s.crates = ctx.crates; s.analysed = {"functions": 0, "paths": 0, "call_sites": 0}; s.notes = []; s.tier = ctx.tier; s.facts_dir = ctx.facts_dir
    def add(s, rule, k, ok, detail="", site=None, facts=None): s.findings.append((rule, k, ok, detail, site))
    def sample(s, x): pass

_run_core = run
def run(ctx):
    _run_core(ctx)
    import b64rules, c14
    sc = _Scratch(ctx)
    b64rules.check_encoder(sc)
    for (rule, k, ok, detail, site) in sc.findings:
        # R01.7 (shared with C09 R09.7): what to_string() prints is the base64url of the whole payload (one-pass encoder)
        ctx.add("R01.7", "C01/text-encoder/" + k.rsplit("/", 1)[-1], ok, detail, site)
    sc = _Scratch(ctx)
    c14.run(sc)
    for (rule, k, ok, detail, site) in sc.findings:
        if rule in ("R14.1", "R14.2", "R14.3"):
            # R01.8 (shared with C14): the built-in claims payload is written and read through the same member table
            ctx.add("R01.8", "C01/claims-codec/" + k.split("/", 1)[-1], ok, detail, site)
_run_c01b = run
def run(ctx):
    _run_c01b(ctx)
    import c02
    # R01.9 (shared manifest scan): the JSON payload codec is serde_json as configured by default
    c02.check_manifest_features(ctx, c02.DENY_JSON, "R01.9", "C01/manifest-features")
FLOORS["R01.9"] = 1
FLOORS["R01.7"] = 2
FLOORS["R01.8"] = 4
