"""Specification transcripts for PASETO v1–v4 and PASERK k1–k4, as normalised terms (see norm.py).

Transcribed by hand from the public PASETO / PASERK specification documents (Version1–4.md,
PASERK operations ID / Wrap(pie) / PBKW / PKE); the sandbox is offline, so each builder cites the
spec step it encodes in a comment. `CTR` always means the full 128-bit big-endian counter
(NIST SP 800-38A as implemented by OpenSSL `aes-256-ctr`).
"""
from norm import Norm

_N = Norm()

def B(x):
    return ("b", x)
def IN(n):
    return ("in", n)
def FLD(x, i):
    return ("fld", x, i)
def cat(*parts):
    return _N.cat(list(parts))
def sl(x, lo, hi):
    """lo/hi: int (from start) or ('end', k) (k bytes before the end)."""
    def b(v):
        if isinstance(v, tuple) and v[0] == "end":
            return (-v[1], 1)
        return (v, 0)
    return _N.sl(x, b(lo), b(hi))
END = ("end", 0)
def MAC(alg, key, *msg):
    return ("MAC", alg, key, cat(*msg))
def H(alg, *msg):
    return ("H", alg, cat(*msg))
def PAE(*pieces):
    return ("PAE", tuple(tuple(p) for p in pieces))
def CIPHER(alg, key, iv):
    return ("CIPHER", alg, key, iv)
def ENC(c, d):
    return ("ENC", c, d)
def HKDF(salt, ikm, info, L):
    return ("HKDF", ("SHA-384", 48), salt, ikm, info, L)

HMAC384 = ("HMAC-SHA384", 48)
SHA384 = ("SHA-384", 48)
def B2MAC(n):
    return ("BLAKE2b-MAC", n)
def B2(n):
    return ("BLAKE2b", n)

ENCODING = IN("encoding")
FOOTER = IN("footer")
AAD = IN("aad")
PAYLOAD = IN("payload")

def hdr(v, purpose):
    return (B(v), ENCODING, B(b".local." if purpose == "local" else b".public."))

# ------------------------------------------------------------------ tokens: local, sealing side
# input `payload` = nonce-seed || message (as handed over by paseto-core), key = LocalKey.0
def local_seal(version):
    k = FLD(IN("key"), 0)
    if version == "v1":
        # Version1.md Encrypt: n = HMAC-SHA384(key=b, m)[0:32]; Ek/Ak = HKDF-SHA384(salt=n[0:16], ikm=k, info=..., 32);
        # c = AES-256-CTR(Ek, n[16:32], m); t = HMAC-SHA384(Ak, PAE(h, n, c, f)); out n||c||t
        b = sl(PAYLOAD, 0, 32); m = sl(PAYLOAD, 32, END)
        n = sl(MAC(HMAC384, b, m), 0, 32)
        ek = HKDF(sl(n, 0, 16), k, B(b"paseto-encryption-key"), 32)
        ak = HKDF(sl(n, 0, 16), k, B(b"paseto-auth-key-for-aead"), 32)
        c = ENC(CIPHER("AES-256-CTR/128BE", ek, sl(n, 16, 32)), m)
        t = MAC(HMAC384, ak, PAE(hdr(b"v1", "local"), (n,), (c,), (FOOTER,)))
        return cat(n, c, t)
    if version == "v2":
        # Version2.md Encrypt: n = BLAKE2b(key=b, m, 24); c||t = XChaCha20-Poly1305(k, n, aad=PAE(h, n, f), m)
        b = sl(PAYLOAD, 0, 24); m = sl(PAYLOAD, 24, END)
        n = MAC(B2MAC(24), b, m)
        ak = ("AEADKEY", "XChaCha20-Poly1305", k)
        aad = PAE(hdr(b"v2", "local"), (n,), (FOOTER,))
        return cat(n, ("AEAD_ENC", ak, n, aad, m), ("AEAD_TAG", ak, n, aad, m))
    if version == "v3":
        # Version3.md Encrypt: tmp = HKDF-SHA384(ikm=k, salt=empty, info="paseto-encryption-key"||n, 48) -> Ek(32)|n2(16);
        # Ak = HKDF(..."paseto-auth-key-for-aead"||n, 48); c = AES-256-CTR(Ek, n2, m); t = HMAC-SHA384(Ak, PAE(h,n,c,f,i))
        n = sl(PAYLOAD, 0, 32); m = sl(PAYLOAD, 32, END)
        tmp = HKDF(B(b""), k, cat(B(b"paseto-encryption-key"), n), 48)
        ak = HKDF(B(b""), k, cat(B(b"paseto-auth-key-for-aead"), n), 48)
        c = ENC(CIPHER("AES-256-CTR/128BE", sl(tmp, 0, 32), sl(tmp, 32, 48)), m)
        t = MAC(HMAC384, ak, PAE(hdr(b"v3", "local"), (n,), (c,), (FOOTER,), (AAD,)))
        return cat(n, c, t)
    if version == "v4":
        # Version4.md Encrypt: tmp = BLAKE2b(key=k, "paseto-encryption-key"||n, 56) -> Ek(32)|n2(24);
        # Ak = BLAKE2b(key=k, "paseto-auth-key-for-aead"||n, 32); c = XChaCha20(Ek, n2, m); t = BLAKE2b(key=Ak, PAE(h,n,c,f,i), 32)
        n = sl(PAYLOAD, 0, 32); m = sl(PAYLOAD, 32, END)
        tmp = MAC(B2MAC(56), k, B(b"paseto-encryption-key"), n)
        ak = MAC(B2MAC(32), k, B(b"paseto-auth-key-for-aead"), n)
        c = ENC(CIPHER("XChaCha20", sl(tmp, 0, 32), sl(tmp, 32, 56)), m)
        t = MAC(B2MAC(32), ak, PAE(hdr(b"v4", "local"), (n,), (c,), (FOOTER,), (AAD,)))
        return cat(n, c, t)
    raise KeyError(version)

# ------------------------------------------------------------------ tokens: public — the signed message and scheme
def public_message(version, pk_piece=None):
    """(scheme, message term) signed by vN.public over payload m = whole input payload."""
    m = PAYLOAD
    if version == "v1":
        # Version1.md Sign: RSASSA-PSS(SHA-384, MGF1-SHA384) over PAE(h, m, f)
        return "RSASSA-PSS-SHA384", ("digest", SHA384, PAE(hdr(b"v1", "public"), (m,), (FOOTER,)))
    if version == "v2":
        # Version2.md Sign: Ed25519 over PAE(h, m, f)
        return "Ed25519", PAE(hdr(b"v2", "public"), (m,), (FOOTER,))
    if version == "v3":
        # Version3.md Sign: ECDSA-P384/SHA-384 over PAE(pk, h, m, f, i), pk = 49-byte compressed point
        return "ECDSA-P384-SHA384", ("digest", SHA384, PAE((pk_piece,), hdr(b"v3", "public"), (m,), (FOOTER,), (AAD,)))
    if version == "v4":
        # Version4.md Sign: Ed25519 over PAE(h, m, f, i)
        return "Ed25519", PAE(hdr(b"v4", "public"), (m,), (FOOTER,), (AAD,))
    raise KeyError(version)

SIG_WIDTH = {"v1": 256, "v2": 64, "v3": 96, "v4": 64}

# ------------------------------------------------------------------ PASERK
def kver(version):
    return b"k" + version[1:2].encode()

def key_id(version):
    """ID.md: id = H(header || paserk-text) with header = 'kN' || '.lid.'|'.pid.'|'.sid.'; k1/k3: SHA-384 truncated to 33;
    k2/k4: BLAKE2b with 33-byte output."""
    msg = (B(kver(version)), IN("key_header"), IN("key_data"))
    if version in ("v1", "v3"):
        return sl(H(SHA384, *msg), 0, 33)
    return H(B2(33), *msg)

def pie_blob(version, keydata, n=("RNG", 32), wk=None, header=None):
    """Wrap/pie.md. k1/k3: x = HMAC-SHA384(wk, 0x80||n) -> Ek = x[0:32], n2 = x[32:48]; Ak = HMAC-SHA384(wk, 0x81||n)[0:32];
    c = AES-256-CTR(Ek, n2, ptk); t = HMAC-SHA384(Ak, h||n||c); out t||n||c.
    k2/k4: x = BLAKE2b(key=wk, 0x80||n, 56) -> Ek|n2(24); Ak = BLAKE2b(key=wk, 0x81||n, 32); c = XChaCha20; t = BLAKE2b(key=Ak, h||n||c, 32)."""
    wk = wk if wk is not None else FLD(IN("wrapping_key"), 0)
    h = (B(kver(version)), header if header is not None else IN("header"))
    if version in ("v1", "v3"):
        x = MAC(HMAC384, wk, B(b"\x80"), n)
        ak = sl(MAC(HMAC384, wk, B(b"\x81"), n), 0, 32)
        c = ENC(CIPHER("AES-256-CTR/128BE", sl(x, 0, 32), sl(x, 32, 48)), keydata)
        t = MAC(HMAC384, ak, *h, n, c)
    else:
        x = MAC(B2MAC(56), wk, B(b"\x80"), n)
        ak = MAC(B2MAC(32), wk, B(b"\x81"), n)
        c = ENC(CIPHER("XChaCha20", sl(x, 0, 32), sl(x, 32, 56)), keydata)
        t = MAC(B2MAC(32), ak, *h, n, c)
    return cat(t, n, c)

def pbkw_blob(version, keydata, header=None, s=None, n=None):
    """PBKW.md. k1/k3: s=32 random; k = PBKDF2-HMAC-SHA384(pw, s, i, 32); Ek = SHA-384(0xFF||k)[0:32]; Ak = SHA-384(0xFE||k);
    n = 16 random; edk = AES-256-CTR(Ek, n, ptk); t = HMAC-SHA384(Ak, h||s||i_be32||n||edk); out s||i||n||edk||t.
    k2/k4: s=16 random; k = Argon2id(pw, s, mem, time, para, 32); Ek = BLAKE2b-256(0xFF||k); Ak = BLAKE2b-256(0xFE||k); n = 24 random;
    edk = XChaCha20(Ek, n, ptk); t = BLAKE2b(key=Ak, h||s||mem_be64||time_be32||para_be32||n||edk, 32); out s||mem||time||para||n||edk||t."""
    pw = IN("pass")
    P = IN("params")
    h = (B(kver(version)), header if header is not None else IN("header"))
    if version in ("v1", "v3"):
        s, n = s or ("RNG", 32), n or ("RNG", 16)
        k = ("PBKDF2", HMAC384, pw, s, ("BE", 32, P), 32)
        ek = sl(H(SHA384, B(b"\xff"), k), 0, 32)
        ak = H(SHA384, B(b"\xfe"), k)
        edk = ENC(CIPHER("AES-256-CTR/128BE", ek, n), keydata)
        t = MAC(HMAC384, ak, *h, s, P, n, edk)
    else:
        s, n = s or ("RNG", 16), n or ("RNG", 24)
        k = ("ARGON2ID13", pw, s, ("MEMBYTES", ("BE", 64, sl(P, 0, 8))), ("BE", 32, sl(P, 8, 12)), ("BE", 32, sl(P, 12, 16)), 32)
        ek = H(B2(32), B(b"\xff"), k)
        ak = H(B2(32), B(b"\xfe"), k)
        edk = ENC(CIPHER("XChaCha20", ek, n), keydata)
        t = MAC(B2MAC(32), ak, *h, s, P, n, edk)
    return cat(s, P, n, edk, t)

def pke_blob(version, pdk, esk, xpk_or_pk, dh, epk, c_rsa=None, r=None):
    """PKE.md. k2/k4: xk = X25519(esk, xpk); Ek = BLAKE2b-256(0x01||h||xk||epk||xpk); Ak = BLAKE2b-256(0x02||h||xk||epk||xpk);
    n = BLAKE2b-192(epk||xpk); edk = XChaCha20(Ek, n, pdk); t = BLAKE2b(key=Ak, h||epk||edk, 32); out t||epk||edk.
    k3: xk = ECDH(esk, pk); Ek||n = SHA-384(0x01||h||xk||epk||pk) -> 32|16; Ak = SHA-384(0x02||h||xk||epk||pk);
    edk = AES-256-CTR(Ek, n, pdk); t = HMAC-SHA384(Ak, h||epk||edk); out t||epk||edk.
    k1: r = 512 random with top bits 01; c = r^e mod n (512 bytes); K = SHA-384(c); Ek||n = HMAC-SHA384(K, 0x01||h||r) -> 32|16;
    Ak = HMAC-SHA384(K, 0x02||h||r); edk = AES-256-CTR(Ek, n, pdk); t = HMAC-SHA384(Ak, h||c||edk); out t||edk||c."""
    h = kver(version) + b".seal."
    if version in ("v2", "v4"):
        xpk = xpk_or_pk
        ek = H(B2(32), B(b"\x01" + h), dh, epk, xpk)
        ak = H(B2(32), B(b"\x02" + h), dh, epk, xpk)
        n = H(B2(24), epk, xpk)
        edk = ENC(CIPHER("XChaCha20", ek, n), pdk)
        t = MAC(B2MAC(32), ak, B(h), epk, edk)
        return cat(t, epk, edk)
    if version == "v3":
        pk = xpk_or_pk
        x = H(SHA384, B(b"\x01" + h), dh, epk, pk)
        ak = H(SHA384, B(b"\x02" + h), dh, epk, pk)
        edk = ENC(CIPHER("AES-256-CTR/128BE", sl(x, 0, 32), sl(x, 32, 48)), pdk)
        t = MAC(HMAC384, ak, B(h), epk, edk)
        return cat(t, epk, edk)
    if version == "v1":
        K = H(SHA384, c_rsa)
        x = MAC(HMAC384, K, B(b"\x01" + h), r)
        ak = MAC(HMAC384, K, B(b"\x02" + h), r)
        edk = ENC(CIPHER("AES-256-CTR/128BE", sl(x, 0, 32), sl(x, 32, 48)), pdk)
        t = MAC(HMAC384, ak, B(h), c_rsa, edk)
        return cat(t, edk, c_rsa)
    raise KeyError(version)

def diff(a, b, path="", out=None, limit=6):
    """First structural differences between two terms (for reports)."""
    if out is None:
        out = []
    if len(out) >= limit:
        return out
    if a == b:
        return out
    if isinstance(a, tuple) and isinstance(b, tuple) and a and b and len(a) == len(b):
        if isinstance(a[0], str) and a[0] == b[0]:
            for i, (x, y) in enumerate(zip(a, b)):
                if x != y:
                    diff(x, y, f"{path}/{a[0]}[{i}]", out, limit)
            return out
        if not isinstance(a[0], str) and not isinstance(b[0], str):
            for i, (x, y) in enumerate(zip(a, b)):
                if x != y:
                    diff(x, y, f"{path}#{i}", out, limit)
            return out
    from norm import fn
    out.append(f"at {path or '/'}: code has {fn(a)[:180]} ; spec has {fn(b)[:180]}")
    return out
