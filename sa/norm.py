"""Normaliser: rewrites library-specific call terms produced by interp.py into abstract
cryptographic terms, so that seal/unseal, sibling backends and the spec tables can be compared.

Normal forms
  ('in', name)                       input (parameter / pointee of a parameter)
  ('fld', x, i)                      field i of x
  ('b', bytes)                       constant bytes
  ('cat', (parts...))                concatenation
  ('sl', x, lo, hi)                  byte slice, bounds (k,e): k + e*len(x)
  ('PAE', ((frag,..),..))            pre-authentication encoding of pieces
  ('MAC', alg, key, msg)  ('H', alg, msg)      msg is ('cat', parts)
  ('MACST', alg, key, parts) ('HST', alg, parts)  streaming states
  ('CIPHER', alg, key, iv)  ('ENC', cipher, data)
  ('HKDF', hash, salt, ikm, info, len)  ('PBKDF2', prf, pw, salt, iter, len)  ('ARGON2', ...)
  ('RNG', width)
  ('call', name, args)               anything not recognised (kept, name position-free)
"""
import re
from interp import width_of

def _alg_from(name):
    m = re.search(r"Blake2bMac<U(\d+)>", name)
    if m:
        return ("BLAKE2b-MAC", int(m.group(1)))
    m = re.search(r"Blake2b<U(\d+)>", name)
    if m:
        return ("BLAKE2b", int(m.group(1)))
    if "Hmac<Sha384>" in name:
        return ("HMAC-SHA384", 48)
    if "Sha384" in name:
        return ("SHA-384", 48)
    if "Sha512" in name:
        return ("SHA-512", 64)
    return None

_CLOSURE = re.compile(r"\{closure@[^}]*\}")

def clean_name(n):
    return _CLOSURE.sub("{closure}", n)

class Norm:
    def __init__(self, input_widths=None):
        self.memo = {}
        self.unknown = set()
        self.input_widths = dict(input_widths or {})
        self.value_widths = {}      # normalised opaque term -> static byte width learnt from the type of a local that held it

    def n(self, t):
        if not isinstance(t, tuple) or not t:
            return t
        try:
            r = self.memo.get(t)
        except TypeError:
            r = None
        if r is not None:
            return r
        r = self._n(t)
        try:
            self.memo[t] = r
        except TypeError:
            pass
        return r

    # ----------------------------------------------------------- helpers
    def cat(self, parts):
        out = []
        for p in parts:
            if isinstance(p, tuple) and p and p[0] == "cat":
                out.extend(p[1])
            elif p == ("b", b""):
                continue
            else:
                out.append(p)
        # merge adjacent constants
        merged = []
        for p in out:
            if merged and isinstance(p, tuple) and p[0] == "b" and isinstance(merged[-1], tuple) and merged[-1][0] == "b":
                merged[-1] = ("b", merged[-1][1] + p[1])
            else:
                merged.append(p)
        if len(merged) == 1:
            return merged[0]
        return ("cat", tuple(merged))

    SIGW = {"Ed25519": 64, "ECDSA-P384-SHA384": 96, "RSASSA-PSS-SHA384": 256}
    def width(self, t):
        if not isinstance(t, tuple) or not t:
            return None
        k = t[0]
        if k == "SIG":
            return self.SIGW.get(t[1])
        if k == "in":
            return self.input_widths.get(t[1])
        if k == "SIG-lowS":
            return self.width(t[1])
        if k == "ENCPUB":
            return 49 if "P384" in repr(t[1])[:60] else None
        if k == "LEFTPAD":
            return t[1]
        if k == "SETBYTE":
            return self.width(t[1])
        if k == "XPUB":
            return 32
        if k == "DH":
            return 32 if t[1] == "X25519" else 48
        if k == "b":
            return len(t[1])
        if k in ("MAC", "H"):
            return t[1][1]
        if k == "sl":
            lo, hi = t[2], t[3]
            if isinstance(lo, tuple) and isinstance(hi, tuple) and lo[1] == hi[1]:
                return hi[0] - lo[0]
            w = self.width(t[1])
            if w is not None and isinstance(lo, tuple) and isinstance(hi, tuple):
                return (hi[0] + hi[1] * w) - (lo[0] + lo[1] * w)
            return None
        if k == "cat":
            ws = [self.width(p) for p in t[1]]
            return None if any(w is None for w in ws) else sum(ws)
        if k == "ENC":
            return self.width(t[2])
        if k in ("HKDF", "PBKDF2"):
            return t[-1] if isinstance(t[-1], int) else None
        if k == "RNG":
            return t[1] if isinstance(t[1], int) else None
        if k == "zeros":
            return t[1]
        if k == "W":
            return t[1]
        if k == "AEAD_TAG":
            return 16
        if k == "AEAD_ENC":
            return self.width(t[4])
        return self.value_widths.get(t)

    def sl(self, x, lo, hi):
        """slice; bounds (k,e) = k + e*len(x). Resolved against known widths / concatenation structure."""
        w = self.width(x)
        if w is not None:
            if lo[1] == 1:
                lo = (lo[0] + w, 0)
            if hi[1] == 1:
                hi = (hi[0] + w, 0)
            if lo == (0, 0) and hi == (w, 0):
                return x
        if lo == (0, 0) and hi == (0, 1):
            return x
        if isinstance(x, tuple) and x[0] == "sl" and lo[1] == 0 and hi[1] == 0 and x[2][1] == 0:
            base = x[2][0]
            return ("sl", x[1], (base + lo[0], 0), (base + hi[0], 0))
        if isinstance(x, tuple) and x[0] == "sl" and isinstance(x[2], tuple) and isinstance(x[3], tuple):
            # slice of a slice with end-relative inner bounds
            ilo, ihi = x[2], x[3]
            def comb(b):
                if b[1] == 0:
                    return (ilo[0] + b[0], ilo[1])
                return (ihi[0] + b[0], ihi[1])
            return ("sl", x[1], comb(lo), comb(hi))
        if isinstance(x, tuple) and x[0] == "cat":
            r = self._slice_cat(list(x[1]), lo, hi)
            if r is not None:
                return r
        if isinstance(x, tuple) and x[0] == "zeros" and lo[1] == hi[1]:
            return ("zeros", hi[0] - lo[0])
        if isinstance(x, tuple) and x[0] == "SETBYTE" and len(x) == 4 and isinstance(x[2], tuple) and x[2][0] == "int" \
                and lo[1] == 0 and hi[1] == 0:
            i = x[2][1]
            if lo == (i, 0) and hi == (i + 1, 0):
                # exactly the byte that was set
                v = x[3]
                if isinstance(v, tuple) and v[0] == "int" and 0 <= v[1] < 256:
                    return ("b", bytes([v[1]]))
                return ("byte", v)
            if hi[0] <= i or lo[0] > i:
                return self.sl(x[1], lo, hi)      # a range that does not contain the set byte
        return ("sl", x, lo, hi)

    def _slice_cat(self, parts, lo, hi):
        ws = [self.width(p) for p in parts]
        n = len(parts)
        def locate(b):
            """(index, offset): boundary is `offset` bytes into parts[index] (index==n: the very end)."""
            if b[1] == 0:
                acc = 0
                for i, wi in enumerate(ws):
                    if b[0] == acc:
                        return (i, 0)
                    if wi is None:
                        return None
                    if b[0] < acc + wi:
                        return (i, b[0] - acc)
                    acc += wi
                if b[0] == acc:
                    return (n, 0)
                return None
            acc = 0
            if b[0] == 0:
                return (n, 0)
            for i in range(n - 1, -1, -1):
                wi = ws[i]
                if wi is None:
                    return None
                acc -= wi
                if b[0] == acc:
                    return (i, 0)
                if b[0] > acc:
                    return (i, b[0] - acc)
            return None
        a = locate(lo)
        b = locate(hi)
        if a is None or b is None:
            return None
        (i, oi), (j, oj) = a, b
        if (i, oi) > (j, oj):
            return None
        out = []
        for k in range(i, min(j + 1, n)):
            p = parts[k]
            s = oi if k == i else 0
            if k == j:
                if oj == 0:
                    break
                e = oj
                out.append(self.sl(p, (s, 0), (e, 0)))
            else:
                if s == 0:
                    out.append(p)
                else:
                    out.append(self.sl(p, (s, 0), (0, 1)))
        if not out:
            return ("b", b"")
        return out[0] if len(out) == 1 else self.cat(out)

    # ----------------------------------------------------------- main rewrite
    def _n(self, t):
        k = t[0]
        N = self.n
        if k == "init":
            loc = t[1]
            return self.loc_in(loc)
        if k in ("param",):
            return ("in", t[2])
        if k == "bytes":
            return ("b", t[1])
        if k in ("int", "unit", "aconst", "fn"):
            return t
        if k == "zeros":
            return t
        if k in ("vec", "bytes_of"):
            return N(t[1])
        if k == "ptr":
            return ("ptr", self.loc_in(t[1]))
        if k == "view":
            return N(t[2])
        if k == "field":
            b = N(t[1])
            return self.field(b, t[2])
        if k == "okv":
            inner = N(t[1])
            return self.okv(inner)
        if k in ("branch",):
            return N(t[1])
        if k == "fallible":
            return N(t[1])
        if k == "concat":
            return self.cat([N(p) for p in t[1]])
        if k == "slice":
            x = N(t[1])
            lo, hi = t[2], t[3]
            if isinstance(lo, tuple) and isinstance(hi, tuple) and len(lo) == 2 and len(hi) == 2 and isinstance(lo[0], int) and isinstance(hi[0], int):
                return self.sl(x, lo, hi)
            return ("sl?", x, lo, hi)
        if k == "patched":
            base = N(t[1])
            ws = [(w[0], w[1], N(w[2])) for w in t[2]]
            return self.patched(base, ws)
        if k == "PAE":
            return ("PAE", tuple(tuple(N(f) for f in pc) if isinstance(pc, tuple) and (not pc or pc[0] != "?") else ("?", N(pc[1])) for pc in t[1]))
        if k == "xor":
            c = N(t[1])
            d = N(t[2])
            c = self.cipher(c)
            if isinstance(d, tuple) and d and d[0] == "ENC" and d[1] == c:
                return d[2]      # same keystream applied twice from a fresh state
            return ("ENC", c, d)
        if k == "encoded":
            return ("ENCODED", t[1], N(t[2]))
        if k == "rng":
            w = t[3] if isinstance(t[3], int) else None
            if w is None and isinstance(t[3], str):
                m = re.search(r"\[u8; (\d+)\]", t[3])
                w = int(m.group(1)) if m else None
            return ("RNG", w, clean_name(t[1]))
        if k == "agg":
            ops = tuple(N(o) for o in t[2])
            if t[1] == "array" and ops and all(isinstance(o, tuple) and o[0] == "int" and 0 <= o[1] < 256 for o in ops):
                return ("b", bytes(o[1] for o in ops))
            if t[1].startswith("closure:"):
                return ("agg", "closure", ops)
            if t[1].endswith("MontgomeryPoint::MontgomeryPoint") and len(ops) == 1:
                return ops[0]
            return ("agg", t[1], ops)
        if k == "repeat":
            return ("repeat", N(t[1]), t[2])
        if k == "mut":
            return self.mut(t)
        if k == "call":
            args = t[2]
            self._w = None
            if args and isinstance(args[-1], tuple) and args[-1] and args[-1][0] == "W":
                w = args[-1][1]
                args = args[:-1]
                nargs = tuple(N(a) for a in args)
                self._w = w
                return self.call(clean_name(t[1]), nargs, t)
            nargs = tuple(N(a) for a in args)
            self._w = None
            return self.call(clean_name(t[1]), nargs, t)
        if k == "with_fields":
            return ("with_fields", N(t[1]), tuple((i, N(v)) for i, v in t[2]))
        if k in ("binop",):
            return ("binop", t[1], N(t[2]), N(t[3]))
        if k in ("unop",):
            return ("unop", t[1], N(t[2]))
        if k == "len":
            return ("len", N(t[1]))
        if k == "cast":
            return ("cast", t[1], N(t[2]), t[3])
        if k == "tryarray":
            return ("tryarray", N(t[1]), t[2])
        if k == "leftpad":
            return ("LEFTPAD", t[1], N(t[2]))
        if k == "sinkstate":
            return ("SINK", t[1], ())
        if k == "sodium_xchacha20":
            return self.cipher(("sodium_xchacha20", N(t[1]), N(t[2])))
        if k == "awslc_ctr":
            return self.cipher(("awslc_ctr", N(t[1]), N(t[2])))
        if k == "split":
            return N(t[1])
        if k == "deref":
            return N(t[1])
        if k == "index" and len(t) == 3:
            b_, i_ = N(t[1]), (N(t[2]) if isinstance(t[2], tuple) else t[2])
            # reading back the byte that was just set
            if isinstance(b_, tuple) and b_ and b_[0] == "SETBYTE" and b_[2] == i_ and isinstance(i_, tuple) and i_[0] == "int":
                return b_[3]
            return ("index", b_, i_)
        if k in ("errv", "from_residual", "discr", "variant", "downcast", "is_empty", "index", "apply", "deref",
                 "uninit", "unknown", "overflow", "static"):
            return (k,) + tuple(N(a) if isinstance(a, tuple) else a for a in t[1:])
        return (k,) + tuple(N(a) if isinstance(a, tuple) else a for a in t[1:])

    def loc_in(self, loc):
        if not isinstance(loc, tuple):
            return ("in", str(loc))
        if not loc:
            return ("loc",)
        k = loc[0]
        if k == "P":
            return ("in", loc[2])
        if k == "R":
            base = self.loc_in(loc[1])
            return self.sl(base, loc[2], loc[3])
        if k == "V":
            return self.loc_in(loc[1])
        if k == "F":
            return self.field(self.loc_in(loc[1]), loc[2])
        if k == "C":
            return ("b", loc[1])
        if k == "L":
            return ("local", loc[2])
        if k == "K":
            return ("promoted", loc[2])
        return ("loc",) + tuple(self.loc_in(x) if isinstance(x, tuple) else x for x in loc[1:])

    def field(self, b, i):
        if isinstance(b, tuple) and b:
            if b[0] == "agg" and i < len(b[2]):
                return b[2][i]
            if b[0] == "gasplit":
                _, x, kk, w = b
                if i == 0:
                    return self.sl(x, (0, 0), (kk, 0))
                return self.sl(x, (kk, 0), (w, 0) if w is not None else (0, 1))
        return ("fld", b, i)

    def okv(self, inner):
        if isinstance(inner, tuple) and inner:
            if inner[0] in ("MACST", "HST", "MAC", "H", "CIPHER", "HKDF", "PBKDF2", "ARGON2", "AEADKEY", "MACKEY",
                            "b", "sl", "cat", "in", "ENC", "AEAD_TAG", "AWSKEY", "HKDFOKM", "SIG", "RNG", "W",
                            "XPUB", "EDPUB", "DH", "XSK", "PUB", "PARSEPT", "P384SK", "ENCPUB", "RSAENC", "SETBYTE", "INT", "TOBE", "LEFTPAD", "NARROW", "ARGON2ID13", "BE"):
                return inner
            if inner[0] == "call":
                return ("ok", inner)
        return ("ok", inner)

    def patched(self, base, ws):
        """base with sub-ranges overwritten -> concatenation when the writes tile the buffer with the untouched rest"""
        ws = sorted(ws, key=lambda w: (w[0][1], w[0][0]))
        parts = []
        cur = (0, 0)
        ok = True
        for lo, hi, v in ws:
            if lo != cur:
                if lo[1] == cur[1] and lo[0] < cur[0]:
                    ok = False
                    break
                parts.append(self.sl(base, cur, lo))
            parts.append(v)
            cur = hi
        if not ok:
            return ("patched", base, tuple(ws))
        if cur != (0, 1):
            bw = self.width(base)
            if not (bw is not None and cur == (bw, 0)):
                parts.append(self.sl(base, cur, (0, 1)))
        return self.cat(parts)

    def cipher(self, c):
        if not isinstance(c, tuple) or not c:
            return c
        if c[0] == "CIPHER":
            return c
        if c[0] == "mut" :
            return self.cipher(c[1])
        if c[0] == "sodium_xchacha20":
            key, nonce = c[1], c[2]
            key = self.strip_ctor(key, ("libsodium_rs::crypto_stream::Key::from_slice",))
            nonce = self.strip_ctor(nonce, ("libsodium_rs::crypto_stream::xchacha20::Nonce::from_bytes",
                                            "libsodium_rs::crypto_stream::xchacha20::Nonce::try_from_slice",
                                            "<Nonce as From<[u8; libsodium_rs::::xchacha20::{impl#3}::{constant#0}]>>::from"))
            return ("CIPHER", "XChaCha20", key, nonce)
        if c[0] == "awslc_ctr":
            key, ctxv = c[1], c[2]
            # key = ok(EncryptingKey::ctr(ok(UnboundCipherKey::new(&AES_256, ek))))
            k = key
            alg = "?"
            k = self.strip_ctor(k, ("aws_lc_rs::cipher::EncryptingKey::ctr",))
            if isinstance(k, tuple) and k[0] == "ok":
                k = k[1]
            if isinstance(k, tuple) and k[0] == "call" and k[1] == "aws_lc_rs::cipher::UnboundCipherKey::new":
                algt = k[2][0]
                alg = "AES-256" if "AES_256" in repr(algt) else repr(algt)
                k = k[2][1]
            iv = ctxv
            if isinstance(iv, tuple) and iv[0] == "agg" and iv[1].endswith("Iv128"):
                iv = iv[2][0]
                mode = "CTR/128BE"
            else:
                mode = "CTR/?"
            iv = self.strip_ctor(iv, ("<FixedLength<16> as From<&[u8; 16]>>::from", "<FixedLength<16> as From<[u8; 16]>>::from"))
            return ("CIPHER", f"{alg}-{mode}", k, iv)
        return c

    def strip_ctor(self, t, names):
        if isinstance(t, tuple) and t and t[0] == "ok":
            inner = t[1]
            if isinstance(inner, tuple) and inner[0] == "call" and inner[1] in names:
                return inner[2][0]
        if isinstance(t, tuple) and t and t[0] == "call" and t[1] in names:
            return t[2][0]
        return t

    def mut(self, t):
        N = self.n
        st = N(t[1])
        how = t[2]
        if how[0] == "PAE":
            data = ("PAE", tuple(tuple(N(f) for f in pc) for pc in how[2]))
            return self.absorb(st, data, "PAE")
        if how[0] == "apply_keystream":
            return st
        if how[0] == "setbyte":
            i_, v_ = N(how[1]), N(how[2])
            # a second store to the same constant index replaces the first (x[0] &= a; x[0] |= b  ==  x[0] = (x[0] & a) | b)
            if isinstance(st, tuple) and st and st[0] == "SETBYTE" and st[2] == i_ and isinstance(i_, tuple) and i_[0] == "int":
                return ("SETBYTE", st[1], i_, v_)
            return ("SETBYTE", st, i_, v_)
        name = clean_name(how[0])
        idx = how[1]
        others = tuple(N(a) for a in how[2])
        if idx == 0 and re.search(r"(::update(::<.*>)?$)", name) and len(others) == 1:
            return self.absorb(st, others[0], name)
        if idx == 0 and name.endswith("finalize_reset"):
            if isinstance(st, tuple) and st[0] == "MACST":
                return ("MACST", st[1], st[2], ())
        if name.endswith("AeadMutInPlace>::encrypt_in_place_detached") and idx == 3:
            key, nonce, aad = others
            return ("AEAD_ENC", self.aeadkey(key), nonce, aad, st)
        if name.endswith("AeadMutInPlace>::decrypt_in_place_detached") and idx == 3:
            key, nonce, aad, tag = others
            ak = self.aeadkey(key)
            if isinstance(st, tuple) and st and st[0] == "AEAD_ENC" and st[1:4] == (ak, nonce, aad) \
                    and tag == ("AEAD_TAG", ak, nonce, aad, st[4]):
                return st[4]
            return ("AEAD_DEC", ak, nonce, aad, st, tag)
        return ("mut", st, (name, idx, others))

    def aeadkey(self, k):
        if isinstance(k, tuple) and k[0] == "call" and k[1].endswith("KeyInit>::new"):
            alg = "XChaCha20-Poly1305" if "XChaCha20Poly1305" in k[1] else k[1]
            return ("AEADKEY", alg, k[2][0])
        return k

    def absorb(self, st, data, name):
        st = self.state(st)
        if isinstance(st, tuple) and st[0] == "MACST":
            return ("MACST", st[1], st[2], st[3] + (data,))
        if isinstance(st, tuple) and st[0] == "HST":
            return ("HST", st[1], st[2] + (data,))
        if isinstance(st, tuple) and st[0] == "SINK":
            return ("SINK", st[1], st[2] + (data,))
        return ("absorb", st, data, name)

    def state(self, st):
        """coerce constructor results to streaming states"""
        if isinstance(st, tuple) and st and st[0] == "ok":
            return self.state(st[1])
        return st

    def call(self, name, args, orig):
        a0 = args[0] if args else None
        alg = _alg_from(name)
        # ---- RustCrypto MAC / digest
        if name.endswith(" as Mac>::new_from_slice") or name.endswith(" as KeyInit>::new_from_slice"):
            if alg:
                return ("MACST", alg, a0, ())
        if re.search(r" as Mac>::finalize(_reset)?$", name):
            st = self.state(a0)
            if isinstance(st, tuple) and st[0] == "MACST":
                return ("MAC", st[1], st[2], self.cat(st[3]))
        if re.search(r" as (Mac|Digest|Update)>::chain_update(::<.*>)?$|^digest::Update::chain$", name) and len(args) == 2:
            # by-value builder form of update(): same absorbed data, the state is returned instead of mutated in place
            st = self.state(a0)
            if isinstance(st, tuple) and st and st[0] in ("MACST", "HST"):
                return self.absorb(st, args[1], name)
        if re.search(r" as (Digest>::new|Default>::default)$", name) and alg:
            return ("HST", alg, ())
        if re.search(r" as (Digest>::finalize|FixedOutput>::finalize_fixed)$", name):
            st = self.state(a0)
            if isinstance(st, tuple) and st[0] == "HST":
                return ("H", st[1], self.cat(st[2]))
        if re.search(r" as Digest>::digest(::<.*>)?$", name) and alg:
            return ("H", alg, self.cat([a0]))
        if re.search(r" as Mac>::verify(_slice)?$", name):
            st = self.state(a0)
            if isinstance(st, tuple) and st[0] == "MACST":
                return ("VERIFY", "mac", ("MAC", st[1], st[2], self.cat(st[3])), args[1])
        m = re.match(r"<&?GenericArray<u8, U(\d+)> as Split<u8, U(\d+)>>::split$", name)
        if m:
            return ("gasplit", a0, int(m.group(2)), int(m.group(1)))
        m = re.match(r"<(.+) as KeyIvInit>::new$", name)
        if m:
            c = m.group(1)
            algs = {"XChaCha20": "XChaCha20", "Ctr64BE<Aes256>": "AES-256-CTR/64BE", "Ctr128BE<Aes256>": "AES-256-CTR/128BE",
                    "Ctr32BE<Aes256>": "AES-256-CTR/32BE", "Ctr64LE<Aes256>": "AES-256-CTR/64LE", "Ctr128LE<Aes256>": "AES-256-CTR/128LE"}
            return ("CIPHER", algs.get(c, c), args[0], args[1])
        if name.endswith("AeadMutInPlace>::encrypt_in_place_detached"):
            key, nonce, aad, buf = args
            return ("AEAD_TAG", self.aeadkey(key), nonce, aad, buf)
        if name.endswith("AeadMutInPlace>::decrypt_in_place_detached"):
            key, nonce, aad, buf, tag = args
            ak = self.aeadkey(key)
            if isinstance(buf, tuple) and buf and buf[0] == "AEAD_ENC" and buf[1:4] == (ak, nonce, aad):
                pt = buf[4]
            else:
                pt = ("AEAD_PT_OF", buf)
            return ("VERIFY", "aead", ("AEAD_TAG", ak, nonce, aad, pt), tag)
        # ---- hkdf (RustCrypto)
        if name == "hkdf::Hkdf::<Sha384>::new":
            salt = args[0]
            if isinstance(salt, tuple) and salt[0] == "agg" and salt[1].endswith("::Some"):
                salt = salt[2][0]
            elif isinstance(salt, tuple) and salt[0] == "agg" and salt[1].endswith("::None"):
                salt = ("b", b"")
            return ("HKDFST", ("SHA-384", 48), salt, args[1])
        if name in ("hkdf::Hkdf::<Sha384>::expand#out", "hkdf::Hkdf::<Sha384>::expand_multi_info#out"):
            st, info = args[0], args[1]
            w = self._outw(orig)
            if isinstance(info, tuple) and info[0] == "agg" and info[1] == "array":
                info = self.cat(list(info[2]))
            else:
                info = self.cat([info])
            if isinstance(st, tuple) and st[0] == "HKDFST":
                return ("HKDF", st[1], st[2], st[3], info, w)
        m = re.match(r"pbkdf2::pbkdf2_array::<(.+), (\d+)>$", name)
        if m:
            return ("PBKDF2", _alg_from(m.group(1)) or m.group(1), args[0], args[1], args[2], int(m.group(2)))
        # ---- aws-lc-rs
        if name == "aws_lc_rs::hmac::Key::new":
            return ("MACKEY", self.awsalg(args[0]), args[1])
        if name == "aws_lc_rs::hmac::Context::with_key":
            k = a0
            if isinstance(k, tuple) and k[0] == "MACKEY":
                return ("MACST", k[1], k[2], ())
        if name == "aws_lc_rs::hmac::Context::sign":
            st = self.state(a0)
            if isinstance(st, tuple) and st[0] == "MACST":
                return ("MAC", st[1], st[2], self.cat(st[3]))
        if name == "aws_lc_rs::digest::Context::new":
            return ("HST", self.awsalg(a0), ())
        if name == "aws_lc_rs::digest::Context::finish":
            st = self.state(a0)
            if isinstance(st, tuple) and st[0] == "HST":
                return ("H", st[1], self.cat(st[2]))
        if name == "aws_lc_rs::digest::digest" and len(args) == 2:
            return ("H", self.awsalg(a0), self.cat([args[1]]))      # one-shot form of Context::new + update + finish
        if name == "aws_lc_rs::hkdf::Salt::new":
            return ("AWSSALT", self.awsalg(a0), args[1])
        if name == "aws_lc_rs::hkdf::Salt::extract":
            s = a0
            if isinstance(s, tuple) and s[0] == "AWSSALT":
                return ("HKDFST", s[1], s[2], args[1])
        if name.startswith("aws_lc_rs::hkdf::Prk::expand"):
            st, info = args[0], args[1]
            if isinstance(info, tuple) and info[0] == "agg" and info[1] == "array":
                info = self.cat(list(info[2]))
            if isinstance(st, tuple) and st[0] == "HKDFST":
                return ("HKDFOKM", st[1], st[2], st[3], info)
        if name.startswith("aws_lc_rs::hkdf::Okm") and name.endswith("fill#out"):
            o = self.state(a0)
            w = self._outw(orig)
            if isinstance(o, tuple) and o[0] == "HKDFOKM":
                return ("HKDF", o[1], o[2], o[3], o[4], w)
        if name == "aws_lc_rs::pbkdf2::derive#out":
            alg, it, salt, pw = args[0], args[1], args[2], args[3]
            return ("PBKDF2", self.awsalg(alg), pw, salt, it, self._outw(orig))
        if name == "aws_lc_rs::constant_time::verify_slices_are_equal":
            return ("VERIFY", "eq", args[0], args[1])
        # ---- libsodium
        if name == "libsodium_rs::crypto_generichash::State::new":
            key, outlen = args[0], args[1]
            n = outlen[1] if isinstance(outlen, tuple) and outlen[0] == "int" else outlen
            if isinstance(key, tuple) and key[0] == "agg" and key[1].endswith("::Some"):
                return ("MACST", ("BLAKE2b-MAC", n), key[2][0], ())
            if isinstance(key, tuple) and key[0] == "agg" and key[1].endswith("::None"):
                return ("HST", ("BLAKE2b", n), ())
        if name == "libsodium_rs::crypto_generichash::State::finalize":
            st = self.state(a0)
            if isinstance(st, tuple) and st[0] == "MACST":
                return ("MAC", st[1], st[2], self.cat(st[3]))
            if isinstance(st, tuple) and st[0] == "HST":
                return ("H", st[1], self.cat(st[2]))
        if name == "libsodium_rs::utils::compare":
            return ("VERIFY", "sodium_compare", args[0], args[1])
        if name == "libsodium_rs::crypto_pwhash::pwhash":
            outlen, pw, salt, ops, mem, algid = args
            ol = outlen[1] if isinstance(outlen, tuple) and outlen[0] == "int" else outlen
            mem = self.unok(mem)
            if isinstance(mem, tuple) and mem[0] == "NARROW":
                mem = mem[1]
            if algid == ("int", 2):
                # libsodium fixes parallelism to 1 (the caller guards para == 1)
                return ("ARGON2ID13", pw, salt, ("MEMBYTES", mem), ops, ("int", 1), ol)
            return ("ARGON2", "sodium", pw, salt, mem, ops, ol, algid)
        if name == "argon2::Argon2::<'_>::hash_password_into#out":
            a = self.argon2_params(args[0])
            if a is not None:
                mem, time, para = a
                return ("ARGON2ID13", args[1], args[2], mem, time, para, self._outw(orig))
            return ("ARGON2", "rustcrypto", args[1], args[2], args[0], self._outw(orig))
        m = re.match(r"zerocopy::byteorder::U(32|64)::<BigEndian>::get$", name)
        if m:
            return ("BE", int(m.group(1)), a0)
        if name in ("core::convert::num::<impl From<u32> for u64>::from",):
            return a0
        if name in ("core::convert::num::<impl TryFrom<u64> for u32>::try_from",
                    "core::convert::num::ptr_try_from_impls::<impl TryFrom<u64> for usize>::try_from"):
            return ("NARROW", a0)
        if name == "Option::ok_or" or name == "Result::map_err":
            return a0
        r = self.sigcall(name, args)
        if r is not None:
            return r
        r = self.dhcall(name, args)
        if r is not None:
            return r
        return ("call", name, args)

    # ---- Diffie-Hellman / KEM algebra ---------------------------------
    def leading_nonzero(self, x):
        """Is the first byte of x provably non-zero? (recognises `x[0] |= c` with c != 0 as the last store to byte 0)"""
        if isinstance(x, tuple) and x and x[0] == "SETBYTE" and x[2] == ("int", 0):
            v = x[3]
            if isinstance(v, tuple) and v[0] == "binop" and v[1] == "BitOr":
                for side in (v[2], v[3]):
                    if isinstance(side, tuple) and side[0] == "int" and (side[1] & 0xFF) != 0:
                        return True
            return False
        if isinstance(x, tuple) and x and x[0] == "SETBYTE":
            return self.leading_nonzero(x[1])
        return False

    def dh(self, group, a, b):
        return ("DH", group, tuple(sorted([a, b], key=repr)))

    def dhcall(self, name, args):
        a0 = args[0] if args else None
        u = self.unok
        if name == "curve25519_dalek::scalar::clamp_integer":
            return ("CLAMP", a0)
        if name == "curve25519_dalek::scalar::Scalar::from_bytes_mod_order":
            return ("XSCALAR", a0)
        if name == "curve25519_dalek::edwards::EdwardsPoint::mul_base":
            return ("EDPUB", a0)
        if name == "curve25519_dalek::edwards::EdwardsPoint::to_montgomery":
            x = u(a0)
            if isinstance(x, tuple) and x[0] == "EDPUB":
                return ("XPUB", x[1])
        if name == "curve25519_dalek::edwards::CompressedEdwardsY::decompress":
            x = a0
            if isinstance(x, tuple) and x[0] == "agg" and x[1].endswith("CompressedEdwardsY") and x[2]:
                pk = x[2][0]
                if isinstance(pk, tuple) and pk[0] == "PUB" and pk[1] == "Ed25519" and pk[2][0] == "dalek-esk":
                    return ("EDPUB", self.field(pk[2][1], 0))
        if name == "curve25519_dalek::montgomery::<impl Mul<MontgomeryPoint> for Scalar>::mul":
            b = args[1]
            if isinstance(b, tuple) and b[0] == "agg" and b[1].endswith("MontgomeryPoint") and b[2]:
                b = b[2][0]
            if isinstance(b, tuple) and b[0] == "XPUB":
                return self.dh("X25519", a0, b[1])
        # libsodium
        if name == "libsodium_rs::crypto_box::KeyPair::into_tuple":
            return ("agg", "tuple", (("XPUB", ("BOXSK", a0)), ("BOXSK", a0)))
        if name == "libsodium_rs::crypto_sign::ed25519_pk_to_curve25519":
            pk = a0
            if isinstance(pk, tuple) and pk[0] == "PUB" and pk[1] == "Ed25519" and pk[2][0] == "sodium-sk":
                return ("XPUB", ("XSK", pk[2][1]))
        if name == "libsodium_rs::crypto_sign::ed25519_sk_to_curve25519":
            return ("XSK", a0)
        if name == "libsodium_rs::crypto_scalarmult::curve25519::scalarmult":
            b = u(args[1])
            if isinstance(b, tuple) and b[0] == "XPUB":
                return self.dh("X25519", u(a0), b[1])
        # p384 (RustCrypto)
        if re.match(r"ecdsa::signing::<impl From<&?SigningKey<NistP384>> for SecretKey<NistP384>>::from$", name):
            return ("P384SK", ("p384-sk", u(a0)))
        if name == "elliptic_curve::secret_key::SecretKey::<NistP384>::public_key":
            if isinstance(a0, tuple) and a0[0] == "P384SK":
                return ("PUB", "ECDSA-P384-SHA384", a0[1])
        if name == "elliptic_curve::secret_key::SecretKey::<NistP384>::to_nonzero_scalar":
            return a0
        if name == "ecdsa::verifying::VerifyingKey::<NistP384>::as_affine":
            return a0
        if name in ("<PublicKey<NistP384> as ToEncodedPoint<NistP384>>::to_encoded_point",):
            return ("ENCPUB", a0) if args[1] == ("int", 1) else ("ENCPUB-uncompressed", a0)
        if name == "<PublicKey<NistP384> as Into<EncodedPoint<U48>>>::into":
            return ("ENCPUB-uncompressed", a0)
        if name == "sec1::point::EncodedPoint::<U48>::compress":
            if isinstance(a0, tuple) and a0[0] == "ENCPUB-uncompressed":
                return ("ENCPUB", a0[1])
        if name.startswith("sec1::point::EncodedPoint::<U48>::from_bytes"):
            return ("PARSEPT", u(a0))
        if name.startswith("<AffinePoint<NistP384> as TryFrom<&EncodedPoint<"):
            x = u(a0)
            if isinstance(x, tuple) and x[0] == "PARSEPT":
                y = u(x[1])
                if isinstance(y, tuple) and y[0] == "ENCPUB":
                    return y[1]
        if name.startswith("elliptic_curve::ecdh::diffie_hellman::<NistP384"):
            a, b = u(a0), u(args[1])
            if isinstance(a, tuple) and a[0] == "P384SK" and isinstance(b, tuple) and b[0] == "PUB":
                return self.dh("P-384", a[1], b[2])
        # RSA-KEM (paseto-v1 PKE)
        if name == "num_bigint_dig::biguint::BigUint::from_bytes_be":
            x = a0
            if isinstance(x, tuple) and x[0] == "LEFTPAD" and isinstance(x[2], tuple) and x[2][0] == "TOBE":
                return x[2][1]
            if isinstance(x, tuple) and x[0] == "TOBE":
                return x[1]
            return ("INT", x)
        if name == "num_bigint_dig::biguint::BigUint::to_bytes_be":
            v = u(a0)
            if isinstance(v, tuple) and v[0] == "INT" and self.leading_nonzero(v[1]):
                return v[1]
            return ("TOBE", v)
        if name.startswith("rsa::algorithms::rsa::rsa_encrypt"):
            return ("RSAENC", a0, args[1])
        if name.startswith("rsa::algorithms::rsa::rsa_decrypt_and_check"):
            c = u(args[2])
            if isinstance(c, tuple) and c[0] == "RSAENC" and c[1] == ("call", "RSA-public-key-of", (a0,)):
                return c[2]
        # aws-lc wrapper
        if name == "lc::SigningKey::diffie_hellman":
            b = u(args[1])
            if isinstance(b, tuple) and b[0] == "PUB":
                return self.dh("P-384", ("lc-sk", u(a0)), b[2])
        if name == "lc::VerifyingKey::from_sec1_bytes":
            x = u(a0)
            if isinstance(x, tuple) and x[0] == "ENCPUB":
                return x[1]
        return None

    # ---- signatures -------------------------------------------------
    SIG_IDENT = ("ed25519::Signature::to_bytes", "ed25519::Signature::from_bytes", "ecdsa::Signature::<NistP384>::to_bytes",
                 "ecdsa::Signature::<NistP384>::from_bytes", "<Signature as TryFrom<&[u8]>>::try_from",
                 "<Signature as Into<Box<[u8]>>>::into", "lc::Signature::to_bytes", "lc::Signature::from_bytes",
                 "rsa::pss::signature::<impl From<Signature> for Box<[u8]>>::from", "<Box<[u8]> as From<Signature>>::from",
                 "<Signature as Into<Vec<u8>>>::into", "<Vec<u8> as From<Signature>>::from")

    def unok(self, t):
        while isinstance(t, tuple) and t and t[0] == "ok":
            t = t[1]
        return t

    def sigcall(self, name, args):
        a0 = args[0] if args else None
        if name in self.SIG_IDENT:
            x = self.unok(a0)
            if isinstance(x, tuple) and x and x[0] == "tryarray":
                x = x[1]
            return x
        if name == "ed25519_dalek::hazmat::raw_sign_byupdate":
            esk, msg, vk = args
            msg = self.sinkmsg(msg)
            return ("SIG", "Ed25519", ("dalek-esk", esk), msg, vk)
        if name == "ed25519_dalek::verifying::VerifyingKey::verify_stream":
            return ("SINK", ("ed25519-verify", a0, self.unok(args[1])), ())
        if name == "ed25519_dalek::verifying::stream::StreamVerifier::finalize_and_verify":
            st = self.unok(a0)
            if isinstance(st, tuple) and st[0] == "SINK" and st[1][0] == "ed25519-verify":
                return ("VERIFYSIG", "Ed25519", st[1][1], self.cat(st[2]), st[1][2])
        if name in ("lc::SigningKey::compressed_pub_key",):
            return ("ENCPUB", ("PUB", "ECDSA-P384-SHA384", ("lc-sk", a0)))
        if name in ("lc::VerifyingKey::compressed_pub_key",):
            return ("ENCPUB", a0)
        if name == "ecdsa::verifying::VerifyingKey::<NistP384>::to_encoded_point":
            return ("ENCPUB", a0) if args[1] == ("int", 1) else ("ENCPUB-uncompressed", a0)
        if name in ("<VerifyingKey as From<&ExpandedSecretKey>>::from", "<&ExpandedSecretKey as Into<VerifyingKey>>::into"):
            return ("PUB", "Ed25519", ("dalek-esk", a0))
        if name == "libsodium_rs::crypto_sign::sign_detached":
            return ("SIG", "Ed25519", ("sodium-sk", args[1]), self.cat([a0]), ("PUB", "Ed25519", ("sodium-sk", args[1])))
        if name == "libsodium_rs::crypto_sign::verify_detached":
            return ("VERIFYSIG", "Ed25519", args[2], self.cat([args[1]]), self.unok(a0))
        if name == "libsodium_rs::crypto_sign::PublicKey::from_bytes_exact":
            x = a0
            # last 32 bytes of the 64-byte libsodium secret key are the public key libsodium signs with
            if isinstance(x, tuple) and x and x[0] == "sl" and x[2] in ((32, 0), (-32, 1)) and x[3] in ((64, 0), (0, 1)):
                return ("PUB", "Ed25519", ("sodium-sk", x[1]))
        if re.match(r"<SigningKey<NistP384> as DigestSigner<Sha384, Signature<NistP384>>>::sign_digest$", name):
            return ("SIG", "ECDSA-P384-SHA384", ("p384-sk", a0), self.digestmsg(args[1]), None)
        if name == "ecdsa::Signature::<NistP384>::normalize_s":
            return ("LOWS?", a0)
        if name.endswith("Option::<Signature<NistP384>>::unwrap_or") or name == "Option::unwrap_or":
            x, d = args
            if isinstance(x, tuple) and x[0] == "LOWS?" and x[1] == d:
                return ("SIG-lowS", d)
        if re.match(r"<VerifyingKey<NistP384> as DigestVerifier<Sha384, Signature<NistP384>>>::verify_digest$", name):
            sig = self.unok(args[2])
            return ("VERIFYSIG", "ECDSA-P384-SHA384", a0, self.digestmsg(args[1]), sig)
        if name == "ecdsa::signing::SigningKey::<NistP384>::verifying_key":
            return ("PUB", "ECDSA-P384-SHA384", ("p384-sk", a0))
        if name == "lc::SigningKey::sign":
            return ("SIG", "ECDSA-P384-SHA384", ("lc-sk", a0), ("prehashed", args[1]), None)
        if name == "lc::VerifyingKey::verify":
            return ("VERIFYSIG", "ECDSA-P384-SHA384", a0, ("prehashed", args[1]), self.unok(args[2]))
        if name == "lc::SigningKey::verifying_key":
            return ("PUB", "ECDSA-P384-SHA384", ("lc-sk", a0))
        if re.match(r"<SigningKey<Sha384> as RandomizedDigestSigner<Sha384, Signature>>::try_sign_digest_with_rng::<OsRng>$", name):
            return ("SIG", "RSASSA-PSS-SHA384", ("rsa-sk", a0), self.digestmsg(args[2]), None)
        if re.match(r"<VerifyingKey<Sha384> as DigestVerifier<Sha384, Signature>>::verify_digest$", name):
            return ("VERIFYSIG", "RSASSA-PSS-SHA384", a0, self.digestmsg(args[1]), self.unok(args[2]))
        if name == "<SigningKey<Sha384> as Keypair>::verifying_key":
            return ("PUB", "RSASSA-PSS-SHA384", ("rsa-sk", a0))
        return None

    def sinkmsg(self, st):
        if isinstance(st, tuple) and st and st[0] == "SINK":
            return self.cat(st[2])
        return ("msg?", st)

    def digestmsg(self, st):
        st = self.unok(st)
        if isinstance(st, tuple) and st and st[0] == "HST":
            return ("digest", st[1], self.cat(st[2]))
        if isinstance(st, tuple) and st and st[0] == "H":
            return ("digest", st[1], st[2])
        return ("digest?", st)

    def argon2_params(self, a):
        """Argon2::new(Argon2id, V0x13, ok(build(t_cost(p_cost(m_cost(new(), M), P), T)))) -> (mem, time, para)"""
        try:
            if not (a[0] == "call" and a[1] == "argon2::Argon2::<'_>::new"):
                return None
            alg, ver, params = a[2]
            if "Argon2id" not in repr(alg) or "V0x13" not in repr(ver):
                return None
            b = self.unok(params)
            assert b[1] == "argon2::params::ParamsBuilder::build"
            # the three setters, chained (`new().m_cost(m).p_cost(p).t_cost(t)`) or as separate statements on a `mut builder`,
            # in any order, each exactly once
            sets = {}
            cur = b[2][0]
            for _ in range(8):
                if isinstance(cur, tuple) and cur and cur[0] == "call" and cur[1].startswith("argon2::params::ParamsBuilder::") and cur[1] != "argon2::params::ParamsBuilder::new":
                    nm_ = cur[1].rsplit("::", 1)[-1]
                    assert nm_ in ("m_cost", "p_cost", "t_cost") and nm_ not in sets
                    sets[nm_] = cur[2][1]
                    cur = cur[2][0]
                elif isinstance(cur, tuple) and cur and cur[0] == "mut" and isinstance(cur[2], tuple) and str(cur[2][0]).startswith("argon2::params::ParamsBuilder::"):
                    nm_ = str(cur[2][0]).rsplit("::", 1)[-1]
                    assert nm_ in ("m_cost", "p_cost", "t_cost") and nm_ not in sets and cur[2][1] == 0
                    sets[nm_] = cur[2][2][0]
                    cur = cur[1]
                else:
                    break
            assert cur == ("call", "argon2::params::ParamsBuilder::new", ()) and set(sets) == {"m_cost", "p_cost", "t_cost"}
            class _S:      # keep the names used below
                pass
            mcost = (None, None, (None, sets["m_cost"]))
            tcost = (None, None, (None, sets["t_cost"]))
            pcost = (None, None, (None, sets["p_cost"]))
            mem = self.unok(mcost[2][1])
            if isinstance(mem, tuple) and mem[0] == "NARROW":
                mem = mem[1]
            # KiB = bytes / 1024 (the caller guards divisibility)
            if isinstance(mem, tuple) and mem[0] == "binop" and mem[1] == "Div" and mem[3] == ("int", 1024):
                mem = ("MEMBYTES", mem[2])
            else:
                mem = ("MEMKIB", mem)
            return mem, tcost[2][1], pcost[2][1]
        except Exception:
            return None

    def _outw(self, orig):
        a = orig[2]
        if a and isinstance(a[-1], tuple) and a[-1] and a[-1][0] == "W":
            return a[-1][1]
        return None

    def awsalg(self, a):
        s = repr(a)
        for nm, alg in (("HMAC_SHA384", ("HMAC-SHA384", 48)), ("HKDF_SHA384", ("SHA-384", 48)), ("PBKDF2_HMAC_SHA384", ("HMAC-SHA384", 48)),
                        ("SHA384", ("SHA-384", 48)), ("AES_256", "AES-256")):
            if nm in s:
                return alg
        return ("alg?", a)

# ---------------------------------------------------------------- pretty
def fn(t, d=0):
    if d > 30:
        return "…"
    if not isinstance(t, tuple) or not t:
        return repr(t)
    k = t[0]
    if k == "in":
        return f"${t[1]}"
    if k == "b":
        return repr(t[1])[1:]
    if k == "int":
        return str(t[1])
    if k == "cat":
        return "(" + " ‖ ".join(fn(p, d + 1) for p in t[1]) + ")"
    if k == "sl":
        def b(x):
            if x[1] == 0:
                return str(x[0])
            return "len" + (f"{x[0]:+d}" if x[0] else "")
        return f"{fn(t[1], d+1)}[{b(t[2])}..{b(t[3])}]"
    if k == "fld":
        return f"{fn(t[1], d+1)}.{t[2]}"
    if k == "PAE":
        return "PAE[" + " | ".join("+".join(fn(f, d + 1) for f in pc) for pc in t[1]) + "]"
    if k == "MAC":
        return f"{t[1][0]}/{t[1][1]}(key={fn(t[2], d+1)}; {fn(t[3], d+1)})"
    if k == "H":
        return f"{t[1][0]}/{t[1][1]}({fn(t[2], d+1)})"
    if k == "MACST":
        return f"{t[1][0]}/{t[1][1]}-state(key={fn(t[2], d+1)}; " + " ‖ ".join(fn(p, d + 1) for p in t[3]) + ")"
    if k == "HST":
        return f"{t[1][0]}/{t[1][1]}-state(" + " ‖ ".join(fn(p, d + 1) for p in t[2]) + ")"
    if k == "CIPHER":
        return f"{t[1]}(key={fn(t[2], d+1)}, iv={fn(t[3], d+1)})"
    if k == "ENC":
        return f"ENC<{fn(t[1], d+1)}>({fn(t[2], d+1)})"
    if k == "HKDF":
        return f"HKDF-{t[1][0]}(salt={fn(t[2], d+1)}, ikm={fn(t[3], d+1)}, info={fn(t[4], d+1)}, L={t[5]})"
    if k == "RNG":
        return f"RNG({t[1]})"
    if k == "call":
        return f"{t[1]}(" + ", ".join(fn(a, d + 1) for a in t[2]) + ")"
    if k == "agg":
        return f"{t[1]}{{" + ", ".join(fn(a, d + 1) for a in t[2]) + "}"
    if k == "ok":
        return f"ok({fn(t[1], d+1)})"
    if k == "VERIFY":
        return f"VERIFY[{t[1]}]({fn(t[2], d+1)} == {fn(t[3], d+1)})"
    return "(" + str(k) + " " + " ".join(fn(a, d + 1) if isinstance(a, tuple) else str(a) for a in t[1:]) + ")"
