"""Classification of Err exits on producer (seal / wrap / keygen) paths: T-ERREXIT."""
from norm import fn as fmt_n

def classify_err(run, r):
    """Class of an Err exit from the origin of its cause (the fallible term assumed Err on this path)."""
    cause = r.path.err_cause
    guards = r.path.guards
    last = guards[-1] if guards else None
    if last is not None:
        c = run.norm.n(last["cond"])
        cs = repr(c)
        if "is_empty" in cs and "'aad'" in cs and not (isinstance(last["cond"], tuple) and last["cond"][0] == "discr"):
            return "aad-unsupported", cs
    if cause is None:
        return None, "no fallible cause recorded"
    n = run.norm.n(cause)
    s = repr(n)
    if isinstance(cause, tuple) and cause[0] == "rng":
        return "rng-failure", s[:200]
    if isinstance(n, tuple) and n and n[0] == "RNG":
        return "rng-failure", s[:200]
    if isinstance(cause, tuple) and cause[0] == "fallible" and ("Payload>::encode" in cause[2] or "Footer>::encode" in cause[2]):
        return "encode-error", cause[2]
    return None, s[:400]

LIB_OK = ("aws_lc_rs::", "libsodium_rs::", "rsa::", "<SigningKey", "ed25519", "argon2::", "hkdf::", "pbkdf2::", "<XChaCha20Poly1305",
          "lc::SigningKey::sign", "lc::SigningKey::diffie_hellman", "lc::SigningKey::from_sec1_bytes", "lc::VerifyingKey::from_sec1_bytes",
          "core::convert::num", "<impl SecretKey>::random", "core::num::<impl usize>::checked_sub", "ecdsa::", "elliptic_curve::", "sec1::", "<AffinePoint", "curve25519", "core::num::nonzero")

def classify_generic(run, r):
    """callee-reported / statically-impossible / value-dependent"""
    n = run.norm.n(r.ret)
    s = repr(n)
    # cause = innermost errv root
    root = r.path.err_cause
    if root is None:
        g = r.path.guards[-1] if r.path.guards else None
        gc = repr(run.norm.n(g["cond"]))[:300] if g else "?"
        if "params" in gc or "is_multiple_of" in gc:
            return "param-validation", gc
        return "value-dependent", "explicit Err under guard " + gc
    if isinstance(root, tuple) and root:
        if root[0] == "split":
            # a split of a buffer: impossible iff the buffer's static width covers the request
            loc, need = root[2], root[3]
            from interp import width_of
            c = run.interp.content(r.path, loc) if loc[0] != "T" else loc[1]
            wv = run.norm.width(run.norm.n(c))
            if wv is not None and need is not None and wv >= need:
                return "statically-impossible", f"split of {wv} bytes needing {need}"
            nc = run.norm.n(c)
            if isinstance(nc, tuple) and nc[0] == "cat" and nc[1]:
                lead = run.norm.width(nc[1][0])
                if lead is not None and need is not None and lead >= need:
                    return "statically-impossible", f"split needing {need} of a buffer starting with {lead} fixed bytes"
            return "value-dependent", f"split of run-time sized buffer {fmt_n(nc)[:200]} needing {need}"
        if root[0] in ("fallible",):
            nm = root[2]
            return "callee-reported", nm
        if root[0] == "call":
            nm = root[1]
            if any(nm.startswith(p) or p in nm[:40] for p in LIB_OK):
                return "callee-reported", nm
            return "value-dependent", "Err derived from " + nm
        if root[0] == "agg":
            # direct Err(..) under a guard
            g = r.path.guards[-1] if r.path.guards else None
            gc = repr(run.norm.n(g["cond"]))[:300] if g else "?"
            if "pw_wrap" in gc or "params" in gc:
                return "param-validation", gc
            return "value-dependent", "explicit Err under guard " + gc
        if root[0] == "tryarray":
            return "value-dependent", "length test " + repr(root)[:200]
    return "value-dependent", s[:300]


def classify(run, r):
    cls, why = classify_err(run, r)
    if cls is None:
        cls, why = classify_generic(run, r)
    return cls, why

def classify_paths(run):
    """(classes, bad) over all non-success paths of a Run."""
    bad, classes = [], {}
    for r in run.err_paths:
        cls, why = classify(run, r)
        classes[cls] = classes.get(cls, 0) + 1
        if cls == "value-dependent":
            bad.append(why)
    for r in run.other_paths:
        if r.kind == "diverge":
            classes["panic-path"] = classes.get("panic-path", 0) + 1
        else:
            bad.append(f"non-returning path kind={r.kind} at {r.exit_site}")
    return classes, bad
