"""Classification of Err exits on producer (seal / wrap / keygen) paths: T-ERREXIT."""
from norm import fn as fmt_n

def _aad_test(c, value):
    """c == value is an emptiness test of the `aad` input, in any spelling (is_empty, slice pattern, len comparison):
    True if it holds exactly for non-empty aad, False if it holds for the empty aad, None if c is not such a test."""
    if isinstance(c, tuple) and len(c) == 3 and c[0] == "unop" and c[1] == "Not" and value in (0, 1):
        return _aad_test(c[2], 1 - value)
    if isinstance(c, tuple) and len(c) == 3 and c[0] == "call" and c[1].endswith("is_empty") and c[2] == (("in", "aad"),) and value in (0, 1):
        return value == 0
    if c == ("is_empty", ("in", "aad")) and value in (0, 1):
        return value == 0
    if isinstance(c, tuple) and len(c) == 4 and c[0] == "binop" and value in (0, 1):
        import operator
        ops = {"Eq": operator.eq, "Ne": operator.ne, "Gt": operator.gt, "Lt": operator.lt, "Ge": operator.ge, "Le": operator.le}
        L = ("len", ("in", "aad"))
        if c[1] in ops and L in (c[2], c[3]):
            other = c[3] if c[2] == L else c[2]
            if isinstance(other, tuple) and other[0] == "int":
                def at(n):
                    a, b = (n, other[1]) if c[2] == L else (other[1], n)
                    return 1 if ops[c[1]](a, b) else 0
                if at(0) != value and at(1) == value and at(2) == value and at(1 << 40) == value:
                    return True
                if at(0) == value:
                    return False
    return None

def classify_err(run, r):
    """Class of an Err exit from the origin of its cause (the fallible term assumed Err on this path)."""
    cause = r.path.err_cause
    guards = r.path.guards
    last = guards[-1] if guards else None
    if last is not None:
        c = run.norm.n(last["cond"])
        cs = repr(c)
        if not (isinstance(last["cond"], tuple) and last["cond"][0] == "discr"):
            d = _aad_test(c, last["value"])
            if d is True:
                return "aad-unsupported", cs
            if d is False:
                return None, "Err exit for an EMPTY aad: " + cs[:200]
    if cause is None:
        return None, "no fallible cause recorded"
    n = run.norm.n(cause)
    s = repr(n)
    if isinstance(cause, tuple) and cause[0] == "rng":
        return "rng-failure", s[:200]
    if isinstance(n, tuple) and n and n[0] == "RNG":
        return "rng-failure", s[:200]
    if isinstance(cause, tuple) and cause[0] == "fallible" and ("Payload>::encode" in cause[2] or "Footer>::encode" in cause[2]):
        return "encode-error", cause[2]
    return None, s[:400]

LIB_OK = ("aws_lc_rs::", "libsodium_rs::", "rsa::", "<SigningKey", "ed25519", "argon2::", "hkdf::", "pbkdf2::", "<XChaCha20Poly1305",
          "lc::SigningKey::sign", "lc::SigningKey::diffie_hellman", "lc::SigningKey::from_sec1_bytes", "lc::VerifyingKey::from_sec1_bytes",
          "core::convert::num", "<impl SecretKey>::random", "ecdsa::", "elliptic_curve::", "sec1::", "<AffinePoint", "curve25519", "core::num::nonzero")

# Upper bounds on the length of library outputs (contracts). v1 PKE: big-endian bytes of an RSA ciphertext are at most the
# modulus length, and every v1 PKE key decoder admits 4096-bit moduli only (decided by C10 R10.x RSA_BITS).
LIB_LEN_MAX = [(("TOBE", "RSAENC"), 512)]

def _lib_len_bound(t):
    """t = len(X) with X a library output under a length contract -> the bound, else None."""
    if isinstance(t, tuple) and len(t) == 2 and t[0] == "len" and isinstance(t[1], tuple):
        x = t[1]
        for (h0, h1), m in LIB_LEN_MAX:
            if x and x[0] == h0 and len(x) > 1 and isinstance(x[1], tuple) and x[1] and x[1][0] == h1:
                return m
    return None

def length_guard_class(n, value=None):
    """A failure that says `a library output is longer than c`, in either idiom:
         c.checked_sub(len X) is None                 (n = the checked_sub call)
         if len X > c / c < len X / len X >= c+1 ...   (n = the binop, value = the branch taken to the Err)
    -> ('statically-impossible', why) when the contract bound of X is <= c, ('value-dependent', why) otherwise, None if n is not of this shape."""
    if isinstance(n, tuple) and n and n[0] == "call" and n[1].endswith("::checked_sub") and len(n[2]) == 2:
        c, l = n[2]
        m = _lib_len_bound(l)
        if isinstance(c, tuple) and c[0] == "int" and m is not None:
            if c[1] >= m:
                return "statically-impossible", f"library output of at most {m} bytes subtracted from {c[1]}"
            return "value-dependent", f"{c[1]}.checked_sub(len) fails for library outputs of up to {m} bytes"
        return None
    if isinstance(n, tuple) and n and n[0] == "binop" and len(n) == 4 and value in (0, 1):
        op, a, b = n[1], n[2], n[3]
        flip = {"Gt": "Lt", "Lt": "Gt", "Ge": "Le", "Le": "Ge"}
        if op in flip and isinstance(a, tuple) and a and a[0] == "int":
            op, a, b = flip[op], b, a
        m = _lib_len_bound(a)
        if m is None or not (isinstance(b, tuple) and b[0] == "int") or op not in ("Gt", "Ge", "Lt", "Le"):
            return None
        c = b[1]
        if value == 0:      # Err on the false branch: negate
            op = {"Gt": "Le", "Ge": "Lt", "Lt": "Ge", "Le": "Gt"}[op]
        # Err iff len `op` c; impossible iff no len in [0, m] satisfies it
        sat = {"Gt": m > c, "Ge": m >= c, "Lt": c > 0, "Le": True}[op]
        if not sat:
            return "statically-impossible", f"len {op} {c} cannot hold for a library output of at most {m} bytes"
        return "value-dependent", f"Err when len {op} {c}, reachable for a library output of up to {m} bytes"
    return None

def _static_region_width(run, r, loc):
    """Static byte width of a location (a whole buffer or a region of one with constant bounds), if known."""
    if loc[0] != "R":
        c = run.interp.content(r.path, loc) if loc[0] != "T" else loc[1]
        return run.norm.width(run.norm.n(c))
    base, lo, hi = loc[1], loc[2], loc[3]
    if not (isinstance(lo[0], int) and isinstance(hi[0], int)):
        return None
    if lo[1] == 0 and hi[1] == 0:
        return hi[0] - lo[0]
    bw = _static_region_width(run, r, base)
    if bw is None:
        return None
    a = lo[0] if lo[1] == 0 else bw + lo[0]
    b = hi[0] if hi[1] == 0 else bw + hi[0]
    return b - a if 0 <= a <= b <= bw else None

def static_edge(run, c, value):
    """c == value compares len(X), X of statically known width, with an integer constant: -> True / False whether that edge can
    be taken at all; None when c is not such a comparison."""
    import operator
    ops = {"Eq": operator.eq, "Ne": operator.ne, "Gt": operator.gt, "Lt": operator.lt, "Ge": operator.ge, "Le": operator.le}
    if not (isinstance(c, tuple) and len(c) == 4 and c[0] == "binop" and c[1] in ops and value in (0, 1)):
        return None
    def val(t):
        if isinstance(t, tuple) and t and t[0] == "int":
            return t[1]
        if isinstance(t, tuple) and len(t) == 2 and t[0] == "len":
            return run.norm.width(t[1])
        return None
    a, b = val(c[2]), val(c[3])
    if a is None or b is None:
        return None
    return (1 if ops[c[1]](a, b) else 0) == value

def classify_generic(run, r):
    """callee-reported / statically-impossible / value-dependent"""
    n = run.norm.n(r.ret)
    s = repr(n)
    # cause = innermost errv root
    root = r.path.err_cause
    if root is None:
        g = r.path.guards[-1] if r.path.guards else None
        gc = repr(run.norm.n(g["cond"]))[:300] if g else "?"
        if "params" in gc or "is_multiple_of" in gc:
            return "param-validation", gc
        lg = length_guard_class(run.norm.n(g["cond"]), g["value"]) if g else None
        if lg:
            return lg
        if g and static_edge(run, run.norm.n(g["cond"]), g["value"]) is False:
            return "statically-impossible", "length of a fixed-width value compared with a constant: " + gc[:120]
        return "value-dependent", "explicit Err under guard " + gc
    if isinstance(root, tuple) and root:
        if root[0] == "split":
            # a split of a buffer: impossible iff the buffer's static width covers the request
            loc, need = root[2], root[3]
            from interp import width_of
            c = run.interp.content(r.path, loc) if loc[0] != "T" else loc[1]
            wv = run.norm.width(run.norm.n(c))
            if wv is not None and need is not None and wv >= need:
                return "statically-impossible", f"split of {wv} bytes needing {need}"
            nc = run.norm.n(c)
            if isinstance(nc, tuple) and nc[0] == "cat" and nc[1]:
                lead = run.norm.width(nc[1][0])
                if lead is not None and need is not None and lead >= need:
                    return "statically-impossible", f"split needing {need} of a buffer starting with {lead} fixed bytes"
            return "value-dependent", f"split of run-time sized buffer {fmt_n(nc)[:200]} needing {need}"
        if root[0] in ("fallible",):
            nm = root[2]
            return "callee-reported", nm
        if root[0] == "call":
            nm = root[1]
            lg = length_guard_class(run.norm.n(root))
            if lg:
                return lg
            if any(nm.startswith(p) or p in nm[:40] for p in LIB_OK):
                return "callee-reported", nm
            return "value-dependent", "Err derived from " + nm
        if root[0] == "agg":
            # direct Err(..) under a guard
            g = r.path.guards[-1] if r.path.guards else None
            gc = repr(run.norm.n(g["cond"]))[:300] if g else "?"
            if "pw_wrap" in gc or "params" in gc:
                return "param-validation", gc
            lg = length_guard_class(run.norm.n(g["cond"]), g["value"]) if g else None
            if lg:
                return lg
            if g and static_edge(run, run.norm.n(g["cond"]), g["value"]) is False:
                return "statically-impossible", "length of a fixed-width value compared with a constant: " + gc[:120]
            return "value-dependent", "explicit Err under guard " + gc
        if root[0] == "tryarray":
            # slice -> [u8; n]: impossible to fail iff the slice's static width is n
            _, ptr, n, _byval = root
            w = _static_region_width(run, r, ptr[1]) if isinstance(ptr, tuple) and len(ptr) == 2 else None
            if w is not None and w == n:
                return "statically-impossible", f"conversion of a {w}-byte slice to [u8; {n}]"
            return "value-dependent", "length test " + repr(root)[:200]
    return "value-dependent", s[:300]


def classify(run, r):
    cls, why = classify_err(run, r)
    if cls is None:
        cls, why = classify_generic(run, r)
    return cls, why

def classify_paths(run):
    """(classes, bad) over all non-success paths of a Run."""
    bad, classes = [], {}
    for r in run.err_paths:
        cls, why = classify(run, r)
        classes[cls] = classes.get(cls, 0) + 1
        if cls == "value-dependent":
            bad.append(why)
    for r in run.other_paths:
        if r.kind == "diverge":
            classes["panic-path"] = classes.get("panic-path", 0) + 1
        else:
            bad.append(f"non-returning path kind={r.kind} at {r.exit_site}")
    return classes, bad
