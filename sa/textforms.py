import re
"""Display / FromStr summaries of paseto-core's text forms (shared by C09, C10, C13)."""
from ops import *
from norm import Norm, fn as fmt_n

TYPES = {
    "SealedToken": ("encodings::<impl core::fmt::Display for tokens::SealedToken<V, P, M, F>>::fmt",
                    "encodings::<impl core::str::traits::FromStr for tokens::SealedToken<V, P, M, F>>::from_str"),
    "KeyText": ("<paserk::plaintext::KeyText<V, K> as core::fmt::Display>::fmt", "<paserk::plaintext::KeyText<V, K> as core::str::traits::FromStr>::from_str"),
    "KeyId": ("<paserk::id::KeyId<V, K> as core::fmt::Display>::fmt", "<paserk::id::KeyId<V, K> as core::str::traits::FromStr>::from_str"),
    "PieWrappedKey": ("<paserk::pie_wrap::PieWrappedKey<V, K> as core::fmt::Display>::fmt", "<paserk::pie_wrap::PieWrappedKey<V, K> as core::str::traits::FromStr>::from_str"),
    "PasswordWrappedKey": ("<paserk::pw_wrap::PasswordWrappedKey<V, K> as core::fmt::Display>::fmt", "<paserk::pw_wrap::PasswordWrappedKey<V, K> as core::str::traits::FromStr>::from_str"),
    "SealedKey": ("<paserk::pke::SealedKey<V> as core::fmt::Display>::fmt", "<paserk::pke::SealedKey<V> as core::str::traits::FromStr>::from_str"),
}

def no_b64(f):
    return not f["key"].startswith("base64::")

def display_sequences(world, fnkey):
    """For each Ok path of a Display impl: list of ('lit', const) / ('b64', data) in order, plus the guards taken."""
    f = world.crates["paseto_core"].fns.get(fnkey)
    if f is None:
        return None, None
    it = Interp(world, inline_filter=no_b64)
    res = it.run(f)
    nm = Norm()
    out = []
    for r in res:
        if r.kind != "return" or r.okness is False:
            continue
        seq = []
        for e in r.path.events:
            if e["kind"] != "call":
                continue
            if e["name"].endswith("Formatter::<'_>::write_str"):
                seq.append(("lit", nm.n(e["vals"][1])))
            elif e["name"].endswith("Formatter::<'_>::write_fmt"):
                seq.extend(decode_format_args(nm, e["vals"][1]))
            elif e["name"] == "base64::write_to_fmt":
                seq.append(("b64", nm.n(e["vals"][0])))
            elif "fmt::rt::Argument" in e["name"] or "fmt::Arguments" in e["name"]:
                continue            # pure constructors of format_args!; what is written is decoded at write_fmt
            elif "fmt" in e["name"] or "write" in e["name"]:
                seq.append(("other", e["name"]))
        guards = [(nm.n(g["cond"]), g["value"]) for g in r.path.guards if not (isinstance(g["cond"], tuple) and g["cond"][0] == "discr")]
        # the last write's result is returned: okness None paths (return of the last call) count as Ok
        out.append((seq, guards))
    return f, out

def decode_format_args(nm, t):
    """write!(f, "lit{}lit{}", a, b): fmt::Arguments::new(template, args) decoded into the sequence of writes it performs.
    Template encoding (library/core/src/fmt/mod.rs): n<0x80: n literal bytes follow; 0x80: u16 length + bytes; 0xC0: default
    placeholder taking the next argument; 0x00: end. Placeholders with options are reported as ('other', ...)."""
    t = nm.n(t) if not (isinstance(t, tuple) and t and t[0] == "call") else t
    if not (isinstance(t, tuple) and t and t[0] == "call" and "fmt::Arguments" in t[1] and "::new" in t[1] and len(t[2]) == 2):
        return [("other", "write_fmt with an argument that is not a literal format_args!")]
    tmpl, args = t[2]
    tmpl = nm.n(tmpl)
    if isinstance(tmpl, tuple) and tmpl and tmpl[0] in ("b", "bytes"):
        tb = tmpl[1]
    else:
        return [("other", "format template not constant")]
    arglist = list(args[2]) if isinstance(args, tuple) and args and args[0] == "agg" else None
    out, i, nexta = [], 0, 0
    while i < len(tb):
        n = tb[i]
        i += 1
        if n == 0 and i == len(tb):
            break
        if n < 0x80:
            out.append(("lit", ("b", bytes(tb[i:i + n]))))
            i += n
        elif n == 0x80:
            ln = tb[i] | (tb[i + 1] << 8)
            out.append(("lit", ("b", bytes(tb[i + 2:i + 2 + ln]))))
            i += 2 + ln
        elif n == 0xC0:
            a = arglist[nexta] if arglist and nexta < len(arglist) else None
            nexta += 1
            if isinstance(a, tuple) and a and a[0] == "call" and "Argument" in a[1] and "new_display::<&str>" in a[1]:
                out.append(("lit", nm.n(a[2][0])))
            else:
                out.append(("other", "formatted argument that is not a &str Display: " + str(a)[:80]))
        else:
            out.append(("other", "placeholder with formatting options"))
            break
    return out

def peel_ok(t):
    while isinstance(t, tuple) and t and t[0] == "ok":
        t = t[1]
    return t

def strip_chain(t):
    """ok(strip_prefix(ok(strip_prefix(s, c1)), c2)) -> ([c1, c2], base)"""
    consts = []
    t = peel_ok(t)
    while isinstance(t, tuple) and t and t[0] == "call" and t[1].startswith("core::str::<impl str>::strip_prefix"):
        consts.append(t[2][1])
        t = peel_ok(t[2][0])
    return list(reversed(consts)), t

def fromstr_summaries(world, fnkey):
    """For each Ok path of a FromStr impl: the resulting aggregate's fields (normalised)."""
    f = world.crates["paseto_core"].fns.get(fnkey)
    if f is None:
        return None, None
    it = Interp(world, inline_filter=no_b64)
    res = it.run(f)
    nm = Norm()
    out = []
    for r in res:
        if r.kind != "return" or r.okness is False:
            continue
        v = nm.n(it.argval(r.path, it.okv(None, r.path, r.ret)))
        guards = [(nm.n(g["cond"]), g["value"]) for g in r.path.guards]
        out.append((v, guards))
    errs = [r for r in res if r.kind == "return" and r.okness is False]
    return f, (out, len(errs), [r.kind for r in res if r.kind != "return"])

def decoded_source(field):
    """field = ok(base64::decode_vec(X)) (possibly under Option plumbing) -> X, else None."""
    t = peel_ok(field)
    if isinstance(t, tuple) and t and t[0] == "call" and t[1] in ("base64::decode_vec",):
        return t[2][0]
    return None

_BUF = r"(?:Vec<u8>|&\[u8\]|&mut \[u8\]|Box<\[u8\]>)"
_EXACT = re.compile(r"^<%s as TryInto<\[u8; (\d+)\]>>::try_into$|^<\[u8; (\d+)\] as TryFrom<%s>>::try_from$"
                    r"|^(?:alloc::vec|core::array|alloc::boxed)::<impl TryFrom<%s> for \[u8; (\d+)\]>::try_from$" % (_BUF, _BUF, _BUF))
def exact_len_conv_name(name):
    """N if `name` is a std whole-buffer -> [u8; N] conversion (succeeds iff the buffer is exactly N bytes long)."""
    m = _EXACT.match(name)
    return int(next(g for g in m.groups() if g)) if m else None
_VIEWS = ("Vec::<T, A>::as_slice", "<Vec<u8> as Deref>::deref", "<Vec<u8> as AsRef<[u8]>>::as_ref", "<Vec<u8> as Borrow<[u8]>>::borrow")
def exact_len_conv(field):
    """field = ok(<whole-buffer -> [u8; N] std TryFrom>(X)) -> (X, N): these conversions succeed iff len(X) == N (a prefix
    conversion such as first_chunk::<N> is deliberately not in the table)."""
    t = peel_ok(field)
    if isinstance(t, tuple) and t and t[0] == "call":
        m = _EXACT.match(t[1])
        if m and field != t:          # must be on the Ok path of the conversion
            x = t[2][0]
            while isinstance(x, tuple) and x and x[0] == "call" and x[1] in _VIEWS:
                x = x[2][0]
            return x, int(next(g for g in m.groups() if g))
    return None

def empty_bytes(t):
    """t is statically the empty byte string: an empty buffer, or the default of an Option<Vec<u8>> that is None through
    None-preserving plumbing (map / transpose / ok)."""
    if t in (("cat", ()), ("concat", ()), ("vec", ("concat", ())), ("zeros", 0), ("b", b""), ("bytes", b"")):
        return True
    if isinstance(t, tuple) and t and t[0] == "call" and t[1].endswith("::unwrap_or_default") and len(t[2]) == 1:
        x = t[2][0]
        for _ in range(6):
            if isinstance(x, tuple) and x and x[0] == "ok":
                x = x[1]
            elif isinstance(x, tuple) and x and x[0] == "call" and (x[1] == "Option::map" or x[1].endswith("::transpose")) and x[2]:
                x = x[2][0]
            else:
                break
        return x == ("agg", "adt:Option::None", ())
    return False
