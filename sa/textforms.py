"""Display / FromStr summaries of paseto-core's text forms (shared by C09, C10, C13)."""
from ops import *
from norm import Norm, fn as fmt_n

TYPES = {
    "SealedToken": ("encodings::<impl core::fmt::Display for tokens::SealedToken<V, P, M, F>>::fmt",
                    "encodings::<impl core::str::traits::FromStr for tokens::SealedToken<V, P, M, F>>::from_str"),
    "KeyText": ("<paserk::plaintext::KeyText<V, K> as core::fmt::Display>::fmt", "<paserk::plaintext::KeyText<V, K> as core::str::traits::FromStr>::from_str"),
    "KeyId": ("<paserk::id::KeyId<V, K> as core::fmt::Display>::fmt", "<paserk::id::KeyId<V, K> as core::str::traits::FromStr>::from_str"),
    "PieWrappedKey": ("<paserk::pie_wrap::PieWrappedKey<V, K> as core::fmt::Display>::fmt", "<paserk::pie_wrap::PieWrappedKey<V, K> as core::str::traits::FromStr>::from_str"),
    "PasswordWrappedKey": ("<paserk::pw_wrap::PasswordWrappedKey<V, K> as core::fmt::Display>::fmt", "<paserk::pw_wrap::PasswordWrappedKey<V, K> as core::str::traits::FromStr>::from_str"),
    "SealedKey": ("<paserk::pke::SealedKey<V> as core::fmt::Display>::fmt", "<paserk::pke::SealedKey<V> as core::str::traits::FromStr>::from_str"),
}

def no_b64(f):
    return not f["key"].startswith("base64::")

def display_sequences(world, fnkey):
    """For each Ok path of a Display impl: list of ('lit', const) / ('b64', data) in order, plus the guards taken."""
    f = world.crates["paseto_core"].fns.get(fnkey)
    if f is None:
        return None, None
    it = Interp(world, inline_filter=no_b64)
    res = it.run(f)
    nm = Norm()
    out = []
    for r in res:
        if r.kind != "return" or r.okness is False:
            continue
        seq = []
        for e in r.path.events:
            if e["kind"] != "call":
                continue
            if e["name"].endswith("Formatter::<'_>::write_str"):
                seq.append(("lit", nm.n(e["vals"][1])))
            elif e["name"] == "base64::write_to_fmt":
                seq.append(("b64", nm.n(e["vals"][0])))
            elif "fmt" in e["name"] or "write" in e["name"]:
                seq.append(("other", e["name"]))
        guards = [(nm.n(g["cond"]), g["value"]) for g in r.path.guards if not (isinstance(g["cond"], tuple) and g["cond"][0] == "discr")]
        # the last write's result is returned: okness None paths (return of the last call) count as Ok
        out.append((seq, guards))
    return f, out

def peel_ok(t):
    while isinstance(t, tuple) and t and t[0] == "ok":
        t = t[1]
    return t

def strip_chain(t):
    """ok(strip_prefix(ok(strip_prefix(s, c1)), c2)) -> ([c1, c2], base)"""
    consts = []
    t = peel_ok(t)
    while isinstance(t, tuple) and t and t[0] == "call" and t[1].startswith("core::str::<impl str>::strip_prefix"):
        consts.append(t[2][1])
        t = peel_ok(t[2][0])
    return list(reversed(consts)), t

def fromstr_summaries(world, fnkey):
    """For each Ok path of a FromStr impl: the resulting aggregate's fields (normalised)."""
    f = world.crates["paseto_core"].fns.get(fnkey)
    if f is None:
        return None, None
    it = Interp(world, inline_filter=no_b64)
    res = it.run(f)
    nm = Norm()
    out = []
    for r in res:
        if r.kind != "return" or r.okness is False:
            continue
        v = nm.n(it.argval(r.path, it.okv(None, r.path, r.ret)))
        guards = [(nm.n(g["cond"]), g["value"]) for g in r.path.guards]
        out.append((v, guards))
    errs = [r for r in res if r.kind == "return" and r.okness is False]
    return f, (out, len(errs), [r.kind for r in res if r.kind != "return"])

def decoded_source(field):
    """field = ok(base64::decode_vec(X)) (possibly under Option plumbing) -> X, else None."""
    t = peel_ok(field)
    if isinstance(t, tuple) and t and t[0] == "call" and t[1] in ("base64::decode_vec",):
        return t[2][0]
    return None
