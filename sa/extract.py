"""Run the fact-extraction driver over /repo's current working tree."""
import os, subprocess, sys, time, glob, shutil, hashlib, json

VERIF = os.path.dirname(os.path.dirname(os.path.abspath(__file__)))
REPO = os.environ.get("VERIF_REPO", "/repo")
CACHE = os.path.join(VERIF, ".cache")
DRIVER = os.path.join(VERIF, "driver", "target", "release", "paseto-facts-driver")
LIB_PKGS = ["paseto-core", "paseto-json", "paseto-v1", "paseto-v2", "paseto-v3",
            "paseto-v3-aws-lc", "paseto-v4", "paseto-v4-sodium"]

def sysroot():
    return subprocess.check_output(["rustc", "+nightly", "--print", "sysroot"], text=True).strip()

def tree_hash(repo=REPO):
    """Content hash of everything cargo would read from the workspace (sources + manifests)."""
    h = hashlib.sha256()
    for root, dirs, files in os.walk(repo):
        dirs[:] = sorted(d for d in dirs if d not in ("target", ".git"))
        for fn in sorted(files):
            if fn.endswith((".rs", ".toml", ".lock", ".json")):
                p = os.path.join(root, fn)
                h.update(os.path.relpath(p, repo).encode())
                with open(p, "rb") as f:
                    h.update(f.read())
    with open(DRIVER, "rb") as f:
        h.update(f.read())
    return h.hexdigest()[:16]

def extract(config="default", repo=REPO, target=None, facts=None, features=None, pkgs=None, force=False):
    """Returns the facts directory for `config`, re-running the driver when the tree changed."""
    target = target or os.path.join(CACHE, "target")
    facts = facts or os.path.join(CACHE, "facts", config)
    os.makedirs(facts, exist_ok=True)
    os.makedirs(target, exist_ok=True)
    th = tree_hash(repo)
    stamp = os.path.join(facts, "STAMP")
    pkgs = pkgs or LIB_PKGS
    expected = [p.replace("-", "_") + ".lib.json" for p in pkgs]
    if not force and os.path.exists(stamp) and open(stamp).read().strip() == th \
            and all(os.path.exists(os.path.join(facts, e)) for e in expected):
        return facts
    for e in glob.glob(os.path.join(facts, "*.json")) + [stamp]:
        if os.path.exists(e):
            os.remove(e)
    # cargo's freshness cache would silently skip the wrapper: drop the members' fingerprints
    fp = os.path.join(target, "debug", ".fingerprint")
    for p in ["paseto-core", "paseto-json", "paseto-v1", "paseto-v2", "paseto-v3", "paseto-v3-aws-lc",
              "paseto-v4", "paseto-v4-sodium", "paseto-test", "paseto-bench"]:
        for d in glob.glob(os.path.join(fp, p + "-*")):
            # 'paseto-v3-*' also matches paseto-v3-aws-lc-*: harmless, both are members
            shutil.rmtree(d, ignore_errors=True)
    env = dict(os.environ)
    env.update({
        "LD_LIBRARY_PATH": sysroot() + "/lib",
        "RUSTFLAGS": "-Zmir-opt-level=0 -Awarnings",
        "RUSTC_WORKSPACE_WRAPPER": DRIVER,
        "CARGO_TARGET_DIR": target,
        "VERIF_FACTS_DIR": facts,
        "VERIF_FACTS_NONCE": th,
        "CARGO_NET_OFFLINE": "true",
    })
    cmd = ["cargo", "+nightly", "check", "--offline", "--quiet"]
    for p in pkgs:
        cmd += ["-p", p]
    if features is not None:
        cmd += ["--no-default-features"]
        if features:
            cmd += ["--features", ",".join(features)]
    t0 = time.time()
    r = subprocess.run(cmd, cwd=repo, env=env, capture_output=True, text=True)
    if r.returncode != 0:
        sys.stderr.write(r.stderr[-4000:])
        raise RuntimeError(f"fact extraction failed (cargo check exit {r.returncode})")
    for e in expected:
        p = os.path.join(facts, e)
        if not os.path.exists(p):
            raise RuntimeError(f"driver did not produce {e} (cargo skipped the wrapper?)")
        with open(p) as f:
            head = f.read(200)
        if th not in head:
            raise RuntimeError(f"{e} is stale (nonce mismatch)")
    # artifact map (rmeta paths of this very build, for the C18 probe compiler): never glob the target dir
    r2 = subprocess.run(cmd[:4] + ["--message-format=json"] + cmd[5:], cwd=repo, env=env, capture_output=True, text=True)
    arts = {}
    for line in r2.stdout.splitlines():
        try:
            m = json.loads(line)
        except Exception:
            continue
        if m.get("reason") == "compiler-artifact":
            fns = [x for x in m.get("filenames", []) if x.endswith(".rmeta") or x.endswith(".rlib") or x.endswith(".so")]
            if fns:
                arts[m["target"]["name"].replace("-", "_")] = fns[0]
    with open(os.path.join(facts, "artifacts.json"), "w") as f:
        json.dump({"target": target, "artifacts": arts}, f, indent=1)
    with open(stamp, "w") as f:
        f.write(th)
    return facts

if __name__ == "__main__":
    t0 = time.time()
    d = extract(force="--force" in sys.argv)
    print(d, f"{time.time()-t0:.1f}s")
