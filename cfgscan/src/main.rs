// Pre-expansion #[cfg] scanner: lists every cfg / cfg_attr attribute and cfg!() macro in the given files with the syntactic
// position it is attached to (item, statement, expression, field, variant, match arm, parameter, ...) and its predicate tokens.
// Output: one JSON object per line.
use quote::ToTokens;
use syn::visit::{self, Visit};

struct V {
    file: String,
    ctx: Vec<&'static str>,
    fn_depth: usize,
    in_trait_impl: usize,
}

fn esc(s: &str) -> String {
    s.replace('\\', "\\\\").replace('"', "\\\"")
}

impl V {
    fn attrs(&mut self, attrs: &[syn::Attribute], pos: &str, name: &str) {
        for a in attrs {
            let p = a.path();
            let kind = if p.is_ident("cfg") { "cfg" } else if p.is_ident("cfg_attr") { "cfg_attr" } else { continue };
            let pred = match &a.meta {
                syn::Meta::List(l) => l.tokens.to_string(),
                other => other.to_token_stream().to_string(),
            };
            let line = p.segments[0].ident.span().start().line;
            println!(
                "{{\"file\":\"{}\",\"line\":{},\"kind\":\"{}\",\"pos\":\"{}\",\"in_fn\":{},\"name\":\"{}\",\"pred\":\"{}\"}}",
                esc(&self.file), line, kind, pos, self.fn_depth > 0, esc(name), esc(&pred)
            );
        }
    }
}

impl<'ast> Visit<'ast> for V {
    fn visit_item(&mut self, i: &'ast syn::Item) {
        let (attrs, name): (&[syn::Attribute], String) = match i {
            syn::Item::Const(x) => (&x.attrs, x.ident.to_string()),
            syn::Item::Enum(x) => (&x.attrs, x.ident.to_string()),
            syn::Item::ExternCrate(x) => (&x.attrs, x.ident.to_string()),
            syn::Item::Fn(x) => (&x.attrs, x.sig.ident.to_string()),
            syn::Item::ForeignMod(x) => (&x.attrs, "extern".into()),
            syn::Item::Impl(x) => (&x.attrs, x.self_ty.to_token_stream().to_string()),
            syn::Item::Macro(x) => (&x.attrs, x.mac.path.to_token_stream().to_string()),
            syn::Item::Mod(x) => (&x.attrs, x.ident.to_string()),
            syn::Item::Static(x) => (&x.attrs, x.ident.to_string()),
            syn::Item::Struct(x) => (&x.attrs, x.ident.to_string()),
            syn::Item::Trait(x) => (&x.attrs, x.ident.to_string()),
            syn::Item::TraitAlias(x) => (&x.attrs, x.ident.to_string()),
            syn::Item::Type(x) => (&x.attrs, x.ident.to_string()),
            syn::Item::Union(x) => (&x.attrs, x.ident.to_string()),
            syn::Item::Use(x) => (&x.attrs, x.tree.to_token_stream().to_string()),
            _ => (&[], String::new()),
        };
        let pos = if self.fn_depth > 0 { "item-in-fn" } else { "item" };
        self.attrs(attrs, pos, &name);
        visit::visit_item(self, i);
    }
    fn visit_item_impl(&mut self, i: &'ast syn::ItemImpl) {
        let t = i.trait_.is_some();
        if t { self.in_trait_impl += 1; }
        visit::visit_item_impl(self, i);
        if t { self.in_trait_impl -= 1; }
    }
    fn visit_item_fn(&mut self, i: &'ast syn::ItemFn) {
        self.fn_depth += 1;
        visit::visit_item_fn(self, i);
        self.fn_depth -= 1;
    }
    fn visit_impl_item(&mut self, i: &'ast syn::ImplItem) {
        let (attrs, name): (&[syn::Attribute], String) = match i {
            syn::ImplItem::Const(x) => (&x.attrs, x.ident.to_string()),
            syn::ImplItem::Fn(x) => (&x.attrs, x.sig.ident.to_string()),
            syn::ImplItem::Type(x) => (&x.attrs, x.ident.to_string()),
            syn::ImplItem::Macro(x) => (&x.attrs, x.mac.path.to_token_stream().to_string()),
            _ => (&[], String::new()),
        };
        let pos = if self.in_trait_impl > 0 { "trait-impl-item" } else { "impl-item" };
        self.attrs(attrs, pos, &name);
        visit::visit_impl_item(self, i);
    }
    fn visit_impl_item_fn(&mut self, i: &'ast syn::ImplItemFn) {
        self.fn_depth += 1;
        visit::visit_impl_item_fn(self, i);
        self.fn_depth -= 1;
    }
    fn visit_trait_item(&mut self, i: &'ast syn::TraitItem) {
        let (attrs, name): (&[syn::Attribute], String) = match i {
            syn::TraitItem::Const(x) => (&x.attrs, x.ident.to_string()),
            syn::TraitItem::Fn(x) => (&x.attrs, x.sig.ident.to_string()),
            syn::TraitItem::Type(x) => (&x.attrs, x.ident.to_string()),
            _ => (&[], String::new()),
        };
        self.attrs(attrs, "trait-item", &name);
        visit::visit_trait_item(self, i);
    }
    fn visit_field(&mut self, i: &'ast syn::Field) {
        self.attrs(&i.attrs, "field", &i.ident.as_ref().map(|x| x.to_string()).unwrap_or_default());
        visit::visit_field(self, i);
    }
    fn visit_variant(&mut self, i: &'ast syn::Variant) {
        self.attrs(&i.attrs, "variant", &i.ident.to_string());
        visit::visit_variant(self, i);
    }
    fn visit_arm(&mut self, i: &'ast syn::Arm) {
        self.attrs(&i.attrs, "match-arm", "");
        visit::visit_arm(self, i);
    }
    fn visit_local(&mut self, i: &'ast syn::Local) {
        self.attrs(&i.attrs, "let-statement", "");
        visit::visit_local(self, i);
    }
    fn visit_stmt(&mut self, i: &'ast syn::Stmt) {
        if let syn::Stmt::Macro(m) = i {
            self.attrs(&m.attrs, "macro-statement", "");
        }
        visit::visit_stmt(self, i);
    }
    fn visit_expr(&mut self, i: &'ast syn::Expr) {
        let attrs: &[syn::Attribute] = match i {
            syn::Expr::Block(x) => &x.attrs,
            syn::Expr::If(x) => &x.attrs,
            syn::Expr::Call(x) => &x.attrs,
            syn::Expr::MethodCall(x) => &x.attrs,
            syn::Expr::Match(x) => &x.attrs,
            syn::Expr::Assign(x) => &x.attrs,
            syn::Expr::Return(x) => &x.attrs,
            syn::Expr::Unsafe(x) => &x.attrs,
            syn::Expr::Struct(x) => &x.attrs,
            syn::Expr::Macro(x) => &x.attrs,
            syn::Expr::Try(x) => &x.attrs,
            syn::Expr::Let(x) => &x.attrs,
            syn::Expr::Loop(x) => &x.attrs,
            syn::Expr::ForLoop(x) => &x.attrs,
            syn::Expr::While(x) => &x.attrs,
            syn::Expr::Closure(x) => &x.attrs,
            syn::Expr::Binary(x) => &x.attrs,
            syn::Expr::Unary(x) => &x.attrs,
            syn::Expr::Field(x) => &x.attrs,
            syn::Expr::Path(x) => &x.attrs,
            syn::Expr::Reference(x) => &x.attrs,
            syn::Expr::Tuple(x) => &x.attrs,
            syn::Expr::Array(x) => &x.attrs,
            syn::Expr::Index(x) => &x.attrs,
            _ => &[],
        };
        self.attrs(attrs, "expression", "");
        visit::visit_expr(self, i);
    }
    fn visit_field_value(&mut self, i: &'ast syn::FieldValue) {
        self.attrs(&i.attrs, "struct-literal-field", "");
        visit::visit_field_value(self, i);
    }
    fn visit_fn_arg(&mut self, i: &'ast syn::FnArg) {
        match i {
            syn::FnArg::Typed(t) => self.attrs(&t.attrs, "parameter", ""),
            syn::FnArg::Receiver(r) => self.attrs(&r.attrs, "parameter", ""),
        }
        visit::visit_fn_arg(self, i);
    }
    fn visit_generic_param(&mut self, i: &'ast syn::GenericParam) {
        let attrs: &[syn::Attribute] = match i {
            syn::GenericParam::Type(t) => &t.attrs,
            syn::GenericParam::Lifetime(t) => &t.attrs,
            syn::GenericParam::Const(t) => &t.attrs,
        };
        self.attrs(attrs, "generic-param", "");
        visit::visit_generic_param(self, i);
    }
    fn visit_macro(&mut self, m: &'ast syn::Macro) {
        let line = m.path.segments[0].ident.span().start().line;
        if m.path.is_ident("cfg") {
            println!(
                "{{\"file\":\"{}\",\"line\":{},\"kind\":\"cfg!\",\"pos\":\"expression\",\"in_fn\":{},\"name\":\"\",\"pred\":\"{}\"}}",
                esc(&self.file), line, self.fn_depth > 0, esc(&m.tokens.to_string())
            );
        } else {
            // cfg attributes hidden inside macro invocations (macro_rules bodies, serde_str!, etc.): report token-level occurrences
            let toks = m.tokens.to_string();
            let n = toks.matches("# [cfg").count() + toks.matches("#[cfg").count() + toks.matches("cfg !").count();
            if n > 0 {
                println!(
                    "{{\"file\":\"{}\",\"line\":{},\"kind\":\"in-macro\",\"pos\":\"macro:{}\",\"in_fn\":{},\"name\":\"\",\"pred\":\"{}\"}}",
                    esc(&self.file), line, esc(&m.path.to_token_stream().to_string()), self.fn_depth > 0, n
                );
            }
        }
        visit::visit_macro(self, m);
    }
}

fn main() {
    for path in std::env::args().skip(1) {
        let src = match std::fs::read_to_string(&path) {
            Ok(s) => s,
            Err(e) => { println!("{{\"file\":\"{}\",\"error\":\"{}\"}}", esc(&path), esc(&e.to_string())); continue; }
        };
        match syn::parse_file(&src) {
            Ok(f) => {
                let mut v = V { file: path.clone(), ctx: vec![], fn_depth: 0, in_trait_impl: 0 };
                // inner attributes of the file (#![cfg(..)])
                v.attrs(&f.attrs, "file", "");
                v.visit_file(&f);
                println!("{{\"file\":\"{}\",\"parsed\":true}}", esc(&path));
            }
            Err(e) => println!("{{\"file\":\"{}\",\"error\":\"{}\"}}", esc(&path), esc(&e.to_string())),
        }
    }
}
