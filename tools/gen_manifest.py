#!/usr/bin/env python3
"""Regenerates /verif/MANIFEST.json from the table below (claimed checks) + not_applicable entries."""
import json, os
V = os.path.dirname(os.path.dirname(os.path.abspath(__file__)))
props = [json.loads(l) for l in open(os.path.join(V, "properties.jsonl"))]
TRUST = "Trusts rustc (type checking, trait resolution, MIR construction), the documented behaviour of dependency crates/C libraries, and the hand-written tables under /verif/tables and sa/rules (each row carries its reason)."
CHECKS = {
 "C01": dict(technique="static analysis: MIR abstract interpretation to symbolic summaries (origin terms + region algebra), summary composition seal∘parse∘unseal, Err-exit classification",
   text="Static necessary conditions of the round trip on the resolved program for all 6 backends x 2 purposes: seal and unseal summaries are composed and must cancel (same primitives, key origins, transcripts, widths; decoder receives exactly the encoder's bytes; footer returned = footer parsed), the library nonce has the consumed width, the RSA signature width is anchored by the modulus test, and every Err exit of the seal path (incl. the aws-lc FFI serialisers) is environmental. Not a proof that primitives invert.",
   ref="DESIGN.md §3 C01"),
 "C02": dict(technique="static analysis: symbolic summaries of the 12 unseal impls; partition / coverage / full-width-compare / verify-before-release path rules",
   text="Decides, for every backend unseal, that the payload is exactly partitioned into authenticated regions + tag, that header constants, every region, footer and (v3/v4) assertion are separate PAE pieces, that the comparison is full width, that verification success precedes decryption and Ok, that v1/v2 refuse an assertion first, that the verification key derives from the key argument, and that paseto-core passes stored bytes unmodified. Unforgeability of the primitives is assumed.",
   ref="DESIGN.md §3 C02"),
 "C12": dict(technique="static analysis: path-order rules over enumerated MIR paths (must-pass-through), error-value census, public-API census",
   text="Ordering and census properties that make the statement hold on every input: decoder only after authentication success, validator only after decode success, backends return only unit error variants, PayloadError constructed only at reviewed sites, footer reachable only via unverified_footer.",
   ref="DESIGN.md §3 C12"),
 "C03": dict(technique="static analysis: symbolic summaries compared with hand-transcribed specification terms (T-SPEC) and between sibling backends (T-SIB); unseal Err-exit whitelist",
   text="For all 12 seal functions the normalised construction (nonce derivation, KDF separators and split points, cipher identity incl. CTR counter width, MAC, PAE piece order, signature scheme and signed message, output layout) equals the specification term of its version; v3≡v3-aws-lc and v4≡v4-sodium produce identical terms; no unseal rejects on a condition the spec does not state; paseto-core passes received bytes unmodified. Library primitives are assumed to compute the standard functions.",
   ref="DESIGN.md §3 C03"),
 "C07": dict(technique="static analysis: symbolic blob terms (via paseto-core generics, DH/RSA-KEM algebra) compared with specification terms and between siblings; T-FIXW over FFI big-integer encoders; unwrap Err-exit whitelist",
   text="For 6 backends x {PIE, PBKW, PKE}: the blob term equals the PASERK specification term (domain bytes, KDF identities/split points, cipher incl. 128-bit CTR counter, MAC transcript order, parameter field layout), siblings (v3/aws-lc, v4/sodium, v1/v3, v2/v4) agree up to listed guarded deltas, every BN_bn2bin writes right-aligned into a fixed-width buffer, unwrap functions reject only on conditions the format states.",
   ref="DESIGN.md §3 C07"),
 "C15": dict(technique="static analysis: CFG/dominator/natural-loop and def-use (origin) rules over the MIR of pre_auth_encode; single-forwarding-call rule over every WriteBytes impl",
   text="pre_auth_encode has exactly the three writes of the spec (count, per-piece length = sum of fragment lengths, fragments) as unmodified u64::to_le_bytes / forwarded slices, in two plain forward loops with no other branch; every WriteBytes adapter (14, incl. the io::Write shim) forwards each slice once, unmodified. Piece order at call sites is decided under C03/C07. Injectivity follows mathematically.",
   ref="DESIGN.md §3 C15"),
 "C16": dict(technique="static analysis: per-draw error-discipline rule over enumerated MIR paths (the draw's own Result must be branched on), definedness of nonce/salt/key fields in symbolic producer outputs, statics census, loop membership of retry draws",
   text="All 39 direct draw sites: each fallible draw's own Result is tested with an Err exit before the path continues; nonce/salt/ephemeral/key positions of every producer output are full-width RNG terms with no zero-initialised or caller-controlled bytes; no static/thread_local exists in the lib crates (no caching of draws); retrying key generators redraw inside the loop. Statistical uniqueness and RNG use inside dependencies are out of reach.",
   ref="DESIGN.md §3 C16"),
 "C17": dict(technique="static analysis: rustc Freeze facts for every key type, public-API census for &mut keys, unsafe Send/Sync impl census, pointer-provenance rule for FFI arguments vs binding mutability, const->mut cast scan, statics census",
   text="Type-level argument: all key types are Freeze, no public API takes a key by &mut, the only unsafe Send/Sync impls are the two aws-lc key wrappers whose &self methods pass self-derived pointers only to *const FFI parameters with no const->mut cast, and no static mut / interior-mutable static / thread_local exists — so neither interleavings nor failed operations can change a key. Thread-safety of the C libraries for const access is their contract.",
   ref="DESIGN.md §3 C17"),
 "C18": dict(technique="static analysis: impl census from the compiler's coherence data plus a compile-fail probe catalogue with compiling twins, type-checked by rustc against this build's rmeta",
   text="rustc is the checker: (a) census of every formatting/serde impl on keys, unsealed tokens and secret-bearing backend structs, of the marker-trait impls and of public accessors returning key bytes; (b) 37 misuse programs x 6 backends must each be rejected with the expected error while their twins (identical but for the offending line) and 4 correct programs per backend compile. The catalogue is finite and enumerated completely on every run; programs outside it are covered only by the census.",
   ref="DESIGN.md §3 C18", note="Trusts rustc's type and coherence checking. Obligations = census rows + probe/twin pairs; all must be discharged."),
 "C19": dict(technique="static analysis: cargo/rustc type-check of feature closures, syn-based pre-expansion cfg scan (subtractive gates only), per-function normalised-MIR digest equality between reduced and full configurations",
   text="Every feature set checked type-checks (quick: none/default/each single flag per crate + core/json variants; thorough: all 45 distinct closures per crate); every #[cfg] is a positive item-level feature predicate (no cfg on statements/expressions/fields, no not(), cfg!, cfg_attr), so features only add items; functions present in a reduced build compile to the same normalised MIR as in the full build. Additivity of dependency features is cargo's contract.",
   ref="DESIGN.md §3 C19"),
 "C08": dict(technique="static analysis: exact-length closure and validator must-pass rules over enumerated decode paths, symbolic encode∘decode composition with a table of inverse library pairs, component-wise Clone check, public-key derivation terms",
   text="For every HasKey impl (6 backends x 5 kinds): decode is closed by the kind's exact width, encode(decode(b)) = b symbolically (no canonicalising/truncating decoder), each success path passes the key type's validating constructor, Ed25519 secret decoders re-derive and compare the public half, manual Clone impls are component-wise, public_key() is the scheme's public key of that secret and equals the embedded half. One known finding (D7: libsodium public keys are length-checked only) is listed in known_findings.json.",
   ref="DESIGN.md §3 C08"),
 "C04": dict(technique="static analysis: census of every panic-capable MIR construct (Assert terminators, unwrap/expect, indexing, split_at, copy_from_slice, explicit panics, dependency APIs documented to panic) discharged by a flow-sensitive interval and slice-length abstract interpretation with context-sensitive workspace callees; FFI status/ownership/buffer-length dataflow rules; unsafe-operation census",
   text="Every one of the ~290 panic-capable sites in the 8 library crates is proved unreachable or its precondition proved from intervals and exact length algebra (overflow asserts included, so release builds cannot wrap either), or is covered by a dependency contract quoted from the dependency source, or by a reviewed row (7 classes, count-capped). aws-lc FFI: every key/signature object is constructed only after all setters returned 1, ownership is detached only after ECDSA_SIG_set0 succeeded, set_len is paired with reserve and successful writes of exactly the added bytes, every (pointer, length) pair passed to aws-lc stays inside its buffer, public keys reach the FFI decoder only as exactly 49 bytes (D5), unsafe operations are confined to lc and base64. Does not decide panics or memory errors inside dependencies (e.g. the rsa crate's key parser), allocation failure, stack depth or KDF cost exhaustion.",
   ref="DESIGN.md §3 C04"),
 "C14": dict(technique="static analysis: writer/reader member-table extraction (def-use origins + dominators over Serialize, byte-trie reconstruction from all MIR paths of visit_bytes, per-arm local/field mapping in visit_map) and single-call transparency rule for the Json<T> wrappers",
   text="Decides the structural clause only: the Serialize impl and the hand-written Deserialize visitor of RegisteredClaims implement the same bijection between the 7 member names and the 7 fields, absent fields emit nothing, duplicate checks test the assigned local and name the same member, member names are read through deserialize_identifier (escaped names reach visit_str), values are requested at the field's own type, unknown members are consumed as IgnoredAny; Json<T>/RegisteredClaims payload and footer encode/decode are one serde_json call on the whole wrapped value/input with the result passed through, empty footer rejected. RFC 3339/nanosecond fidelity and escaping are jiff's/serde_json's contracts and are not decided.",
   ref="DESIGN.md §3 C14"),
 "C13": dict(technique="static analysis: symbolic hash_key terms vs specification and siblings, plumbing terms of KeyId::from / Key::id, std-op census of comparison impls, shared text-form and re-encoding rules",
   text="hash_key of all 6 backends equals the specified digest construction (and siblings agree), ids are computed over the key's own canonical text via expose_key(), the re-encoding equals the supplied encoding, id text is a strict 33-byte mirror form, Eq/Ord/Hash/Clone use only the id bytes, lid/pid/sid headers are distinct.",
   ref="DESIGN.md §3 C13"),
 "C09": dict(technique="static analysis: Display/FromStr summary mirroring, whole-remainder dataflow rule, dominator rule over the base64 decoder CFG, symbolic extraction of alphabet/bit-layout constants compared with RFC 4648 §5 by arithmetic, serde impl census",
   text="The six text forms are mirror images (same constants in the same order, same stored field, whole remainder decoded, '.'+footer iff non-empty); base64 decode accumulates every verdict unconditionally before the single err==0 test, validates the last block on the Ok path, sizes output by decoded_len; the alphabet and 6-bit packing constants extracted from the code equal RFC 4648 §5; serde uses exactly the text form; key ids must be 33 bytes. Construction-level: a different coding style fails closed.",
   ref="DESIGN.md §3 C09"),
 "C10": dict(technique="static analysis: exhaustive census of evaluated associated consts and impls, prefix-freeness computation, exact-length closure analysis of every HasKey::decode path, shared header-coverage rules",
   text="Finite and exhaustive: version/paserk header consts per backend, prefix-freeness of all 52 parse prefixes across versions and kinds, every key decoder closed by an exact-length test of the kind's width (and RSA modulus size for v1), kind/version header inside every authenticated transcript, every FromStr strips its own trait constants.",
   ref="DESIGN.md §3 C10"),
 "C11": dict(technique="static analysis: decision-table extraction from enumerated MIR paths, exhaustive comparison with specification predicates over semantic atoms; structural path-shape rules for combinators",
   text="Each built-in leaf validator's branch structure is mapped to semantic atoms (claim presence, 3-valued timestamp order incl. the leeway-shifted bounds, string equality) and compared with the specified predicate for every assignment of the atoms (finite, exhaustive); combinators (and_then, slices/Vec, Box/Rc/Arc, map, NoValidation) are checked on their path shapes; the unseal gate releases exactly the validated message on the validator's success edge. jiff's arithmetic/ordering is trusted.",
   ref="DESIGN.md §3 C11"),
 "C05": dict(technique="static analysis: summary composition wrap∘unwrap through paseto-core generics (PIE, PBKW, PKE incl. DH / RSA-KEM term algebra), fixed-width layout, Err-exit and parameter-rejection classification",
   text="For 6 backends x {PIE, PBKW, PKE}: the wrap/seal summary and the unwrap/unseal summary are composed symbolically and must cancel (tag check compares identical constructions, decoder receives exactly the encoded key / the sealed key comes back), the blob is fixed-width fields plus the key field with the overhead the format prescribes, no variable-length integer encoding reaches an output field unpadded, wrap paths fail only for environmental reasons or reviewed parameter rejections.",
   ref="DESIGN.md §3 C05"),
 "C06": dict(technique="static analysis: symbolic summaries of the 18 unwrap/unseal-key impls; partition / coverage-as-received / full-width-compare / verify-before-release path rules",
   text="For every undo function: blob exactly partitioned into authenticated regions + tag, transcript starts with the PASERK version literal and kind header and contains every region as received (unmodified), full-width tag comparison, verification before decryption/Ok on all paths, MAC key bound to wrapping key / password / recipient key, paseto-core passes the kind's header constant. MAC/DH security assumed.",
   ref="DESIGN.md §3 C06"),
}
NA = {}
m = {"version": 1,
 "setup_cmd": "cd /verif/driver && CARGO_NET_OFFLINE=true cargo +nightly build --release --offline && cd /verif/cfgscan && CARGO_NET_OFFLINE=true cargo build --release --offline && cd /verif && python3 sa/extract.py && python3 sa/features.py --warm",
 "hooks": {"guard": "paseto_rs_verif", "enable": "none needed: static analysis reads /repo sources as they are (no instrumentation commits)",
           "baseline_off_cmd": "cd /repo && cargo test --workspace --no-fail-fast --offline", "source_commits": [], "add_only": True},
 "engines": [
  {"name": "facts-driver", "path": "driver/", "serves_properties": sorted(CHECKS), "kind_free_text": "rustc_private compiler driver (RUSTC_WORKSPACE_WRAPPER under cargo +nightly check) dumping resolved MIR, evaluated constants, impl census, ADT layouts as JSON facts; no repository code is executed"},
  {"name": "term-interpreter", "path": "sa/", "serves_properties": sorted(CHECKS), "kind_free_text": "Python abstract interpreter over MIR facts (origin terms, region algebra, event transcripts, acyclic path enumeration), normaliser to abstract crypto terms, rule modules under sa/rules"},
  {"name": "interval-absint", "path": "sa/absint.py", "serves_properties": ["C04"], "kind_free_text": "flow-sensitive interval / slice-length abstract interpretation of MIR with context-sensitive workspace callees, dependency contracts and FFI dataflow hooks (sa/absint.py, absint_calls.py, absint_contracts.py)"},
  {"name": "probe-compiler", "path": "probes/", "serves_properties": ["C18"], "kind_free_text": "catalogue of misuse programs with compiling twins, type-checked by rustc --emit=metadata against the rmeta files of the current build"},
  {"name": "cfgscan", "path": "cfgscan/", "serves_properties": ["C19"], "kind_free_text": "syn-based scan of #[cfg] placement on unexpanded source; feature-closure builds and normalised-MIR digests in sa/features.py"},
  {"name": "selftest", "path": "sa/selftest.py", "serves_properties": sorted(set(CHECKS) - {"C19"}), "kind_free_text": "thorough tier: stored mutants (seeded/, selftest/) are applied to a scratch copy of /repo, facts re-extracted, the rules must fire; benign refactors must stay silent"}],
 "checks": [], "notes": "Fix commits in /repo (genuine defects): see known_findings.json 'fixed'. No hook commits.",
 "not_applicable": []}
for p in props:
    pid = p["id"]
    if pid in CHECKS:
        c = CHECKS[pid]
        m["checks"].append({"property_id": pid, "quick_cmd": f"./check {pid} --tier quick", "thorough_cmd": f"./check {pid} --tier thorough",
            "evidence_file": f"/verif/evidence/{pid}.json", "replay_cmd_template": f"./check {pid} --replay {{path}}", "engine": "term-interpreter",
            "level_claimed": {"category": c.get("category", "other"), "text": c["text"], "design_ref": c["ref"]},
            "level_note": c.get("note", TRUST), "technique": c["technique"]})
    else:
        m["not_applicable"].append({"property_id": pid, "reason": NA.get(pid, "check not built yet (framework under construction; planned rules in DESIGN.md §4)")})
json.dump(m, open(os.path.join(V, "MANIFEST.json"), "w"), indent=1)
print("checks:", [c["property_id"] for c in m["checks"]])
