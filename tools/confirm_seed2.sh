#!/bin/bash
# usage: confirm_seed.sh <PROP> <VARIANT>   (run inside the agent's scratch worktree /tmp/wt/<PROP>)
# Confirms: patch applies+compiles, suite passes with patch, demo fails with patch, demo passes without.
set -u
P=$1; X=$2
WT=/tmp/wt/$P; OUT=${OUTDIR:-/tmp/wt/out-$P}
export CARGO_NET_OFFLINE=true CARGO_TARGET_DIR=$WT/target
cd $WT || exit 2
git checkout -q -- . ; rm -f paseto-test/tests/demo_*.rs
LOG=$OUT/confirm_$X.log; : > $LOG
demo=$OUT/demo_$X.rs
[ -f "$demo" ] || { echo "no demo file $demo" | tee -a $LOG; exit 2; }
cp $demo paseto-test/tests/demo_${P}_$X.rs
# 1. demo on pristine
cargo test -p paseto-test --test demo_${P}_$X --offline >> $LOG 2>&1; pristine=$?
# 2. with patch
git apply $OUT/patch_$X.diff >> $LOG 2>&1 || { echo "PATCH DOES NOT APPLY" | tee -a $LOG; exit 2; }
cargo test -p paseto-test --test demo_${P}_$X --offline >> $LOG 2>&1; patched=$?
rm -f paseto-test/tests/demo_${P}_$X.rs
cargo test --workspace --no-fail-fast --offline > $OUT/confirm_suite_$X.log 2>&1; suite=$?
nfail=$(grep -c "^test .* FAILED" $OUT/confirm_suite_$X.log)
failed=$(grep "^test .* FAILED" $OUT/confirm_suite_$X.log | tr '\n' ' ')
git checkout -q -- .
echo "RESULT $P $X demo_pristine_exit=$pristine demo_patched_exit=$patched suite_exit=$suite suite_failed_tests=$nfail [$failed]" | tee -a $LOG
