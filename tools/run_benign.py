#!/usr/bin/env python3
"""Applies every selftest/**/benign*.diff (or the diffs given) to a scratch copy and runs all scratch-capable checks; prints who fires."""
import sys, os, glob, subprocess, importlib, shutil
V = os.path.dirname(os.path.dirname(os.path.abspath(__file__)))
sys.path.insert(0, os.path.join(V, "sa")); sys.path.insert(0, os.path.join(V, "sa", "rules"))
import extract, runner, selftest
diffs = sys.argv[1:] or sorted(glob.glob(os.path.join(V, "selftest", "*", "benign*.diff")))
props = [f"C{i:02d}" for i in range(1, 20)]
if os.environ.get("ONLY"):
    props = [p for p in props if p in os.environ["ONLY"].split(",")]
if os.environ.get("SKIP_C19") and "C19" in props:
    props.remove("C19")      # C19 drives cargo in shared target dirs: skip when another scratch run is active
SUF = os.environ.get("BENIGN_SUFFIX", "")      # several instances may run side by side (own scratch copy, facts, target)
repo = os.path.join(selftest.SCRATCH + "-benign" + SUF, "repo")
os.makedirs(repo, exist_ok=True)
for d in diffs:
    subprocess.run(["rsync", "-a", "--delete", "--exclude", "target", "--exclude", ".git", extract.REPO + "/", repo + "/"], check=True)
    r = subprocess.run(["patch", "--batch", "-p1", "-s", "-i", os.path.abspath(d)], cwd=repo, capture_output=True, text=True, stdin=subprocess.DEVNULL)
    if r.returncode:
        print(os.path.basename(d), "PATCH FAILED", r.stdout[-200:]); continue
    try:
        facts = extract.extract("benign" + SUF, repo=repo, target=os.path.join(extract.CACHE, "target-benign" + SUF))
    except RuntimeError as e:
        print(os.path.basename(d), "BUILD FAILED", str(e)[:200]); continue
    fired = []
    for p in props:
        mod = importlib.import_module(p.lower())
        ctx = runner.Ctx(p, "quick", facts)
        ctx.repo = repo
        try:
            mod.run(ctx)
            _, un, _, _ = runner.judge(p, mod, ctx)
            if un:
                fired.append(p + "[" + ",".join(sorted({f.rule for f in un})) + "]")
                if os.environ.get("VERBOSE"):
                    for f in un[:4]:
                        print("   ", f.rule, f.key, "::", f.detail[:300])
        except Exception as e:
            fired.append(p + "[EXC " + type(e).__name__ + "]")
    print(os.path.basename(d), "->", " ".join(fired) or "silent")
shutil.rmtree(selftest.SCRATCH + "-benign" + SUF, ignore_errors=True)
