#!/bin/bash
# usage: scratch_facts.sh <diff> [config]  — applies the diff to a scratch copy of /repo and extracts facts into .cache/facts/<config> (default: inspect)
S=$HOME/.cache/paseto-verif-inspect/repo; mkdir -p $S
D=$(realpath "$1"); C=${2:-inspect}
rsync -a --delete --exclude target --exclude .git /repo/ $S/ && (cd $S && patch --batch -p1 -s -i "$D" < /dev/null) && cd /verif && python3 - <<PY
import sys; sys.path.insert(0,'/verif/sa')
import extract, os
print(extract.extract("$C", repo="$S", target=os.path.join(extract.CACHE,"target-$C")))
PY
