#!/usr/bin/env python3
"""Seed matrix without touching /repo: every seeded/<ID>/patch.diff (and selftest mutants with --all) is applied to a scratch copy,
facts are extracted, all 19 rule modules run; writes seeded/MATRIX.txt (one line per change: the checks and rules that fire)."""
import sys, os, glob, subprocess, importlib, shutil, time
V = os.path.dirname(os.path.dirname(os.path.abspath(__file__)))
sys.path.insert(0, os.path.join(V, "sa")); sys.path.insert(0, os.path.join(V, "sa", "rules"))
import extract, runner, selftest
only = [a for a in sys.argv[1:] if not a.startswith("--")]
opts = dict(a[2:].split("=", 1) if "=" in a else (a[2:], "1") for a in sys.argv[1:] if a.startswith("--"))
JOBS = int(opts.get("jobs", "1"))
WORKER = opts.get("worker")          # internal: worker index, writes its lines to --out instead of MATRIX.txt
dirs = sorted(glob.glob(os.path.join(V, "seeded", "C*-*")))
if only:
    dirs = [d for d in dirs if os.path.basename(d) in only or os.path.basename(d)[:3] in only]
props = [f"C{i:02d}" for i in range(1, 20)]
out_path = os.path.join(V, "seeded", "MATRIX.txt")
if JOBS > 1 and WORKER is None:
    # one scratch copy, target directory and facts configuration per worker
    names = [os.path.basename(d) for d in dirs]
    parts = [names[i::JOBS] for i in range(JOBS)]
    procs = []
    for i, part in enumerate(parts):
        if part:
            po = os.path.join(extract.CACHE, f"matrix-part-{i}.txt")
            procs.append((po, subprocess.Popen([sys.executable, os.path.abspath(__file__), f"--worker={i}", f"--out={po}"] + part)))
    lines = {}
    if only and os.path.exists(out_path):
        for l in open(out_path):
            k, _, v = l.partition(":")
            lines[k.strip()] = v.strip()
    for po, pr in procs:
        pr.wait()
        if os.path.exists(po):
            for l in open(po):
                k, _, v = l.partition(":")
                lines[k.strip()] = v.strip()
            os.remove(po)
    with open(out_path, "w") as f:
        for k in sorted(lines):
            f.write(f"{k}: {lines[k]}\n")
    sys.exit(0)
SUF = f"-w{WORKER}" if WORKER is not None else ""
os.environ["VERIF_SCRATCH_SUFFIX"] = SUF
repo = os.path.join(selftest.SCRATCH + "-matrix" + SUF, "repo")
os.makedirs(repo, exist_ok=True)
mods = {p: importlib.import_module(p.lower()) for p in props}
lines = {}
if WORKER is not None:
    out_path = opts["out"]
if only and WORKER is None and os.path.exists(out_path):
    for l in open(out_path):
        k, _, v = l.partition(":")
        lines[k.strip()] = v.strip()
for d in dirs:
    name = os.path.basename(d)
    t0 = time.time()
    subprocess.run(["rsync", "-a", "--delete", "--exclude", "target", "--exclude", ".git", extract.REPO + "/", repo + "/"], check=True)
    r = subprocess.run(["patch", "--batch", "-p1", "-s", "-i", os.path.join(d, "patch.diff")], cwd=repo, capture_output=True, text=True, stdin=subprocess.DEVNULL)
    if r.returncode:
        lines[name] = "PATCH DOES NOT APPLY"; print(name, lines[name]); continue
    try:
        facts = extract.extract("selftest" + SUF, repo=repo, target=os.path.join(extract.CACHE, "target-selftest" + SUF))
    except RuntimeError as e:
        lines[name] = "DOES NOT BUILD"; print(name, lines[name]); continue
    fired = []
    for p in props:
        ctx = runner.Ctx(p, "quick", facts)
        ctx.repo = repo
        try:
            mods[p].run(ctx)
            _, un, _, _ = runner.judge(p, mods[p], ctx)
            if un:
                fired.append(p + "[" + ",".join(sorted({f.rule for f in un})) + "]")
        except Exception as e:
            fired.append(p + "[CHECKER-ERROR " + type(e).__name__ + "]")
    lines[name] = " ".join(fired)
    print(f"{name}: {lines[name]}   ({time.time()-t0:.0f}s)", flush=True)
with open(out_path, "w") as f:
    for k in sorted(lines):
        f.write(f"{k}: {lines[k]}\n")
shutil.rmtree(selftest.SCRATCH + "-matrix" + SUF, ignore_errors=True)
if WORKER is not None:
    shutil.rmtree(os.path.join(extract.CACHE, "target-selftest" + SUF), ignore_errors=True)
    shutil.rmtree(os.path.join(extract.CACHE, "target-feat" + SUF), ignore_errors=True)
    for d in glob.glob(os.path.join(extract.CACHE, "facts", "selftest" + SUF + "*")):
        shutil.rmtree(d, ignore_errors=True)
