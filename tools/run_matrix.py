#!/usr/bin/env python3
"""Seed matrix without touching /repo: every seeded/<ID>/patch.diff (and selftest mutants with --all) is applied to a scratch copy,
facts are extracted, all 19 rule modules run; writes seeded/MATRIX.txt (one line per change: the checks and rules that fire)."""
import sys, os, glob, subprocess, importlib, shutil, time
V = os.path.dirname(os.path.dirname(os.path.abspath(__file__)))
sys.path.insert(0, os.path.join(V, "sa")); sys.path.insert(0, os.path.join(V, "sa", "rules"))
import extract, runner, selftest
only = [a for a in sys.argv[1:] if not a.startswith("--")]
dirs = sorted(glob.glob(os.path.join(V, "seeded", "C*-*")))
if only:
    dirs = [d for d in dirs if os.path.basename(d) in only or os.path.basename(d)[:3] in only]
props = [f"C{i:02d}" for i in range(1, 20)]
repo = os.path.join(selftest.SCRATCH + "-matrix", "repo")
os.makedirs(repo, exist_ok=True)
mods = {p: importlib.import_module(p.lower()) for p in props}
lines = {}
out_path = os.path.join(V, "seeded", "MATRIX.txt")
if only and os.path.exists(out_path):
    for l in open(out_path):
        k, _, v = l.partition(":")
        lines[k.strip()] = v.strip()
for d in dirs:
    name = os.path.basename(d)
    t0 = time.time()
    subprocess.run(["rsync", "-a", "--delete", "--exclude", "target", "--exclude", ".git", extract.REPO + "/", repo + "/"], check=True)
    r = subprocess.run(["patch", "--batch", "-p1", "-s", "-i", os.path.join(d, "patch.diff")], cwd=repo, capture_output=True, text=True, stdin=subprocess.DEVNULL)
    if r.returncode:
        lines[name] = "PATCH DOES NOT APPLY"; print(name, lines[name]); continue
    try:
        facts = extract.extract("selftest", repo=repo, target=os.path.join(extract.CACHE, "target-selftest"))
    except RuntimeError as e:
        lines[name] = "DOES NOT BUILD"; print(name, lines[name]); continue
    fired = []
    for p in props:
        ctx = runner.Ctx(p, "quick", facts)
        ctx.repo = repo
        try:
            mods[p].run(ctx)
            _, un, _, _ = runner.judge(p, mods[p], ctx)
            if un:
                fired.append(p + "[" + ",".join(sorted({f.rule for f in un})) + "]")
        except Exception as e:
            fired.append(p + "[CHECKER-ERROR " + type(e).__name__ + "]")
    lines[name] = " ".join(fired)
    print(f"{name}: {lines[name]}   ({time.time()-t0:.0f}s)", flush=True)
with open(out_path, "w") as f:
    for k in sorted(lines):
        f.write(f"{k}: {lines[k]}\n")
shutil.rmtree(selftest.SCRATCH + "-matrix", ignore_errors=True)
