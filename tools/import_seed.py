#!/usr/bin/env python3
"""import_seed.py <PROP> <VARIANT>: copy a confirmed seeded change from /tmp/wt/out-<PROP> into /verif/seeded/."""
import sys, os, shutil, json, re
P, X = sys.argv[1], sys.argv[2]
src = f"/tmp/wt/out-{P}"
dst = f"/verif/seeded/{P}-{X}"
log = open(f"{src}/confirm_{X}.log").read()
m = re.search(r"RESULT \S+ \S+ demo_pristine_exit=(\d+) demo_patched_exit=(\d+) suite_exit=(\d+) suite_failed_tests=(\d+)", log)
assert m, "no confirmation result"
pr, pa, su, nf = map(int, m.groups())
assert pr == 0 and pa != 0 and su == 0 and nf == 0, f"not confirmed: {m.group(0)}"
os.makedirs(dst, exist_ok=True)
shutil.copy(f"{src}/patch_{X}.diff", f"{dst}/patch.diff")
shutil.copy(f"{src}/demo_{X}.rs", f"{dst}/demo.rs")
notes = open(f"{src}/notes_{X}.md").read() if os.path.exists(f"{src}/notes_{X}.md") else ""
open(f"{dst}/notes.md", "w").write(notes)
extra = f"{src}/gen"
if os.path.isdir(extra) and X == "A" and P == "C04":
    shutil.copytree(extra, f"{dst}/gen", dirs_exist_ok=True)
files = re.findall(r"^\+\+\+ b/(\S+)", open(f"{dst}/patch.diff").read(), re.M)
meta = {"id": f"{P}-{X}", "breaks_property": P, "files_changed": files,
        "needs_to_manifest": "see notes.md (section on trigger)",
        "source": "independent sub-agent given only the property text and a scratch worktree",
        "confirmed_by": "tools/confirm_seed.sh in a scratch worktree: demo passes on pristine tree (exit 0), demo fails with the patch (exit %d), full workspace suite passes with the patch (exit 0, 0 failed tests)" % pa,
        "demo_how": f"copy demo.rs to paseto-test/tests/demo_{P}_{X}.rs and run `cargo test -p paseto-test --test demo_{P}_{X} --offline`"}
# first paragraph of the notes that mentions trigger/needs
mm = re.search(r"(?is)(trigger|needs|manifest)[^\n]*\n(.{0,600})", notes)
if mm:
    meta["needs_to_manifest"] = (mm.group(0)[:700]).strip()
json.dump(meta, open(f"{dst}/meta.json", "w"), indent=1)
print("imported", dst)
