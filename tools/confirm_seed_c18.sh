#!/bin/bash
# confirm C18 seeds: demo = two test files (driver + cases) copied into paseto-test/tests
X=$1; P=C18; WT=/tmp/wt/$P; OUT=/tmp/wt/out-$P
export CARGO_NET_OFFLINE=true CARGO_TARGET_DIR=$WT/target
cd $WT; git checkout -q -- .; rm -f paseto-test/tests/demo_*.rs
cp $OUT/demo_$X/*.rs paseto-test/tests/
LOG=$OUT/confirm_$X.log; : > $LOG
cargo test --offline -p paseto-test --test demo_C18_$X >> $LOG 2>&1; pristine=$?
git apply $OUT/patch_$X.diff || { echo "PATCH DOES NOT APPLY" | tee -a $LOG; exit 2; }
cargo test --offline -p paseto-test --test demo_C18_$X >> $LOG 2>&1; patched=$?
rm -f paseto-test/tests/demo_*.rs
cargo test --workspace --no-fail-fast --offline > $OUT/confirm_suite_$X.log 2>&1; suite=$?
nfail=$(grep -c "^test .* FAILED" $OUT/confirm_suite_$X.log)
git checkout -q -- .
echo "RESULT $P $X demo_pristine_exit=$pristine demo_patched_exit=$patched suite_exit=$suite suite_failed_tests=$nfail []" | tee -a $LOG
