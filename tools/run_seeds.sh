#!/bin/bash
# Runs every seeded change against the checks of all claimed properties (or those given) and prints a matrix.
# usage: run_seeds.sh [PROP ...]
cd /verif
props=${@:-$(python3 -c "import json;print(' '.join(c['property_id'] for c in json.load(open('MANIFEST.json'))['checks']))")}
out=${OUT:-/verif/seeded/MATRIX.txt}; : > $out
for d in seeded/*/; do
  id=$(basename $d); [ -f $d/patch.diff ] || continue
  if ! git -C /repo apply --check $PWD/$d/patch.diff 2>/dev/null; then echo "$id: patch does not apply to current /repo" | tee -a $out; continue; fi
  git -C /repo apply $PWD/$d/patch.diff
  line="$id:"
  for p in $props; do
    r=$(./check $p 2>&1); rc=$?
    if [ $rc -eq 1 ]; then rules=$(echo "$r" | grep -o "rule=R[0-9.]*" | sort -u | tr '\n' ',' | sed 's/rule=//g; s/,$//'); line="$line $p[$rules]"; fi
    if [ $rc -gt 1 ]; then line="$line $p[CHECKER-ERROR]"; fi
  done
  git -C /repo checkout -- . ; git -C /repo clean -fdq
  echo "$line" | tee -a $out
done
cd /verif && python3 sa/extract.py > /dev/null
