#!/bin/bash
P=C19; WT=/tmp/wt/$P; OUT=/tmp/wt/out-$P
export CARGO_NET_OFFLINE=true CARGO_TARGET_DIR=$WT/target
cd $WT; git checkout -q -- .
for X in A B; do
  LOG=$OUT/confirm_$X.log; : > $LOG
  if [ $X = A ]; then demo="bash $OUT/demo_A.sh $WT"; else demo="bash $OUT/demo_B/run.sh $WT"; fi
  $demo >> $LOG 2>&1; pristine=$?
  git apply $OUT/patch_$X.diff || { echo "PATCH DOES NOT APPLY" | tee -a $LOG; continue; }
  $demo >> $LOG 2>&1; patched=$?
  cargo test --workspace --no-fail-fast --offline > $OUT/confirm_suite_$X.log 2>&1; suite=$?
  nfail=$(grep -c "^test .* FAILED" $OUT/confirm_suite_$X.log)
  git checkout -q -- .; git clean -fdq paseto-v4/tests 2>/dev/null
  echo "RESULT $P $X demo_pristine_exit=$pristine demo_patched_exit=$patched suite_exit=$suite suite_failed_tests=$nfail []" | tee -a $LOG
done
