#!/usr/bin/env python3
"""import_seed2.py <PROP> <OUTDIR> [<confirm log>]: copy round-2 confirmed seeded changes (variants A,B of OUTDIR) into seeded/<PROP>-C and -D."""
import sys, os, shutil, json, re
P, src = sys.argv[1], sys.argv[2]
LET = sys.argv[3:5] if len(sys.argv) >= 5 else ["C", "D"]
RND = {"C": 2, "E": 3, "G": 4, "I": 5}.get(LET[0], 2)
for X, Y in (("A", LET[0]), ("B", LET[1])):
    if not os.path.exists(f"{src}/patch_{X}.diff"):
        continue
    dst = f"/verif/seeded/{P}-{Y}"
    log = open(f"{src}/confirm_{X}.log").read()
    m = re.search(r"RESULT \S+ \S+ demo_pristine_exit=(\d+) demo_patched_exit=(\d+) suite_exit=(\d+) suite_failed_tests=(\d+)", log)
    assert m, "no confirmation result"
    pr, pa, su, nf = map(int, m.groups())
    if not (pr == 0 and pa != 0 and su == 0 and nf == 0):
        print("NOT CONFIRMED", P, X, m.group(0)); continue
    os.makedirs(dst, exist_ok=True)
    shutil.copy(f"{src}/patch_{X}.diff", f"{dst}/patch.diff")
    if os.path.exists(f"{src}/demo_{X}.rs"):
        shutil.copy(f"{src}/demo_{X}.rs", f"{dst}/demo.rs")
    for extra in os.listdir(src):
        if os.path.isdir(f"{src}/{extra}") and extra.startswith(f"demo_{X}"):
            shutil.copytree(f"{src}/{extra}", f"{dst}/demo", dirs_exist_ok=True)
        if extra.endswith((".pem", ".der", ".sh", ".py")) and os.path.isfile(f"{src}/{extra}") and os.path.getsize(f"{src}/{extra}") < 200000:
            shutil.copy(f"{src}/{extra}", f"{dst}/{extra}")
    notes = open(f"{src}/notes_{X}.md").read() if os.path.exists(f"{src}/notes_{X}.md") else ""
    open(f"{dst}/notes.md", "w").write(notes)
    files = re.findall(r"^\+\+\+ b/(\S+)", open(f"{dst}/patch.diff").read(), re.M)
    mm = re.search(r"(?is)(trigger|needs|manifest)[^\n]*\n(.{0,600})", notes)
    meta = {"id": f"{P}-{Y}", "round": RND, "breaks_property": P, "files_changed": files,
            "needs_to_manifest": (mm.group(0)[:700].strip() if mm else "see notes.md"),
            "source": "independent sub-agent (later round) given only the property text, a scratch worktree and the one-line titles of the earlier changes to avoid",
            "confirmed_by": "tools/confirm_seed2.sh in a scratch worktree: demo passes on pristine tree (exit 0), demo fails with the patch (exit %d), full workspace suite passes with the patch (exit 0, 0 failed tests)" % pa,
            "demo_how": f"copy demo.rs to paseto-test/tests/demo_{P}_{Y}.rs and run `cargo test -p paseto-test --test demo_{P}_{Y} --offline` (see notes.md)"}
    json.dump(meta, open(f"{dst}/meta.json", "w"), indent=1)
    print("imported", dst)
