#!/bin/bash
# usage: try_seed.sh <patch.diff> <PROP> [<PROP>...]  — apply to /repo, run the checks, always revert.
patch=$1; shift
cd /repo && git apply --check "$patch" || { echo "patch does not apply to current /repo"; exit 2; }
git apply "$patch"
trap 'git -C /repo checkout -- . ; git -C /repo clean -fdq -- . >/dev/null 2>&1' EXIT
for p in "$@"; do
  echo "=== $p"; (cd /verif && ./check $p 2>&1 | grep -E "VIOLATION|rule=|^C[0-9]+:|CHECKER|Error" | cut -c1-400 | head -20)
done
