#!/usr/bin/env python3
"""Regenerates the seeded-change table in DESIGN.md (between the MATRIX markers) from seeded/MATRIX.txt."""
import re, os, json
V = os.path.dirname(os.path.dirname(os.path.abspath(__file__)))
rows = []
n = own = 0
for l in open(os.path.join(V, "seeded", "MATRIX.txt")):
    k, _, v = l.strip().partition(":")
    hits = dict(re.findall(r"(C\d\d)\[([^\]]*)\]", v))
    p = k[:3]
    title = ""
    np_ = os.path.join(V, "seeded", k, "notes.md")
    if os.path.exists(np_):
        for ln in open(np_):
            if ln.startswith("# "):
                title = re.sub(r"^(C\d\d\s*/?\s*)?[Vv]ariant [AB]\s*[-—:–]*\s*", "", ln[2:].strip())[:90]
                break
    n += 1
    own += 1 if p in hits else 0
    others = " ".join(f"{q}[{r}]" for q, r in sorted(hits.items()) if q != p)
    rows.append(f"| {k} | {title} | {('**' + hits[p] + '**') if p in hits else '—'} | {others or '—'} |")
md = (f"{own} of the {n} changes are caught by the check of the property they were written against (bold column); "
      "most are also caught by sibling checks sharing a rule. Variants A/B are the first round, C/D the second round "
      "(agents were told the first round's one-line titles and asked for different mechanisms).\n\n"
      "| change | what it does | own property's rules that fire | other checks that fire |\n|---|---|---|---|\n" + "\n".join(rows) + "\n")
s = open(os.path.join(V, "DESIGN.md")).read()
a, b = s.index("<!-- MATRIX-BEGIN -->"), s.index("<!-- MATRIX-END -->")
s = s[:a] + "<!-- MATRIX-BEGIN -->\n" + md + s[b:]
open(os.path.join(V, "DESIGN.md"), "w").write(s)
print(own, "/", n)
