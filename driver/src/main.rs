// Fact extractor for the paseto-rs static-analysis harness.
//
// Injected with RUSTC_WORKSPACE_WRAPPER under `cargo +nightly check`.  For every
// workspace crate it dumps, after analysis, one JSON file with the resolved
// program: MIR bodies (opt-level 0), resolved callees, evaluated constants,
// impl census, ADT layouts, statics and foreign signatures.  No repository code
// is executed (const evaluation of *constants* is rustc's own CTFE and is
// limited to literal/promoted/associated consts).
#![feature(rustc_private)]
extern crate rustc_abi;
extern crate rustc_driver;
extern crate rustc_hir;
extern crate rustc_interface;
extern crate rustc_middle;
extern crate rustc_span;

use std::collections::HashMap;
use std::fmt::Write as _;

use rustc_driver::Compilation;
use rustc_hir::def::DefKind;
use rustc_hir::def_id::DefId;
use rustc_middle::mir::{
    self, AggregateKind, BinOp, Body, CastKind, Const, ConstValue, Operand, Place, ProjectionElem,
    Rvalue, StatementKind, TerminatorKind,
};
use rustc_middle::ty::print::{with_no_trimmed_paths as wntp, with_no_visible_paths};
macro_rules! with_no_trimmed_paths { ($e:expr) => { with_no_visible_paths!(wntp!($e)) }; }
use rustc_middle::ty::{self, Instance, Ty, TyCtxt, TypingEnv};
use rustc_span::Span;

// ---------------------------------------------------------------- JSON
#[derive(Clone)]
enum J {
    Null,
    B(bool),
    I(i128),
    S(String),
    A(Vec<J>),
    O(Vec<(String, J)>),
}
fn esc(s: &str, out: &mut String) {
    out.push('"');
    for c in s.chars() {
        match c {
            '"' => out.push_str("\\\""),
            '\\' => out.push_str("\\\\"),
            '\n' => out.push_str("\\n"),
            '\r' => out.push_str("\\r"),
            '\t' => out.push_str("\\t"),
            c if (c as u32) < 0x20 => {
                let _ = write!(out, "\\u{:04x}", c as u32);
            }
            c => out.push(c),
        }
    }
    out.push('"');
}
impl J {
    fn write(&self, out: &mut String) {
        match self {
            J::Null => out.push_str("null"),
            J::B(b) => out.push_str(if *b { "true" } else { "false" }),
            J::I(i) => {
                let _ = write!(out, "{i}");
            }
            J::S(s) => esc(s, out),
            J::A(v) => {
                out.push('[');
                for (i, x) in v.iter().enumerate() {
                    if i > 0 {
                        out.push(',');
                    }
                    x.write(out);
                }
                out.push(']');
            }
            J::O(v) => {
                out.push('{');
                for (i, (k, x)) in v.iter().enumerate() {
                    if i > 0 {
                        out.push(',');
                    }
                    esc(k, out);
                    out.push(':');
                    x.write(out);
                }
                out.push('}');
            }
        }
    }
}
macro_rules! obj {
    ($($k:expr => $v:expr),* $(,)?) => { J::O(vec![$(($k.to_string(), $v)),*]) };
}
fn s(x: impl Into<String>) -> J {
    J::S(x.into())
}
fn i(x: impl TryInto<i128>) -> J {
    J::I(x.try_into().ok().unwrap_or(-1))
}

// ---------------------------------------------------------------- context
struct Cx<'tcx> {
    tcx: TyCtxt<'tcx>,
    types: Vec<J>,
    type_ids: HashMap<Ty<'tcx>, usize>,
    foreign: HashMap<DefId, J>,
}

impl<'tcx> Cx<'tcx> {
    fn path(&self, did: DefId) -> String {
        with_no_trimmed_paths!(self.tcx.def_path_str(did))
    }
    fn krate(&self, did: DefId) -> String {
        self.tcx.crate_name(did.krate).to_string()
    }
    fn span(&self, sp: Span) -> J {
        let sm = self.tcx.sess.source_map();
        let lo = sm.lookup_char_pos(sp.lo());
        let name = match &lo.file.name {
            rustc_span::FileName::Real(r) => match r.local_path() {
                Some(p) => p.display().to_string(),
                None => format!("{:?}", lo.file.name),
            },
            other => format!("{other:?}"),
        };
        obj! {"f" => s(name), "l" => i(lo.line), "x" => J::B(sp.from_expansion())}
    }

    fn ty(&mut self, t: Ty<'tcx>) -> J {
        J::I(self.ty_id(t) as i128)
    }

    fn ty_id(&mut self, t: Ty<'tcx>) -> usize {
        if let Some(&id) = self.type_ids.get(&t) {
            return id;
        }
        let id = self.types.len();
        self.types.push(J::Null);
        self.type_ids.insert(t, id);
        let st = with_no_trimmed_paths!(t.to_string());
        let mut fields: Vec<(String, J)> = vec![("s".into(), s(st))];
        match t.kind() {
            ty::Array(e, n) => {
                fields.push(("k".into(), s("array")));
                let e = self.ty(*e);
                fields.push(("elem".into(), e));
                let len = n.try_to_target_usize(self.tcx);
                fields.push(("len".into(), len.map(|l| i(l)).unwrap_or(J::Null)));
                if len.is_none() {
                    fields.push(("len_s".into(), s(with_no_trimmed_paths!(n.to_string()))));
                }
            }
            ty::Slice(e) => {
                fields.push(("k".into(), s("slice")));
                let e = self.ty(*e);
                fields.push(("elem".into(), e));
            }
            ty::Ref(_, inner, m) => {
                fields.push(("k".into(), s("ref")));
                fields.push(("mut".into(), J::B(m.is_mut())));
                let e = self.ty(*inner);
                fields.push(("inner".into(), e));
            }
            ty::RawPtr(inner, m) => {
                fields.push(("k".into(), s("ptr")));
                fields.push(("mut".into(), J::B(m.is_mut())));
                let e = self.ty(*inner);
                fields.push(("inner".into(), e));
            }
            ty::Adt(def, args) => {
                fields.push(("k".into(), s("adt")));
                fields.push(("path".into(), s(self.path(def.did()))));
                fields.push(("crate".into(), s(self.krate(def.did()))));
                let a: Vec<J> = args.iter().map(|a| self.garg(a)).collect();
                fields.push(("args".into(), J::A(a)));
            }
            ty::Tuple(ts) => {
                fields.push(("k".into(), s("tuple")));
                let a: Vec<J> = ts.iter().map(|x| self.ty(x)).collect();
                fields.push(("elems".into(), J::A(a)));
            }
            ty::FnDef(did, args) => {
                fields.push(("k".into(), s("fndef")));
                fields.push(("path".into(), s(self.path(*did))));
                let a: Vec<J> = args.iter().map(|a| self.garg(a)).collect();
                fields.push(("args".into(), J::A(a)));
            }
            ty::Closure(did, _) => {
                fields.push(("k".into(), s("closure")));
                fields.push(("path".into(), s(self.path(*did))));
            }
            ty::Param(p) => {
                fields.push(("k".into(), s("param")));
                fields.push(("name".into(), s(p.name.to_string())));
            }
            ty::Alias(..) => {
                fields.push(("k".into(), s("alias")));
            }
            ty::Bool | ty::Char | ty::Int(_) | ty::Uint(_) | ty::Float(_) | ty::Str | ty::Never => {
                fields.push(("k".into(), s("prim")));
            }
            ty::FnPtr(..) => {
                fields.push(("k".into(), s("fnptr")));
            }
            ty::Dynamic(..) => {
                fields.push(("k".into(), s("dyn")));
            }
            _ => {
                fields.push(("k".into(), s("other")));
            }
        }
        self.types[id] = J::O(fields);
        id
    }

    fn garg(&mut self, a: ty::GenericArg<'tcx>) -> J {
        match a.kind() {
            ty::GenericArgKind::Type(t) => obj! {"t" => self.ty(t)},
            ty::GenericArgKind::Const(c) => {
                let v = c.try_to_target_usize(self.tcx);
                obj! {"c" => v.map(|v| i(v)).unwrap_or(J::Null), "s" => s(with_no_trimmed_paths!(c.to_string()))}
            }
            ty::GenericArgKind::Lifetime(_) => obj! {"r" => J::Null},
        }
    }

    fn gargs(&mut self, args: ty::GenericArgsRef<'tcx>) -> J {
        J::A(args.iter().map(|a| self.garg(a)).collect())
    }

    // ---------- constants
    fn read_bytes(&self, alloc_id: mir::interpret::AllocId, off: u64, len: u64) -> Option<Vec<u8>> {
        let ga = self.tcx.try_get_global_alloc(alloc_id)?;
        match ga {
            mir::interpret::GlobalAlloc::Memory(a) => {
                let a = a.inner();
                let end = off.checked_add(len)?;
                if end > a.size().bytes() {
                    return None;
                }
                let r = (off as usize)..(end as usize);
                Some(a.inspect_with_uninit_and_ptr_outside_interpreter(r).to_vec())
            }
            _ => None,
        }
    }

    /// A `&[&str]` constant stored at (alloc_id, off) as a fat pointer: follow the two levels of relocations and return the strings.
    fn str_list(&self, alloc_id: mir::interpret::AllocId, off: u64) -> Option<Vec<String>> {
        use mir::interpret::GlobalAlloc;
        let GlobalAlloc::Memory(a) = self.tcx.try_get_global_alloc(alloc_id)? else { return None };
        let a = a.inner();
        if off + 16 > a.size().bytes() { return None; }
        let b = a.inspect_with_uninit_and_ptr_outside_interpreter(off as usize..off as usize + 16);
        let inner_off = u64::from_le_bytes(b[0..8].try_into().ok()?);
        let len = u64::from_le_bytes(b[8..16].try_into().ok()?);
        if len > 64 { return None; }
        let prov = a.provenance().ptrs().get(&rustc_abi::Size::from_bytes(off))?;
        let GlobalAlloc::Memory(arr) = self.tcx.try_get_global_alloc(prov.alloc_id())? else { return None };
        let arr = arr.inner();
        let mut out = vec![];
        for i in 0..len {
            let o = inner_off + i * 16;
            if o + 16 > arr.size().bytes() { return None; }
            let e = arr.inspect_with_uninit_and_ptr_outside_interpreter(o as usize..o as usize + 16);
            let so = u64::from_le_bytes(e[0..8].try_into().ok()?);
            let sl = u64::from_le_bytes(e[8..16].try_into().ok()?);
            let sp = arr.provenance().ptrs().get(&rustc_abi::Size::from_bytes(o))?;
            let bytes = self.read_bytes(sp.alloc_id(), so, sl)?;
            out.push(String::from_utf8_lossy(&bytes).into_owned());
        }
        Some(out)
    }

    /// A `&[u8]` / `&str` fat pointer stored at (alloc_id, off): the bytes it points to.
    fn fat_bytes(&self, alloc_id: mir::interpret::AllocId, off: u64) -> Option<Vec<u8>> {
        use mir::interpret::GlobalAlloc;
        let GlobalAlloc::Memory(a) = self.tcx.try_get_global_alloc(alloc_id)? else { return None };
        let a = a.inner();
        if off + 16 > a.size().bytes() { return None; }
        let b = a.inspect_with_uninit_and_ptr_outside_interpreter(off as usize..off as usize + 16);
        let inner_off = u64::from_le_bytes(b[0..8].try_into().ok()?);
        let len = u64::from_le_bytes(b[8..16].try_into().ok()?);
        if len > 4096 { return None; }
        let prov = a.provenance().ptrs().get(&rustc_abi::Size::from_bytes(off))?;
        self.read_bytes(prov.alloc_id(), inner_off, len)
    }

    /// `n` consecutive `&str` fat pointers stored inline at (alloc_id, off).
    fn str_array(&self, alloc_id: mir::interpret::AllocId, off: u64, n: u64) -> Option<Vec<String>> {
        use mir::interpret::GlobalAlloc;
        if n > 64 { return None; }
        let GlobalAlloc::Memory(arr) = self.tcx.try_get_global_alloc(alloc_id)? else { return None };
        let arr = arr.inner();
        let mut out = vec![];
        for i in 0..n {
            let o = off + i * 16;
            if o + 16 > arr.size().bytes() { return None; }
            let e = arr.inspect_with_uninit_and_ptr_outside_interpreter(o as usize..o as usize + 16);
            let so = u64::from_le_bytes(e[0..8].try_into().ok()?);
            let sl = u64::from_le_bytes(e[8..16].try_into().ok()?);
            let sp = arr.provenance().ptrs().get(&rustc_abi::Size::from_bytes(o))?;
            let bytes = self.read_bytes(sp.alloc_id(), so, sl)?;
            out.push(String::from_utf8_lossy(&bytes).into_owned());
        }
        Some(out)
    }

    fn const_value(&mut self, cv: ConstValue, t: Ty<'tcx>, env: TypingEnv<'tcx>) -> J {
        let tcx = self.tcx;
        match cv {
            ConstValue::ZeroSized => obj! {"zst" => J::B(true)},
            ConstValue::Scalar(mir::interpret::Scalar::Int(si)) => {
                let bits = si.to_bits(si.size());
                let signed = matches!(t.kind(), ty::Int(_));
                let v: i128 = if signed {
                    let sz = si.size().bits();
                    let sh = 128 - sz as u32;
                    ((bits << sh) as i128) >> sh
                } else {
                    bits as i128
                };
                obj! {"int" => J::I(v), "bits" => i(si.size().bits())}
            }
            ConstValue::Scalar(mir::interpret::Scalar::Ptr(p, _)) => {
                // &[u8; N], &T ...: read pointee bytes when the pointee is sized and known.
                let (prov, off) = p.into_raw_parts();
                let aid = prov.alloc_id();
                if let ty::Ref(_, inner, _) = t.kind() {
                    if let Ok(l) = tcx.layout_of(env.as_query_input(*inner)) {
                        if l.is_sized() {
                            if let Some(b) = self.read_bytes(aid, off.bytes(), l.size.bytes()) {
                                return obj! {"bytes" => J::A(b.iter().map(|x| i(*x)).collect())};
                            }
                        }
                    }
                }
                match tcx.try_get_global_alloc(aid) {
                    Some(mir::interpret::GlobalAlloc::Static(d)) => obj! {"static" => s(self.path(d))},
                    Some(mir::interpret::GlobalAlloc::Function { instance }) => {
                        obj! {"fn" => s(self.path(instance.def_id()))}
                    }
                    _ => obj! {"ptr" => J::B(true)},
                }
            }
            ConstValue::Slice { alloc_id, meta } => {
                let elem_size = match t.kind() {
                    ty::Ref(_, inner, _) => match inner.kind() {
                        ty::Str => 1,
                        ty::Slice(e) => tcx
                            .layout_of(env.as_query_input(*e))
                            .map(|l| l.size.bytes())
                            .unwrap_or(0),
                        _ => 0,
                    },
                    _ => 0,
                };
                if elem_size == 1 {
                    if let Some(b) = self.read_bytes(alloc_id, 0, meta) {
                        return obj! {"bytes" => J::A(b.iter().map(|x| i(*x)).collect())};
                    }
                }
                obj! {"slice_len" => i(meta), "elem_size" => i(elem_size)}
            }
            ConstValue::Indirect { alloc_id, offset } => {
                if let ty::Array(e, n) = t.kind() {
                    if let ty::Ref(_, ee, _) = e.kind() {
                        if matches!(ee.kind(), ty::Str) {
                            if let Some(n) = n.try_to_target_usize(tcx) {
                                if let Some(v) = self.str_array(alloc_id, offset.bytes(), n) {
                                    return obj! {"strs" => J::A(v.into_iter().map(s).collect()), "indirect" => J::B(true)};
                                }
                            }
                        }
                    }
                }
                if let ty::Ref(_, inner, _) = t.kind() {
                    // a named `const X: &[u8] = b"..";` / `&str`: the value is a fat pointer in memory, report the pointee bytes
                    let is_bytes = match inner.kind() {
                        ty::Str => true,
                        ty::Slice(e) => matches!(e.kind(), ty::Uint(ty::UintTy::U8)),
                        _ => false,
                    };
                    if is_bytes {
                        if let Some(b) = self.fat_bytes(alloc_id, offset.bytes()) {
                            return obj! {"bytes" => J::A(b.iter().map(|x| i(*x)).collect()), "indirect" => J::B(true)};
                        }
                    }
                }
                if let ty::Ref(_, inner, _) = t.kind() {
                    if let ty::Slice(e) = inner.kind() {
                        if let ty::Ref(_, ee, _) = e.kind() {
                            if matches!(ee.kind(), ty::Str) {
                                if let Some(v) = self.str_list(alloc_id, offset.bytes()) {
                                    return obj! {"strs" => J::A(v.into_iter().map(s).collect()), "indirect" => J::B(true)};
                                }
                            }
                        }
                    }
                }
                if let Ok(l) = tcx.layout_of(env.as_query_input(t)) {
                    if l.is_sized() {
                        if let Some(b) = self.read_bytes(alloc_id, offset.bytes(), l.size.bytes()) {
                            return obj! {"bytes" => J::A(b.iter().map(|x| i(*x)).collect()), "indirect" => J::B(true)};
                        }
                    }
                }
                obj! {"indirect" => J::B(true)}
            }
        }
    }

    fn constant(&mut self, c: &Const<'tcx>, env: TypingEnv<'tcx>, sp: Span) -> J {
        let tcx = self.tcx;
        let t = c.ty();
        let mut fields: Vec<(String, J)> = vec![("ty".into(), self.ty(t))];
        if let ty::FnDef(did, args) = t.kind() {
            fields.push(("fndef".into(), s(self.path(*did))));
            fields.push(("fnargs".into(), self.gargs(args)));
            return J::O(fields);
        }
        if let Const::Unevaluated(u, _) = c {
            fields.push(("uneval".into(), s(self.path(u.def))));
            fields.push(("uneval_args".into(), self.gargs(u.args)));
            if let Some(p) = u.promoted {
                fields.push(("promoted".into(), i(p.as_usize())));
            }
        }
        match c.eval(tcx, env, sp) {
            Ok(cv) => fields.push(("val".into(), self.const_value(cv, t, env))),
            Err(_) => fields.push(("val".into(), J::Null)),
        }
        J::O(fields)
    }

    // ---------- MIR
    fn place(&mut self, p: &Place<'tcx>, body: &Body<'tcx>) -> J {
        let tcx = self.tcx;
        let mut proj = vec![];
        for e in p.projection.iter() {
            proj.push(match e {
                ProjectionElem::Deref => s("*"),
                ProjectionElem::Field(f, t) => obj! {"f" => i(f.as_usize()), "ty" => self.ty(t)},
                ProjectionElem::Index(l) => obj! {"idx" => i(l.as_usize())},
                ProjectionElem::ConstantIndex { offset, min_length, from_end } => {
                    obj! {"cidx" => i(offset), "min" => i(min_length), "end" => J::B(from_end)}
                }
                ProjectionElem::Subslice { from, to, from_end } => {
                    obj! {"sub" => J::A(vec![i(from), i(to)]), "end" => J::B(from_end)}
                }
                ProjectionElem::Downcast(name, v) => {
                    obj! {"variant" => i(v.as_usize()), "name" => name.map(|n| s(n.to_string())).unwrap_or(J::Null)}
                }
                ProjectionElem::OpaqueCast(_) => s("opaque"),
                ProjectionElem::UnwrapUnsafeBinder(_) => s("unwrap_binder"),
            });
        }
        let pt = p.ty(&body.local_decls, tcx).ty;
        obj! {"l" => i(p.local.as_usize()), "p" => J::A(proj), "ty" => self.ty(pt)}
    }

    fn operand(&mut self, o: &Operand<'tcx>, body: &Body<'tcx>, env: TypingEnv<'tcx>) -> J {
        match o {
            Operand::Copy(p) => obj! {"copy" => self.place(p, body)},
            Operand::Move(p) => obj! {"move" => self.place(p, body)},
            Operand::Constant(c) => obj! {"const" => self.constant(&c.const_, env, c.span)},
            #[allow(unreachable_patterns)]
            _ => obj! {"other_operand" => s(format!("{o:?}"))},
        }
    }

    fn rvalue(&mut self, rv: &Rvalue<'tcx>, body: &Body<'tcx>, env: TypingEnv<'tcx>) -> J {
        match rv {
            Rvalue::Use(o, _) => obj! {"k" => s("use"), "op" => self.operand(o, body, env)},
            Rvalue::Repeat(o, n) => {
                let len = n.try_to_target_usize(self.tcx);
                obj! {"k" => s("repeat"), "op" => self.operand(o, body, env),
                "n" => len.map(|l| i(l)).unwrap_or(J::Null), "n_s" => s(with_no_trimmed_paths!(n.to_string()))}
            }
            Rvalue::Ref(_, bk, p) => {
                obj! {"k" => s("ref"), "mut" => J::B(matches!(bk, mir::BorrowKind::Mut{..})), "place" => self.place(p, body)}
            }
            Rvalue::RawPtr(k, p) => {
                obj! {"k" => s("rawptr"), "kind" => s(format!("{k:?}")), "place" => self.place(p, body)}
            }
            Rvalue::Cast(ck, o, t) => {
                let cks = match ck {
                    CastKind::PointerCoercion(pc, _) => format!("ptrcoerce:{pc:?}"),
                    other => format!("{other:?}"),
                };
                obj! {"k" => s("cast"), "ck" => s(cks), "op" => self.operand(o, body, env), "to" => self.ty(*t)}
            }
            Rvalue::BinaryOp(op, ab) => {
                let (a, b) = &**ab;
                obj! {"k" => s("binop"), "op" => s(binop_name(*op)), "a" => self.operand(a, body, env), "b" => self.operand(b, body, env)}
            }
            Rvalue::UnaryOp(op, a) => {
                obj! {"k" => s("unop"), "op" => s(format!("{op:?}")), "a" => self.operand(a, body, env)}
            }
            Rvalue::Discriminant(p) => obj! {"k" => s("discr"), "place" => self.place(p, body)},
            Rvalue::Aggregate(ak, ops) => {
                let akj = match &**ak {
                    AggregateKind::Array(t) => obj! {"a" => s("array"), "elem" => self.ty(*t)},
                    AggregateKind::Tuple => obj! {"a" => s("tuple")},
                    AggregateKind::Adt(did, v, args, _, f) => {
                        let def = self.tcx.adt_def(*did);
                        let vname = def.variant(*v).name.to_string();
                        obj! {"a" => s("adt"), "path" => s(self.path(*did)), "variant" => i(v.as_usize()), "vname" => s(vname),
                        "args" => self.gargs(args), "union_field" => f.map(|f| i(f.as_usize())).unwrap_or(J::Null)}
                    }
                    AggregateKind::Closure(did, _) => obj! {"a" => s("closure"), "path" => s(self.path(*did))},
                    other => obj! {"a" => s(format!("{other:?}"))},
                };
                let o: Vec<J> = ops.iter().map(|o| self.operand(o, body, env)).collect();
                obj! {"k" => s("agg"), "ak" => akj, "ops" => J::A(o)}
            }
            Rvalue::CopyForDeref(p) => obj! {"k" => s("copyforderef"), "place" => self.place(p, body)},
            Rvalue::ThreadLocalRef(d) => obj! {"k" => s("tlsref"), "path" => s(self.path(*d))},
            other => obj! {"k" => s("other"), "dbg" => s(format!("{other:?}"))},
        }
    }

    fn callee(&mut self, func: &Operand<'tcx>, body: &Body<'tcx>, env: TypingEnv<'tcx>) -> J {
        let tcx = self.tcx;
        let fty = func.ty(&body.local_decls, tcx);
        match fty.kind() {
            ty::FnDef(did, args) => {
                let mut f: Vec<(String, J)> = vec![
                    ("path".into(), s(self.path(*did))),
                    ("crate".into(), s(self.krate(*did))),
                    ("args".into(), self.gargs(args)),
                    ("full".into(), s(with_no_trimmed_paths!(tcx.def_path_str_with_args(*did, args)))),
                ];
                if let Some(tr) = tcx.trait_of_assoc(*did) {
                    f.push(("trait".into(), s(self.path(tr))));
                }
                if let Some(im) = tcx.impl_of_assoc(*did) {
                    let self_ty = tcx.type_of(im).instantiate_identity().skip_norm_wip();
                    f.push(("impl_self".into(), s(with_no_trimmed_paths!(self_ty.to_string()))));
                }
                if tcx.is_foreign_item(*did) {
                    f.push(("foreign".into(), J::B(true)));
                    if !self.foreign.contains_key(did) {
                        let sig = tcx.fn_sig(*did).instantiate_identity().skip_norm_wip().skip_binder();
                        let ins: Vec<J> = sig.inputs().iter().map(|t| s(with_no_trimmed_paths!(t.to_string()))).collect();
                        let j = obj! {"path" => s(self.path(*did)), "inputs" => J::A(ins),
                            "output" => s(with_no_trimmed_paths!(sig.output().to_string()))};
                        self.foreign.insert(*did, j);
                    }
                }
                match Instance::try_resolve(tcx, env, *did, args) {
                    Ok(Some(inst)) => {
                        let rd = inst.def_id();
                        f.push(("r_path".into(), s(self.path(rd))));
                        f.push(("r_crate".into(), s(self.krate(rd))));
                        f.push(("r_full".into(), s(with_no_trimmed_paths!(tcx.def_path_str_with_args(rd, inst.args)))));
                        f.push(("r_args".into(), self.gargs(inst.args)));
                        f.push(("r_kind".into(), s(match inst.def {
                            ty::InstanceKind::Item(_) => "item",
                            ty::InstanceKind::Virtual(..) => "virtual",
                            ty::InstanceKind::Intrinsic(_) => "intrinsic",
                            ty::InstanceKind::ClosureOnceShim { .. } => "closure_once_shim",
                            ty::InstanceKind::FnPtrShim(..) => "fnptr_shim",
                            ty::InstanceKind::DropGlue(..) => "drop_glue",
                            ty::InstanceKind::CloneShim(..) => "clone_shim",
                            _ => "other",
                        })));
                        if let Some(im) = tcx.impl_of_assoc(rd) {
                            let self_ty = tcx.type_of(im).instantiate_identity().skip_norm_wip();
                            f.push(("r_impl_self".into(), s(with_no_trimmed_paths!(self_ty.to_string()))));
                        }
                    }
                    _ => f.push(("r_path".into(), J::Null)),
                }
                J::O(f)
            }
            _ => obj! {"indirect" => self.operand(func, body, env), "fty" => self.ty(fty)},
        }
    }

    fn body(&mut self, body: &Body<'tcx>, env: TypingEnv<'tcx>) -> J {
        let tcx = self.tcx;
        let mut locals = vec![];
        let mut names: HashMap<usize, String> = HashMap::new();
        for vdi in &body.var_debug_info {
            if let mir::VarDebugInfoContents::Place(p) = &vdi.value {
                if p.projection.is_empty() {
                    names.entry(p.local.as_usize()).or_insert(vdi.name.to_string());
                }
            }
        }
        for (l, d) in body.local_decls.iter_enumerated() {
            let li = l.as_usize();
            let mut f: Vec<(String, J)> = vec![("ty".into(), self.ty(d.ty))];
            if let Some(n) = names.get(&li) {
                f.push(("name".into(), s(n.clone())));
            }
            if li >= 1 && li <= body.arg_count {
                f.push(("arg".into(), i(li)));
            }
            f.push(("mut".into(), J::B(d.mutability.is_mut())));
            locals.push(J::O(f));
        }
        let mut blocks = vec![];
        for (_bb, data) in body.basic_blocks.iter_enumerated() {
            let mut stmts = vec![];
            for st in &data.statements {
                match &st.kind {
                    StatementKind::Assign(b) => {
                        let (p, rv) = &**b;
                        stmts.push(obj! {"k" => s("assign"), "place" => self.place(p, body), "rv" => self.rvalue(rv, body, env), "sp" => self.span(st.source_info.span)});
                    }
                    StatementKind::SetDiscriminant { place, variant_index } => {
                        stmts.push(obj! {"k" => s("setdiscr"), "place" => self.place(place, body), "variant" => i(variant_index.as_usize())});
                    }
                    StatementKind::Intrinsic(b) => {
                        stmts.push(obj! {"k" => s("intrinsic"), "dbg" => s(format!("{b:?}")), "sp" => self.span(st.source_info.span)});
                    }
                    StatementKind::StorageLive(_)
                    | StatementKind::StorageDead(_)
                    | StatementKind::Nop
                    | StatementKind::FakeRead(..)
                    | StatementKind::PlaceMention(..)
                    | StatementKind::AscribeUserType(..)
                    | StatementKind::Coverage(..)
                    | StatementKind::ConstEvalCounter
                    | StatementKind::BackwardIncompatibleDropHint { .. } => {}
                    #[allow(unreachable_patterns)]
                    other => {
                        stmts.push(obj! {"k" => s("other"), "dbg" => s(format!("{other:?}"))});
                    }
                }
            }
            let term = data.terminator();
            let sp = self.span(term.source_info.span);
            let tj = match &term.kind {
                TerminatorKind::Goto { target } => obj! {"k" => s("goto"), "t" => i(target.as_usize())},
                TerminatorKind::SwitchInt { discr, targets } => {
                    let mut arms = vec![];
                    for (v, t) in targets.iter() {
                        arms.push(J::A(vec![J::I(v as i128), i(t.as_usize())]));
                    }
                    obj! {"k" => s("switch"), "discr" => self.operand(discr, body, env), "arms" => J::A(arms), "otherwise" => i(targets.otherwise().as_usize())}
                }
                TerminatorKind::Return => obj! {"k" => s("return")},
                TerminatorKind::Unreachable => obj! {"k" => s("unreachable")},
                TerminatorKind::UnwindResume => obj! {"k" => s("resume")},
                TerminatorKind::UnwindTerminate(_) => obj! {"k" => s("terminate")},
                TerminatorKind::Drop { place, target, .. } => {
                    obj! {"k" => s("drop"), "place" => self.place(place, body), "t" => i(target.as_usize())}
                }
                TerminatorKind::Call { func, args, destination, target, .. } => {
                    let a: Vec<J> = args.iter().map(|a| self.operand(&a.node, body, env)).collect();
                    obj! {"k" => s("call"), "callee" => self.callee(func, body, env), "args" => J::A(a),
                        "dest" => self.place(destination, body),
                        "t" => target.map(|t| i(t.as_usize())).unwrap_or(J::Null)}
                }
                TerminatorKind::TailCall { func, args, .. } => {
                    let a: Vec<J> = args.iter().map(|a| self.operand(&a.node, body, env)).collect();
                    obj! {"k" => s("tailcall"), "callee" => self.callee(func, body, env), "args" => J::A(a)}
                }
                TerminatorKind::Assert { cond, expected, msg, target, .. } => {
                    let kind = format!("{msg:?}");
                    let kind = kind.split('(').next().unwrap_or("").to_string();
                    obj! {"k" => s("assert"), "cond" => self.operand(cond, body, env), "expected" => J::B(*expected),
                        "msg" => s(kind), "t" => i(target.as_usize())}
                }
                other => obj! {"k" => s("other"), "dbg" => s(format!("{other:?}"))},
            };
            blocks.push(obj! {"cleanup" => J::B(data.is_cleanup), "stmts" => J::A(stmts), "term" => tj, "sp" => sp});
        }
        obj! {"argc" => i(body.arg_count), "locals" => J::A(locals), "blocks" => J::A(blocks)}
    }

    fn function(&mut self, did: DefId) -> J {
        let tcx = self.tcx;
        let kind = tcx.def_kind(did);
        let env = TypingEnv::post_analysis(tcx, did);
        let body = tcx.optimized_mir(did);
        let mut f: Vec<(String, J)> = vec![
            ("path".into(), s(self.path(did))),
            ("kind".into(), s(format!("{kind:?}"))),
            ("span".into(), self.span(tcx.def_span(did))),
        ];
        if matches!(kind, DefKind::Fn | DefKind::AssocFn) {
            f.push(("vis".into(), s(format!("{:?}", tcx.visibility(did)))));
            if let Some(ld) = did.as_local() {
                f.push(("reach".into(), J::B(tcx.effective_visibilities(()).is_reachable(ld))));
            }
            let sig = tcx.fn_sig(did).instantiate_identity().skip_norm_wip().skip_binder();
            f.push(("unsafe".into(), J::B(!sig.safety().is_safe())));
            let ins: Vec<J> = sig.inputs().iter().map(|t| self.ty(*t)).collect();
            f.push(("inputs".into(), J::A(ins)));
            f.push(("output".into(), self.ty(sig.output())));
            let g = tcx.generics_of(did);
            let gp: Vec<J> = (0..g.count()).map(|ix| s(g.param_at(ix, tcx).name.to_string())).collect();
            f.push(("generics".into(), J::A(gp)));
        }
        if kind == DefKind::AssocFn {
            if let Some(im) = tcx.impl_of_assoc(did) {
                f.push(("impl".into(), s(self.path(im))));
                let self_ty = tcx.type_of(im).instantiate_identity().skip_norm_wip();
                f.push(("impl_self".into(), self.ty(self_ty)));
                if let Some(tr) = tcx.impl_opt_trait_ref(im) {
                    let tr = tr.instantiate_identity().skip_norm_wip();
                    f.push(("impl_trait".into(), s(self.path(tr.def_id))));
                    f.push(("impl_trait_full".into(), s(with_no_trimmed_paths!(tr.to_string()))));
                    f.push(("impl_trait_args".into(), self.gargs(tr.args)));
                }
            }
            if let Some(tr) = tcx.trait_of_assoc(did) {
                f.push(("trait_default_of".into(), s(self.path(tr))));
            }
            f.push(("name".into(), s(tcx.item_name(did).to_string())));
        }
        if kind == DefKind::Closure {
            f.push(("parent".into(), s(self.path(tcx.typeck_root_def_id(did)))));
        }
        // inline attrs
        let attrs = tcx.codegen_fn_attrs(did);
        f.push(("inline".into(), s(format!("{:?}", attrs.inline))));
        f.push(("body".into(), self.body(body, env)));
        // promoted bodies
        let proms = tcx.promoted_mir(did);
        let mut pj = vec![];
        for p in proms.iter() {
            pj.push(self.body(p, env));
        }
        f.push(("promoted".into(), J::A(pj)));
        J::O(f)
    }

    fn assoc_const_value(&mut self, did: DefId) -> J {
        let tcx = self.tcx;
        let env = TypingEnv::post_analysis(tcx, did);
        let t = tcx.type_of(did).instantiate_identity().skip_norm_wip();
        let g = tcx.generics_of(did);
        if g.count() != 0 && g.requires_monomorphization(tcx) {
            // evaluate anyway; may be too generic
        }
        match tcx.const_eval_poly(did) {
            Ok(cv) => self.const_value(cv, t, env),
            Err(_) => J::Null,
        }
    }

    fn impls_and_items(&mut self) -> (J, J, J, J) {
        let tcx = self.tcx;
        let mut impls = vec![];
        let mut adts = vec![];
        let mut statics = vec![];
        let mut traits = vec![];
        let items = tcx.hir_crate_items(());
        for id in items.definitions() {
            let did = id.to_def_id();
            match tcx.def_kind(did) {
                DefKind::Impl { of_trait } => {
                    let self_ty = tcx.type_of(did).instantiate_identity().skip_norm_wip();
                    let mut f: Vec<(String, J)> = vec![
                        ("path".into(), s(self.path(did))),
                        ("span".into(), self.span(tcx.def_span(did))),
                        ("self".into(), self.ty(self_ty)),
                        ("of_trait".into(), J::B(of_trait)),
                    ];
                    if of_trait {
                        let hdr = tcx.impl_trait_header(did);
                        let tr = hdr.trait_ref.instantiate_identity().skip_norm_wip();
                        f.push(("trait".into(), s(self.path(tr.def_id))));
                        f.push(("trait_crate".into(), s(self.krate(tr.def_id))));
                        f.push(("trait_full".into(), s(with_no_trimmed_paths!(tr.to_string()))));
                        f.push(("trait_args".into(), self.gargs(tr.args)));
                        f.push(("polarity".into(), s(format!("{:?}", hdr.polarity))));
                        f.push(("unsafe".into(), J::B(!hdr.safety.is_safe())));
                    }
                    let g = tcx.generics_of(did);
                    let gp: Vec<J> = (0..g.count()).map(|ix| s(g.param_at(ix, tcx).name.to_string())).collect();
                    f.push(("generics".into(), J::A(gp)));
                    let preds = tcx.predicates_of(did).instantiate_identity(tcx);
                    let ps: Vec<J> = preds.predicates.iter().map(|p| s(with_no_trimmed_paths!(p.clone().skip_norm_wip().to_string()))).collect();
                    f.push(("predicates".into(), J::A(ps)));
                    let mut its = vec![];
                    for &it in tcx.associated_item_def_ids(did) {
                        let ai = tcx.associated_item(it);
                        let mut e: Vec<(String, J)> = vec![
                            ("name".into(), s(ai.opt_name().map(|n| n.to_string()).unwrap_or_else(|| "<anon>".into()))),
                            ("kind".into(), s(format!("{:?}", tcx.def_kind(it)))),
                            ("path".into(), s(self.path(it))),
                        ];
                        if matches!(tcx.def_kind(it), DefKind::AssocFn) {
                            e.push(("vis".into(), s(format!("{:?}", tcx.visibility(it)))));
                        }
                        if matches!(tcx.def_kind(it), DefKind::AssocConst { .. }) {
                            e.push(("value".into(), self.assoc_const_value(it)));
                        }
                        if tcx.def_kind(it) == DefKind::AssocTy {
                            let t = tcx.type_of(it).instantiate_identity().skip_norm_wip();
                            e.push(("ty".into(), self.ty(t)));
                        }
                        its.push(J::O(e));
                    }
                    f.push(("items".into(), J::A(its)));
                    impls.push(J::O(f));
                }
                DefKind::Struct | DefKind::Enum | DefKind::Union => {
                    let def = tcx.adt_def(did);
                    let env = TypingEnv::post_analysis(tcx, did);
                    let self_ty = tcx.type_of(did).instantiate_identity().skip_norm_wip();
                    let mut f: Vec<(String, J)> = vec![
                        ("path".into(), s(self.path(did))),
                        ("span".into(), self.span(tcx.def_span(did))),
                        ("kind".into(), s(format!("{:?}", tcx.def_kind(did)))),
                        ("vis".into(), s(format!("{:?}", tcx.visibility(did)))),
                        ("repr".into(), s(format!("{:?}", def.repr()))),
                        ("ty".into(), self.ty(self_ty)),
                    ];
                    let mut vs = vec![];
                    for v in def.variants() {
                        let mut fs = vec![];
                        for fd in &v.fields {
                            let ft = tcx.type_of(fd.did).instantiate_identity().skip_norm_wip();
                            fs.push(obj! {"name" => s(fd.name.to_string()), "ty" => self.ty(ft),
                                "vis" => s(format!("{:?}", fd.vis))});
                        }
                        vs.push(obj! {"name" => s(v.name.to_string()), "fields" => J::A(fs)});
                    }
                    f.push(("variants".into(), J::A(vs)));
                    let g = tcx.generics_of(did);
                    if g.count() == 0 {
                        if let Ok(l) = tcx.layout_of(env.as_query_input(self_ty)) {
                            f.push(("size".into(), i(l.size.bytes())));
                            f.push(("align".into(), i(l.align.abi.bytes())));
                            if let rustc_abi::FieldsShape::Arbitrary { offsets, .. } = &l.fields {
                                let o: Vec<J> = offsets.iter().map(|o| i(o.bytes())).collect();
                                f.push(("offsets".into(), J::A(o)));
                            }
                        }
                        f.push(("freeze".into(), J::B(self_ty.is_freeze(tcx, env))));
                        f.push(("needs_drop".into(), J::B(self_ty.needs_drop(tcx, env))));
                    }
                    adts.push(J::O(f));
                }
                DefKind::Static { mutability, .. } => {
                    let t = tcx.type_of(did).instantiate_identity().skip_norm_wip();
                    let env = TypingEnv::post_analysis(tcx, did);
                    statics.push(obj! {"path" => s(self.path(did)), "span" => self.span(tcx.def_span(did)),
                        "mut" => J::B(mutability.is_mut()), "ty" => self.ty(t),
                        "freeze" => J::B(t.is_freeze(tcx, env)),
                        "thread_local" => J::B(tcx.is_thread_local_static(did))});
                }
                DefKind::Trait => {
                    let mut its = vec![];
                    for &it in tcx.associated_item_def_ids(did) {
                        let ai = tcx.associated_item(it);
                        let mut e: Vec<(String, J)> = vec![
                            ("name".into(), s(ai.opt_name().map(|n| n.to_string()).unwrap_or_else(|| "<anon>".into()))),
                            ("kind".into(), s(format!("{:?}", tcx.def_kind(it)))),
                            ("has_default".into(), J::B(tcx.defaultness(it).has_value())),
                        ];
                        if matches!(tcx.def_kind(it), DefKind::AssocConst { .. }) && tcx.defaultness(it).has_value() {
                            e.push(("value".into(), self.assoc_const_value(it)));
                        }
                        its.push(J::O(e));
                    }
                    let preds = tcx.explicit_super_predicates_of(did);
                    let ps: Vec<J> = preds.iter_identity_copied().map(|u| { let (p, _) = u.skip_norm_wip(); s(with_no_trimmed_paths!(p.to_string())) }).collect();
                    traits.push(obj! {"path" => s(self.path(did)), "vis" => s(format!("{:?}", tcx.visibility(did))),
                        "items" => J::A(its), "supers" => J::A(ps), "span" => self.span(tcx.def_span(did))});
                }
                _ => {}
            }
        }
        (J::A(impls), J::A(adts), J::A(statics), J::A(traits))
    }
}

fn binop_name(op: BinOp) -> String {
    format!("{op:?}")
}

struct Cb;
impl rustc_driver::Callbacks for Cb {
    fn after_analysis<'tcx>(&mut self, _c: &rustc_interface::interface::Compiler, tcx: TyCtxt<'tcx>) -> Compilation {
        let dir = match std::env::var("VERIF_FACTS_DIR") {
            Ok(d) => d,
            Err(_) => return Compilation::Continue,
        };
        let krate = tcx.crate_name(rustc_span::def_id::LOCAL_CRATE).to_string();
        let nonce = std::env::var("VERIF_FACTS_NONCE").unwrap_or_default();
        let mut cx = Cx { tcx, types: vec![], type_ids: HashMap::new(), foreign: HashMap::new() };
        let mut fns = vec![];
        let mut other_bodies = vec![];
        for ldid in tcx.hir_body_owners() {
            let did = ldid.to_def_id();
            match tcx.def_kind(did) {
                DefKind::Fn | DefKind::AssocFn | DefKind::Closure => {
                    fns.push(cx.function(did));
                }
                k => other_bodies.push(obj! {"path" => s(cx.path(did)), "kind" => s(format!("{k:?}"))}),
            }
        }
        let (impls, adts, statics, traits) = cx.impls_and_items();
        let foreign: Vec<J> = cx.foreign.values().cloned().collect();
        let features: Vec<J> = tcx
            .sess
            .config
            .iter()
            .filter(|(k, _)| k.as_str() == "feature")
            .map(|(_, v)| s(v.map(|v| v.to_string()).unwrap_or_default()))
            .collect();
        let out = obj! {
            "crate" => s(krate.clone()),
            "nonce" => s(nonce),
            "cfg" => J::A(features),
            "fns" => J::A(fns),
            "other_bodies" => J::A(other_bodies),
            "impls" => impls,
            "adts" => adts,
            "statics" => statics,
            "traits" => traits,
            "foreign" => J::A(foreign),
            "types" => J::A(std::mem::take(&mut cx.types)),
        };
        let mut text = String::new();
        out.write(&mut text);
        let kind = if tcx.sess.opts.test { "test" } else { "lib" };
        let path = format!("{dir}/{krate}.{kind}.json");
        let tmp = format!("{path}.tmp{}", std::process::id());
        std::fs::write(&tmp, text).expect("write facts");
        std::fs::rename(&tmp, &path).expect("rename facts");
        Compilation::Continue
    }
}

fn main() {
    let mut args: Vec<String> = std::env::args().collect();
    args.remove(0); // wrapper path; args[0] is now the real rustc path
    rustc_driver::run_compiler(&args[..], &mut Cb);
}
