use paseto_core::validation::NoValidation;
use paseto_json::Json;
use std::panic::catch_unwind;

fn main() {
    let which = std::env::args().nth(1).unwrap_or_default();
    match which.as_str() {
        "d1" => {
            // v2 encrypt -> decrypt with library nonce
            let k = paseto_v2::LocalKey::random().unwrap();
            let t = paseto_v2::UnencryptedToken::new(Json(serde_json::json!({"a":1}))).encrypt(&k).unwrap();
            let s = t.to_string();
            let t2: paseto_v2::EncryptedToken<Json<serde_json::Value>> = s.parse().unwrap();
            let r = t2.decrypt(&k, &NoValidation::dangerous_no_validation());
            println!("d1 v2 roundtrip: {:?}", r.map(|t| t.claims.0).map_err(|e| e.to_string()));
        }
        "d2" => {
            let k = paseto_v3_aws_lc::SecretKey::random().unwrap();
            let mut fails = 0;
            let n = 3000;
            for _ in 0..n {
                let r = paseto_v3_aws_lc::UnsignedToken::new(Json(serde_json::json!({"a":1}))).sign(&k);
                if r.is_err() { fails += 1; }
            }
            println!("d2 aws-lc sign failures: {fails}/{n}");
        }
        "d5" => {
            let pk: Result<paseto_v3_aws_lc::PublicKey, _> = "k3.public.AA".parse();
            println!("d5 parse k3.public.AA (aws-lc): ok={}", pk.is_ok());
            if let Ok(pk) = pk {
                let r = catch_unwind(std::panic::AssertUnwindSafe(|| pk.to_string()));
                println!("d5 display: {:?}", r.map_err(|_| "PANIC"));
            }
            let pk3: Result<paseto_v3::PublicKey, _> = "k3.public.AA".parse();
            println!("d5 parse k3.public.AA (rustcrypto): ok={}", pk3.is_ok());
        }
        "d6" => {
            paseto_v4_sodium::ensure_init().unwrap();
            let a = paseto_v4::SecretKey::random().unwrap();
            let b = paseto_v4::SecretKey::random().unwrap();
            let ab = a.expose_key(); let bb = b.expose_key();
            let mut mixed = ab.as_raw_bytes()[..32].to_vec();
            mixed.extend_from_slice(&bb.as_raw_bytes()[32..]);
            let kt4 = paseto_v4::KeyText::<paseto_core::version::Secret>::from_raw_bytes(&mixed);
            let r4: Result<paseto_v4::SecretKey, _> = kt4.try_into();
            println!("d6 v4 accepts mixed secret key: {}", r4.is_ok());
            let kts = paseto_v4_sodium::KeyText::<paseto_core::version::Secret>::from_raw_bytes(&mixed);
            let rs: Result<paseto_v4_sodium::SecretKey, _> = kts.try_into();
            println!("d6 sodium accepts mixed secret key: {}", rs.is_ok());
            if let Ok(sk) = rs {
                let pk = sk.public_key();
                let t = paseto_v4_sodium::UnsignedToken::new(Json(serde_json::json!({"a":1}))).sign(&sk).unwrap();
                let s = t.to_string();
                let t2: paseto_v4_sodium::SignedToken<Json<serde_json::Value>> = s.parse().unwrap();
                println!("d6 sodium verify with own public_key: ok={}", t2.verify(&pk, &NoValidation::dangerous_no_validation()).is_ok());
            }
            // off-curve public key for sodium
            let off = [2u8; 32];
            let kp = paseto_v4_sodium::KeyText::<paseto_core::version::Public>::from_raw_bytes(&off);
            let rp: Result<paseto_v4_sodium::PublicKey, _> = kp.try_into();
            let kp4 = paseto_v4::KeyText::<paseto_core::version::Public>::from_raw_bytes(&off);
            let rp4: Result<paseto_v4::PublicKey, _> = kp4.try_into();
            println!("d7 pubkey [2;32]: sodium ok={} dalek ok={}", rp.is_ok(), rp4.is_ok());
        }
        "d3" => {
            use paseto_core::version::{PkePublic, PkeSecret};
            let pk_pem = std::fs::read("pk.pem").unwrap();
            let sk_pem = std::fs::read("sk.pem").unwrap();
            let pk: paseto_core::key::Key<paseto_v1::core::V1, PkePublic> =
                paseto_v1::KeyText::<PkePublic>::from_raw_bytes(&pk_pem).try_into().unwrap();
            let sk: paseto_core::key::Key<paseto_v1::core::V1, PkeSecret> =
                paseto_v1::KeyText::<PkeSecret>::from_raw_bytes(&sk_pem).try_into().unwrap();
            let n = 2000; let mut short = 0; let mut unseal_fail = 0;
            for _ in 0..n {
                let k = paseto_v1::LocalKey::from([7u8; 32]);
                let sealed = k.seal(&pk).unwrap();
                let txt = sealed.to_string();
                let blob_len = (txt.len() - "k1.seal.".len()) * 3 / 4;
                if blob_len != 592 { short += 1;
                    let parsed: paseto_v1::SealedKey = txt.parse().unwrap();
                    if parsed.unseal(&sk).is_err() { unseal_fail += 1; }
                }
            }
            println!("d3 v1 seal: {short}/{n} blobs not 592 bytes; of those {unseal_fail} fail to unseal");
        }
        "d4" => {
            // A spec-conforming k3.local-pw blob whose 16-byte CTR nonce ends in ff*8: the second AES block needs a carry
            // out of the low 64 counter bits. Built here from primitives (PBKDF2-HMAC-SHA384, SHA-384, HMAC-SHA384,
            // AES-256-CTR with the full 128-bit counter), then unwrapped by both v3 backends.
            use cipher::{KeyIvInit, StreamCipher};
            use digest::Digest;
            use hmac::Mac;
            let pass = b"correct horse";
            let key = [0x42u8; 32];
            let salt = [7u8; 32];
            let iters: u32 = 1000;
            let mut nonce = [0u8; 16];
            for b in &mut nonce[8..] { *b = 0xff; }
            let k = pbkdf2::pbkdf2_array::<hmac::Hmac<sha2::Sha384>, 32>(pass, &salt, iters).unwrap();
            let mut h = sha2::Sha384::new(); h.update([0xFFu8]); h.update(k); let ek = h.finalize();
            let mut h = sha2::Sha384::new(); h.update([0xFEu8]); h.update(k); let ak = h.finalize();
            let mut edk = key;
            ctr::Ctr128BE::<aes::Aes256>::new((&ek[..32]).into(), (&nonce).into()).apply_keystream(&mut edk);
            let mut blob = Vec::new();
            blob.extend_from_slice(&salt);
            blob.extend_from_slice(&iters.to_be_bytes());
            blob.extend_from_slice(&nonce);
            blob.extend_from_slice(&edk);
            let mut mac = hmac::Hmac::<sha2::Sha384>::new_from_slice(&ak).unwrap();
            mac.update(b"k3.local-pw.");
            mac.update(&blob);
            blob.extend_from_slice(&mac.finalize().into_bytes());
            // serialise via the library's own text form
            let raw = paseto_v3::KeyText::<paseto_core::version::Local>::from_raw_bytes(&blob).to_string();
            let txt = raw.replace("k3.local.", "k3.local-pw.");
            let a: paseto_core::paserk::PasswordWrappedKey<paseto_v3_aws_lc::core::V3, paseto_core::version::Local> = txt.parse().unwrap();
            let b: paseto_core::paserk::PasswordWrappedKey<paseto_v3::core::V3, paseto_core::version::Local> = txt.parse().unwrap();
            let ka = a.unwrap(pass).map(|k| k.expose_key().as_raw_bytes().to_vec());
            let kb = b.unwrap(pass).map(|k| k.expose_key().as_raw_bytes().to_vec());
            println!("d4 original key      : {:02x?}", &key[..]);
            println!("d4 aws-lc unwraps to : {:02x?}", ka.as_ref().map_err(|e| e.to_string()));
            println!("d4 paseto-v3 unwraps : {:02x?}", kb.as_ref().map_err(|e| e.to_string()));
            println!("d4 same key: aws-lc={} rustcrypto={}", ka.as_deref().ok() == Some(&key[..]), kb.as_deref().ok() == Some(&key[..]));
        }
        "d11" => {
            // PBKW with PBKDF2-HMAC (k1, k3): the password is an HMAC key, and HMAC zero-pads keys shorter than its block, so
            // `P` and `P || 0x00` are the same key. (k2/k4 use Argon2id, which absorbs the password length.)
            let k3 = paseto_v3::LocalKey::from([0x42u8; 32]);
            let w3 = k3.password_wrap(b"hunter2").unwrap();
            let r3 = w3.unwrap(b"hunter2\0");
            println!("d11 k3 (RustCrypto): wrapped with \"hunter2\", unwrapped with \"hunter2\\0\": ok={}", r3.is_ok());
            let k3l = paseto_v3_aws_lc::LocalKey::from([0x42u8; 32]);
            let w3l = k3l.password_wrap(b"hunter2").unwrap();
            println!("d11 k3 (aws-lc): ok={}", w3l.unwrap(b"hunter2\0").is_ok());
            let k1 = paseto_v1::LocalKey::from([0x42u8; 32]);
            let w1 = k1.password_wrap(b"hunter2").unwrap();
            println!("d11 k1: ok={}", w1.unwrap(b"hunter2\0").is_ok());
            let k4 = paseto_v4::LocalKey::from([0x42u8; 32]);
            let w4 = k4.password_wrap(b"hunter2").unwrap();
            println!("d11 k4 (Argon2id, control): ok={}", w4.unwrap(b"hunter2\0").is_ok());
        }
        "d10" => {
            // k4.local-pw blob whose Argon2 parallelism field is 0x2000_0000 (memory 64 KiB, 1 pass: inside any budget)
            use paseto_core::version::Local;
            let mut blob = Vec::new();
            blob.extend_from_slice(&[7u8; 16]);                    // salt
            blob.extend_from_slice(&(64u64 * 1024).to_be_bytes()); // mem (bytes)
            blob.extend_from_slice(&1u32.to_be_bytes());           // time
            blob.extend_from_slice(&0x2000_0000u32.to_be_bytes()); // para
            blob.extend_from_slice(&[9u8; 24]);                    // nonce
            blob.extend_from_slice(&[1u8; 32]);                    // ciphertext
            blob.extend_from_slice(&[2u8; 32]);                    // tag
            let txt = format!("k4.local-pw.{}", {
                struct B<'a>(&'a [u8]);
                impl std::fmt::Display for B<'_> { fn fmt(&self, f: &mut std::fmt::Formatter<'_>) -> std::fmt::Result {
                    const A: &[u8; 64] = b"ABCDEFGHIJKLMNOPQRSTUVWXYZabcdefghijklmnopqrstuvwxyz0123456789-_";
                    let mut out = String::new();
                    for c in self.0.chunks(3) {
                        let n = (c[0] as u32) << 16 | (*c.get(1).unwrap_or(&0) as u32) << 8 | *c.get(2).unwrap_or(&0) as u32;
                        out.push(A[(n >> 18) as usize & 63] as char); out.push(A[(n >> 12) as usize & 63] as char);
                        if c.len() > 1 { out.push(A[(n >> 6) as usize & 63] as char); }
                        if c.len() > 2 { out.push(A[n as usize & 63] as char); }
                    }
                    f.write_str(&out) } }
                B(&blob).to_string()
            });
            let w: paseto_core::paserk::PasswordWrappedKey<paseto_v4::core::V4, Local> = txt.parse().expect("parses");
            let r = std::panic::catch_unwind(move || w.unwrap(b"password").map(|_| ()).map_err(|e| e.to_string()));
            println!("d10 paseto-v4 unwrap of k4.local-pw with para=0x20000000: {}", match r { Ok(x) => format!("returned {x:?}"), Err(_) => "PANICKED".into() });
        }
        "d9" => {
            // k3.public with the SEC1 *compact* tag 0x05 in front of the x coordinate (49 bytes)
            use paseto_core::version::Public;
            let mut hits = 0;
            for _ in 0..8 {
                let sk = paseto_v3::SecretKey::random().unwrap();
                let pk = sk.public_key();
                let mut b = pk.expose_key().as_raw_bytes().to_vec();
                let orig = b.clone();
                b[0] = 0x05;
                let txt = paseto_v3::KeyText::<Public>::from_raw_bytes(&b).to_string();
                let a: Result<paseto_v3::PublicKey, _> = txt.parse();
                let c: Result<paseto_v3_aws_lc::PublicKey, _> = txt.parse();
                match (&a, &c) {
                    (Ok(k), _) => {
                        hits += 1;
                        println!("d9 paseto-v3 ACCEPTED tag 0x05 (orig tag {:#04x}); re-serialises as {} ; aws-lc: {:?}", orig[0], &k.to_string()[..24], c.as_ref().map(|_| "accepted").map_err(|e| e.to_string()));
                    }
                    (Err(e), _) => println!("d9 paseto-v3 rejected tag 0x05 (orig tag {:#04x}): {e}; aws-lc: {:?}", orig[0], c.as_ref().map(|_| "accepted").map_err(|e| e.to_string())),
                }
            }
            println!("d9 accepted {hits}/8");
        }
        "d8" => {
            // k3.public carrying the 97-byte *uncompressed* SEC1 encoding of a valid key
            use paseto_core::version::Public;
            let sk = paseto_v3::SecretKey::random().unwrap();
            let pk = sk.public_key();
            let compressed = pk.expose_key().as_raw_bytes().to_vec();
            let point = p384::PublicKey::from_sec1_bytes(&compressed).unwrap();
            use p384::elliptic_curve::sec1::ToEncodedPoint;
            let uncompressed = point.to_encoded_point(false).as_bytes().to_vec();
            println!("d8 lengths: compressed={} uncompressed={}", compressed.len(), uncompressed.len());
            let txt = paseto_v3::KeyText::<Public>::from_raw_bytes(&uncompressed).to_string();
            let a: Result<paseto_v3::PublicKey, _> = txt.parse();
            let b: Result<paseto_v3_aws_lc::PublicKey, _> = txt.parse();
            println!("d8 paseto-v3 accepts 97-byte k3.public: {}", a.is_ok());
            println!("d8 aws-lc   accepts 97-byte k3.public: {}", b.is_ok());
            if let Ok(a) = a { println!("d8 re-serialises to the same string: {}", a.to_string() == txt); }
        }
        _ => {}
    }
}
