"""C18 probe catalogue: minimal external-user programs. Each probe has `bad` (must fail to compile with one of `codes`
and mention `mention`) and `good` (its twin: identical but for the offending line; must compile).
Placeholders: {C} backend crate, {V} its version type, {O} another backend crate (different version or sibling)."""

PRELUDE = """#![allow(unused, dead_code)]
use {C}::{{LocalKey, SecretKey, PublicKey, SignedToken, EncryptedToken, UnsignedToken, UnencryptedToken, SealedKey, KeyId, KeyText}};
use paseto_core::key::Key;
use paseto_core::version::{{Local, Public, Secret, PkePublic, PkeSecret}};
use paseto_core::validation::NoValidation;
use paseto_json::Json;
type V = {V};
type M = Json<()>;
fn nv() -> NoValidation<M> {{ NoValidation::dangerous_no_validation() }}
"""

def P(id, what, bad, good, codes, mention=None, backends="all"):
    return dict(id=id, what=what, bad=bad, good=good, codes=codes, mention=mention, backends=backends)

PROBES = [
 P("P01", "decrypt a token with another backend's/version's local key",
   "fn f(k: &{O}::LocalKey, t: EncryptedToken<M>) {{ let _ = t.decrypt(k, &nv()); }}",
   "fn f(k: &LocalKey, t: EncryptedToken<M>) {{ let _ = t.decrypt(k, &nv()); }}", {"E0308"}),
 P("P02", "decrypt a signed token", "fn f(k: &LocalKey, t: SignedToken<M>) {{ let _ = t.decrypt(k, &nv()); }}",
   "fn f(k: &PublicKey, t: SignedToken<M>) {{ let _ = t.verify(k, &nv()); }}", {"E0599"}, "decrypt"),
 P("P03", "verify an encrypted token", "fn f(k: &PublicKey, t: EncryptedToken<M>) {{ let _ = t.verify(k, &nv()); }}",
   "fn f(k: &LocalKey, t: EncryptedToken<M>) {{ let _ = t.decrypt(k, &nv()); }}", {"E0599"}, "verify"),
 P("P04", "sign with a public key", "fn f(k: &PublicKey, t: UnsignedToken<M>) {{ let _ = t.sign(k); }}",
   "fn f(k: &SecretKey, t: UnsignedToken<M>) {{ let _ = t.sign(k); }}", {"E0308"}),
 P("P05", "sign with a local key", "fn f(k: &LocalKey, t: UnsignedToken<M>) {{ let _ = t.sign(k); }}",
   "fn f(k: &SecretKey, t: UnsignedToken<M>) {{ let _ = t.sign(k); }}", {"E0308"}),
 P("P06a", "encrypt with a secret key", "fn f(k: &SecretKey, t: UnencryptedToken<M>) {{ let _ = t.encrypt(k); }}",
   "fn f(k: &LocalKey, t: UnencryptedToken<M>) {{ let _ = t.encrypt(k); }}", {"E0308"}),
 P("P06b", "encrypt with a public key", "fn f(k: &PublicKey, t: UnencryptedToken<M>) {{ let _ = t.encrypt(k); }}",
   "fn f(k: &LocalKey, t: UnencryptedToken<M>) {{ let _ = t.encrypt(k); }}", {"E0308"}),
 P("P07a", "verify with a secret key", "fn f(k: &SecretKey, t: SignedToken<M>) {{ let _ = t.verify(k, &nv()); }}",
   "fn f(k: &PublicKey, t: SignedToken<M>) {{ let _ = t.verify(k, &nv()); }}", {"E0308"}),
 P("P07b", "verify with a local key", "fn f(k: &LocalKey, t: SignedToken<M>) {{ let _ = t.verify(k, &nv()); }}",
   "fn f(k: &PublicKey, t: SignedToken<M>) {{ let _ = t.verify(k, &nv()); }}", {"E0308"}),
 P("P08", "verify a token with another backend's/version's public key",
   "fn f(k: &{O}::PublicKey, t: SignedToken<M>) {{ let _ = t.verify(k, &nv()); }}",
   "fn f(k: &PublicKey, t: SignedToken<M>) {{ let _ = t.verify(k, &nv()); }}", {"E0308"}),
 P("P09", "PIE-wrap a public key", "fn f(k: PublicKey, w: &LocalKey) {{ let _ = k.wrap_pie(w); }}",
   "fn f(k: SecretKey, w: &LocalKey) {{ let _ = k.wrap_pie(w); }}", {"E0599", "E0277"}, "wrap_pie"),
 P("P10", "password-wrap a public key", "fn f(k: PublicKey) {{ let _ = k.password_wrap(b\"pw\"); }}",
   "fn f(k: LocalKey) {{ let _ = k.password_wrap(b\"pw\"); }}", {"E0599", "E0277"}, "password_wrap"),
 P("P11", "sign with a key-sealing (PKE) secret key", "fn f(k: &Key<V, PkeSecret>, t: UnsignedToken<M>) {{ let _ = t.sign(k); }}",
   "fn f(k: &Key<V, Secret>, t: UnsignedToken<M>) {{ let _ = t.sign(k); }}", {"E0308"}),
 P("P12", "unseal a sealed key with a signing secret key", "fn f(k: &SecretKey, s: SealedKey) {{ let _ = s.unseal(k); }}",
   "fn f(k: &Key<V, PkeSecret>, s: SealedKey) {{ let _ = s.unseal(k); }}", {"E0308"}),
 P("P13", "seal a key to a token-verification public key", "fn f(k: LocalKey, p: &PublicKey) {{ let _ = k.seal(p); }}",
   "fn f(k: LocalKey, p: &Key<V, PkePublic>) {{ let _ = k.seal(p); }}", {"E0308"}),
 P("P14", "serialise an unsealed (plaintext) token", "fn f(t: UnsignedToken<M>) -> String {{ t.to_string() }}",
   "fn f(t: SignedToken<M>) -> String {{ t.to_string() }}", {"E0599"}, "to_string"),
 P("P15a", "Display a local key", "fn f(k: &LocalKey) -> String {{ format!(\"{{}}\", k) }}",
   "fn f(k: &PublicKey) -> String {{ format!(\"{{}}\", k) }}", {"E0277"}, "Display"),
 P("P15b", "Display a secret key", "fn f(k: &SecretKey) -> String {{ format!(\"{{}}\", k) }}",
   "fn f(k: &PublicKey) -> String {{ format!(\"{{}}\", k) }}", {"E0277"}, "Display"),
 P("P15c", "Display a PKE secret key", "fn f(k: &Key<V, PkeSecret>) -> String {{ format!(\"{{}}\", k) }}",
   "fn f(k: &PublicKey) -> String {{ format!(\"{{}}\", k) }}", {"E0277"}, "Display"),
 P("P15d", "Display a PKE public key handle (only token public keys have a Display form)", "fn f(k: &Key<V, PkePublic>) -> String {{ format!(\"{{}}\", k) }}",
   "fn f(k: &PublicKey) -> String {{ format!(\"{{}}\", k) }}", {"E0277"}, "Display"),
 P("P16a", "Debug a local key", "fn f(k: &LocalKey) -> String {{ format!(\"{{:?}}\", k) }}",
   "fn f(k: &PublicKey) -> String {{ format!(\"{{}}\", k) }}", {"E0277"}, "Debug"),
 P("P16b", "Debug a secret key", "fn f(k: &SecretKey) -> String {{ format!(\"{{:?}}\", k) }}",
   "fn f(k: &PublicKey) -> String {{ format!(\"{{}}\", k) }}", {"E0277"}, "Debug"),
 P("P16c", "Debug a PKE secret key", "fn f(k: &Key<V, PkeSecret>) -> String {{ format!(\"{{:?}}\", k) }}",
   "fn f(k: &PublicKey) -> String {{ format!(\"{{}}\", k) }}", {"E0277"}, "Debug"),
 P("P16d", "Debug the backend's raw local key struct", "fn f(k: &{C}::core::LocalKey) -> String {{ format!(\"{{:?}}\", k) }}",
   "fn f(k: &{C}::core::LocalKey) -> usize {{ k.as_raw_bytes().len() }}", {"E0277"}, "Debug"),
 P("P16e", "Debug the backend's raw secret key struct", "fn f(k: &{C}::core::SecretKey) -> String {{ format!(\"{{:?}}\", k) }}",
   "fn f(k: &{C}::core::SecretKey) -> usize {{ core::mem::size_of_val(k) }}", {"E0277"}, "Debug"),
 P("P17", "reach into a key's private field", "fn f(k: &SecretKey) {{ let _ = &k.0; }}",
   "fn f(k: &SecretKey) {{ let _ = k.expose_key(); }}", {"E0616"}),
 P("P18", "forge a sealed token by struct literal",
   "fn f() -> EncryptedToken<M> {{ paseto_core::tokens::SealedToken {{ payload: Box::new([]), encoded_footer: Box::new([]), footer: (), _version: core::marker::PhantomData, _purpose: core::marker::PhantomData, _message: core::marker::PhantomData }} }}",
   "fn f(s: &str) -> Result<EncryptedToken<M>, paseto_core::PasetoError> {{ s.parse() }}", {"E0451"}),
 P("P19", "implement the sealed KeyType marker for an own type",
   "struct Mine; impl paseto_core::key::KeyType for Mine {{ const HEADER: &'static str = \".local.\"; const ID_HEADER: &'static str = \".lid.\"; }}",
   "struct Mine;", {"E0277"}, "Sealed"),
 P("P20", "create an unsealed token with purpose Secret",
   "fn f(m: M) {{ let _ = paseto_core::tokens::UnsealedToken::<V, Secret, M>::new(m); }}",
   "fn f(m: M) {{ let _ = paseto_core::tokens::UnsealedToken::<V, Public, M>::new(m); }}", {"E0599", "E0277"}, "Purpose"),
 P("P21", "name a PIE-wrapped public key type", "fn f(x: paseto_core::paserk::PieWrappedKey<V, Public>) {{}}",
   "fn f(x: paseto_core::paserk::PieWrappedKey<V, Local>) {{}}", {"E0277"}, "SealingKey"),
 P("P22", "compare key ids of different kinds", "fn f(a: KeyId<Local>, b: KeyId<Public>) -> bool {{ a == b }}",
   "fn f(a: KeyId<Local>, b: KeyId<Local>) -> bool {{ a == b }}", {"E0308"}),
 P("P27", "PIE-wrap a key under another backend's/version's wrapping key",
   "fn f(k: LocalKey, w: &{O}::LocalKey) {{ let _ = k.wrap_pie(w); }}",
   "fn f(k: LocalKey, w: &LocalKey) {{ let _ = k.wrap_pie(w); }}", {"E0308"}),
 P("P28", "PIE-wrap a secret key under another backend's/version's wrapping key",
   "fn f(k: SecretKey, w: &{O}::LocalKey) {{ let _ = k.wrap_pie(w); }}",
   "fn f(k: SecretKey, w: &LocalKey) {{ let _ = k.wrap_pie(w); }}", {"E0308"}),
 P("P29", "unwrap a PIE-wrapped key with another backend's/version's wrapping key",
   "fn f(p: paseto_core::paserk::PieWrappedKey<V, Local>, w: &{O}::LocalKey) {{ let _ = p.unwrap(w); }}",
   "fn f(p: paseto_core::paserk::PieWrappedKey<V, Local>, w: &LocalKey) {{ let _ = p.unwrap(w); }}", {"E0308"}),
 P("P30", "seal a local key to another backend's/version's PKE public key",
   "fn f(k: LocalKey, w: &Key<{OV}, PkePublic>) {{ let _ = k.seal(w); }}",
   "fn f(k: LocalKey, w: &Key<V, PkePublic>) {{ let _ = k.seal(w); }}", {"E0308"}),
 P("P31", "unseal a sealed key with another backend's/version's PKE secret key",
   "fn f(s: SealedKey, w: &Key<{OV}, PkeSecret>) {{ let _ = s.unseal(w); }}",
   "fn f(s: SealedKey, w: &Key<V, PkeSecret>) {{ let _ = s.unseal(w); }}", {"E0308"}),
 P("P32", "treat an unwrapped key as a key of another backend/version",
   "fn f(p: paseto_core::paserk::PieWrappedKey<V, Local>, w: &LocalKey) -> Option<{O}::LocalKey> {{ p.unwrap(w).ok() }}",
   "fn f(p: paseto_core::paserk::PieWrappedKey<V, Local>, w: &LocalKey) -> Option<LocalKey> {{ p.unwrap(w).ok() }}", {"E0308"}),
 P("P33", "compare key ids of different backends/versions",
   "fn f(a: KeyId<Local>, b: {O}::KeyId<Local>) -> bool {{ a == b }}",
   "fn f(a: KeyId<Local>, b: KeyId<Local>) -> bool {{ a == b }}", {"E0308"}),
 P("P34", "password-unwrap into a key of another backend/version",
   "fn f(p: paseto_core::paserk::PasswordWrappedKey<V, Local>) -> Option<{O}::LocalKey> {{ p.unwrap(b\"pw\").ok() }}",
   "fn f(p: paseto_core::paserk::PasswordWrappedKey<V, Local>) -> Option<LocalKey> {{ p.unwrap(b\"pw\").ok() }}", {"E0308"}),
 P("P35", "pass a PIE-wrapped local key where the crate's PieWrappedSecretKey alias is expected",
   "fn f(x: paseto_core::paserk::PieWrappedKey<V, Local>) -> {C}::PieWrappedSecretKey {{ x }}",
   "fn f(x: paseto_core::paserk::PieWrappedKey<V, Secret>) -> {C}::PieWrappedSecretKey {{ x }}", {"E0308"}, None, ["paseto_v2", "paseto_v4"]),
 P("P36", "pass a PIE-wrapped secret key where the crate's PieWrappedLocalKey alias is expected",
   "fn f(x: paseto_core::paserk::PieWrappedKey<V, Secret>) -> {C}::PieWrappedLocalKey {{ x }}",
   "fn f(x: paseto_core::paserk::PieWrappedKey<V, Local>) -> {C}::PieWrappedLocalKey {{ x }}", {"E0308"}, None, ["paseto_v2", "paseto_v4"]),
 P("P37", "pass a password-wrapped local key where the crate's PasswordWrappedSecretKey alias is expected",
   "fn f(x: paseto_core::paserk::PasswordWrappedKey<V, Local>) -> {C}::PasswordWrappedSecretKey {{ x }}",
   "fn f(x: paseto_core::paserk::PasswordWrappedKey<V, Secret>) -> {C}::PasswordWrappedSecretKey {{ x }}", {"E0308"}, None, ["paseto_v2", "paseto_v4"]),
 P("P38", "pass a password-wrapped secret key where the crate's PasswordWrappedLocalKey alias is expected",
   "fn f(x: paseto_core::paserk::PasswordWrappedKey<V, Secret>) -> {C}::PasswordWrappedLocalKey {{ x }}",
   "fn f(x: paseto_core::paserk::PasswordWrappedKey<V, Local>) -> {C}::PasswordWrappedLocalKey {{ x }}", {"E0308"}, None, ["paseto_v2", "paseto_v4"]),
 P("P39a", "the crate's LocalKey alias is not a key of another kind",
   "fn f(x: Key<V, Secret>) -> LocalKey {{ x }}", "fn f(x: Key<V, Local>) -> LocalKey {{ x }}", {"E0308"}),
 P("P39b", "the crate's SecretKey alias is not a key of another kind",
   "fn f(x: Key<V, PkeSecret>) -> SecretKey {{ x }}", "fn f(x: Key<V, Secret>) -> SecretKey {{ x }}", {"E0308"}),
 P("P39c", "the crate's PublicKey alias is not a key of another kind",
   "fn f(x: Key<V, PkePublic>) -> PublicKey {{ x }}", "fn f(x: Key<V, Public>) -> PublicKey {{ x }}", {"E0308"}),
 P("P40a", "the crate's SignedToken alias is not an encrypted token",
   "fn f(x: paseto_core::EncryptedToken<V, M>) -> SignedToken<M> {{ x }}", "fn f(x: paseto_core::SignedToken<V, M>) -> SignedToken<M> {{ x }}", {"E0308"}),
 P("P40b", "the crate's EncryptedToken alias is not a signed token",
   "fn f(x: paseto_core::SignedToken<V, M>) -> EncryptedToken<M> {{ x }}", "fn f(x: paseto_core::EncryptedToken<V, M>) -> EncryptedToken<M> {{ x }}", {"E0308"}),
 P("P40d", "the crate's UnencryptedToken alias is not an unsigned (public-purpose) token",
   "fn f(x: paseto_core::UnsignedToken<V, M>) -> UnencryptedToken<M> {{ x }}", "fn f(x: paseto_core::UnencryptedToken<V, M>) -> UnencryptedToken<M> {{ x }}", {"E0308"}),
 P("P40e", "the crate's UnsignedToken alias is not an unencrypted (local-purpose) token",
   "fn f(x: paseto_core::UnencryptedToken<V, M>) -> UnsignedToken<M> {{ x }}", "fn f(x: paseto_core::UnsignedToken<V, M>) -> UnsignedToken<M> {{ x }}", {"E0308"}),
 P("P40f", "seal an unencrypted token (crate alias) with a signing key",
   "fn f(k: &SecretKey, m: M) {{ let _ = UnencryptedToken::new(m).seal(k, &[]); }}", "fn f(k: &LocalKey, m: M) {{ let _ = UnencryptedToken::new(m).seal(k, &[]); }}", {"E0308"}),
 P("P40c", "the crate's aliases belong to the crate's own version",
   "fn f(x: paseto_core::LocalKey<{OV}>) -> LocalKey {{ x }}", "fn f(x: paseto_core::LocalKey<V>) -> LocalKey {{ x }}", {"E0308"}),
 P("P23", "build a local key from 31 bytes", "fn f() -> LocalKey {{ LocalKey::from([0u8; 31]) }}",
   "fn f() -> LocalKey {{ LocalKey::from([0u8; 32]) }}", {"E0277", "E0308"}),
 P("P24a", "serde-serialise an unsealed token", "fn needs<T: serde_core::Serialize>() {{}} fn f() {{ needs::<UnencryptedToken<M>>(); }}",
   "fn needs<T: serde_core::Serialize>() {{}} fn f() {{ needs::<EncryptedToken<M>>(); }}", {"E0277"}, "Serialize"),
 P("P24b", "serde-serialise a key", "fn needs<T: serde_core::Serialize>() {{}} fn f() {{ needs::<SecretKey>(); }}",
   "fn needs<T: serde_core::Serialize>() {{}} fn f() {{ needs::<KeyText<Secret>>(); }}", {"E0277"}, "Serialize"),
 P("P25", "read a sealed token's footer field directly", "fn f(t: &SignedToken<M, Vec<u8>>) -> &Vec<u8> {{ &t.footer }}",
   "fn f(t: &SignedToken<M, Vec<u8>>) -> &Vec<u8> {{ t.unverified_footer() }}", {"E0616"}),
 P("P26", "copy key bytes out of a key without expose_key (raw struct field)", "fn f(k: &{C}::core::LocalKey) -> [u8; 32] {{ k.0 }}",
   "fn f(k: &{C}::core::LocalKey) -> [u8; 32] {{ *k.as_raw_bytes() }}", {"E0616"}),
]

# positive-only probes: programs that must compile (correct use; auto traits of keys for C17)

# ---- method availability per key kind (generated): the API table below is the specification; a method reachable on another kind
# lets that kind be used in the other's role (e.g. public_key() on a PKE secret key yields a token-verification key)
_KINDS = ["Local", "Public", "Secret", "PkePublic", "PkeSecret"]
_METHOD_KINDS = {"public_key": ["Secret"], "seal": ["Local"], "random": ["Local", "Secret"],
                 "wrap_pie": ["Local", "Secret"], "password_wrap": ["Local", "Secret"], "password_wrap_with_params": ["Local", "Secret"]}
for _m, _ok in _METHOD_KINDS.items():
    for _y in _KINDS:
        if _y not in _ok:
            PROBES.append(P(f"M-{_m}-{_y}", f"call Key::{_m} on a {_y} key (defined for {'/'.join(_ok)} only)",
                            "fn f() {{ let _ = <Key<V, " + _y + ">>::" + _m + "; }}",
                            "fn f() {{ let _ = <Key<V, " + _ok[0] + ">>::" + _m + "; }}", {"E0599", "E0277"}))

POSITIVE = [
 ("Q01", "keys are Send + Sync", "fn s<T: Send + Sync>() {{}} fn f() {{ s::<LocalKey>(); s::<SecretKey>(); s::<PublicKey>(); s::<Key<V, PkeSecret>>(); s::<Key<V, PkePublic>>(); }}"),
 ("Q02", "round trip API shape", "fn f(k: &LocalKey, m: M) -> Result<(), paseto_core::PasetoError> {{ let t = UnencryptedToken::new(m).encrypt(k)?; let s = t.to_string(); let t2: EncryptedToken<M> = s.parse()?; let _ = t2.decrypt(k, &nv())?; Ok(()) }}"),
 ("Q03", "sign / verify API shape", "fn f(k: &SecretKey, m: M) -> Result<(), paseto_core::PasetoError> {{ let t = UnsignedToken::new(m).sign(k)?; let p = k.public_key(); let _ = t.verify(&p, &nv())?; Ok(()) }}"),
 ("Q04", "explicit expose call yields key text", "fn f(k: &SecretKey) -> String {{ k.expose_key().to_string() }}"),
]